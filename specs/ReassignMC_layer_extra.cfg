SPECIFICATION Spec
CONSTANTS
  Mode = "layer"
  Impl = "ref"
  NP = 1
  NCh = 1
  BitsSel = "2-4-8"
  CMin = 1
  CMax = 12
  Extra = 1
INVARIANT InvLayerComposition
INVARIANT InvLayerPromotes
INVARIANT InvLayerCost
