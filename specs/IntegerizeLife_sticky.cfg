SPECIFICATION Spec
CONSTANTS
  Impl = "sticky"
  MaxLen = 3
  UpdKinds = {"load"}
  Nests = {"any"}
  MatchOpts <- Opts_quick
INVARIANT OptionsOfThisCall
