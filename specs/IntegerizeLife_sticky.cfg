SPECIFICATION Spec
CONSTANTS
  Impl = "sticky"
  MaxLen = 3
  UpdKinds = {"load"}
  Nests = {"any"}
  MatchOpts <- Opts_q3
INVARIANT OptionsOfThisCall
