--------------------------- MODULE CostModelsTrace ---------------------------
(***************************************************************************)
(* Trace validation for C16.  A trace is a table of values OBSERVED on the *)
(* real plinio cost functions / rounding helpers (S = 4: channel counts in *)
(* quarter channels).  Four kinds:                                         *)
(*                                                                         *)
(*  "chain"  [fn, base, axis, xs, obs, pos, c32]  one registered cost      *)
(*           function evaluated along ONE axis, everything else fixed      *)
(*           (base); pos[i] = raw value > 0; c32 (optional, else <<>>) =   *)
(*           category of the same evaluation with float32 tensors (0 ok).  *)
(*  "dw"     [fn, pts, obs, gen]  depthwise function at pts[i] and the     *)
(*           generic function of the same model at one group (1 -> 1).     *)
(*  "reject" [fn, pts, obs]  descriptions inside / outside the declared    *)
(*           restrictions of a restricted model.                           *)
(*  "helper" [h, N, xs, val, isint, ok, gin, gout]  a rounding helper      *)
(*           h(x, N) along x with the gradient that reached x for upstream *)
(*           gradient gin (both x 1000).                                   *)
(*  "registry" [fns]  the functions the built-in specifications register.  *)
(*  "points" [fn, pts, var, strict, obs, pos]  every state of CostDomainMC  *)
(*           (precisions that are not integers / negative / huge, theta of *)
(*           exactly 0 and 1, 0 and 1/4 channel) evaluated with the inputs *)
(*           passed as var[i] ("tensor" | "pyfloat" | "pyint"); strict[i]  *)
(*           = that input type belongs to the function's interface.        *)
(*  "life"   [l, init, hist, ev]  a HISTORY on one shared description (a   *)
(*           real dict re-used for every call; module CostLife): events    *)
(*           [a |-> "set", f, v]  the owner writes one field, or           *)
(*           [a |-> "eval", m, pat, res, fresh, pos, frame]  function m/pat *)
(*           is asked: res = observation on the shared dict, fresh = on a  *)
(*           newly built dict with the same contents, frame = "same" or a  *)
(*           description of what the call changed in the shared dict.      *)
(*                                                                         *)
(* An observed value is a little-endian base-10^4 limb list of             *)
(*      round(value * ObsUnit)       (never empty; zero is <<0>>)          *)
(* or <<-1>> = the function raised, <<-2>> = not finite, <<-3>> = negative.*)
(*                                                                         *)
(* PROPERTY clauses (named C16.xyz) are evaluated on observed values only. *)
(* PREDICTION clauses compare the observation with the transcription in    *)
(* CostFormulas; a failed prediction alone is "drift:", never an alarm.    *)
(*                                                                         *)
(* Tolerances (stated): integer-valued models are compared exactly (the    *)
(* harness evaluates in float64 where all grid values are exact).  MPIC    *)
(* cycles: 2 units of 1/16000 cycle.  MPIC energy: relative 1e-6 (the code *)
(* takes the mean power from a float32 tensor) + 2 units of 1e-17/16 J.    *)
(* DIANA: 1 unit of 1/160 cycle (70/(1e9/260e6) is not exactly 18.2 in     *)
(* binary).  The same slack is granted to the monotone-chain clause of     *)
(* these models, none to the others.                                       *)
(***************************************************************************)
EXTENDS CostLife, Json, IOUtils, TLC

Traces == JsonDeserialize(IOEnv.TRACE_FILE)

VARIABLES tid, verdict

S == 4

\* unit of the logged values:  <<mantissa, power of ten>>   (checked against the trace)
ObsUnit(m) ==
    IF m = "mpic_latency" THEN <<16, 3>>
    ELSE IF m = "mpic_energy" THEN <<16, 17>>
    ELSE <<CostUnit(m, S), 0>>

Slack(m) == IF m = "diana_latency" THEN 1 ELSE IF m \in MpicModels THEN 2 ELSE 0

Cat(o) == IF Len(o) >= 1 /\ o[1] < 0 THEN o[1] ELSE 0
WellFormedObs(o) == Len(o) >= 1 /\ (o[1] < 0 \/ BigWellFormed(o))

ObsStr(o) == IF Cat(o) = -1 THEN "an exception" ELSE IF Cat(o) = -2 THEN "a non-finite value"
             ELSE IF Cat(o) = -3 THEN "a negative value" ELSE BigStr(BigPad(o))
FnStr(fn) == fn.m \o "/" \o fn.l \o "/" \o fn.pat
Where(fn, q) == FnStr(fn) \o " at " \o ToString(q)

ApplyAxis(base, axis, x) ==
    CASE axis = "cin"  -> [base EXCEPT !.cin = x]
      [] axis = "cout" -> [base EXCEPT !.cout = x]
      [] axis = "c"    -> [base EXCEPT !.cin = x, !.cout = x]
      [] axis = "kx"   -> [base EXCEPT !.kx = x]
      [] axis = "ky"   -> [base EXCEPT !.ky = x]
      [] axis = "k13"  -> [base EXCEPT !.kx = x, !.ky = x]
      [] axis = "ox"   -> [base EXCEPT !.ox = x]
      [] axis = "oy"   -> [base EXCEPT !.oy = x]
      [] axis = "w"    -> [base EXCEPT !.w = x]
      [] axis = "a"    -> [base EXCEPT !.a = x]
      [] OTHER         -> base

Axes == {"cin", "cout", "c", "kx", "ky", "k13", "ox", "oy", "w", "a"}

\* axes along which C16 claims monotonicity for model m
MonotoneAxis(m, axis) ==
    IF axis = "w" THEN m \in {"params_bit", "ops_bit", "mpic_latency", "mpic_energy", "ne16_latency"}
    ELSE IF axis = "a" THEN m \in {"ops_bit", "mpic_latency", "mpic_energy"}
    ELSE TRUE

NonZeroBits(m, q) == (UsesW(m) => q.w > 0) /\ (UsesA(m) => q.a > 0)
NonEmpty(q) == q.cin >= S /\ q.cout >= S /\ q.kx >= 1 /\ q.ky >= 1 /\ q.ox >= 1 /\ q.oy >= 1

\* the description is one the layer type / pattern of fn can have
ValidFor(fn, q) ==
    /\ q.cin >= 1 /\ q.cout >= 1 /\ q.b \in {0, 1} /\ q.g \in {0, 1} /\ q.td \in {1, 2, 4}
    /\ (fn.pat = "dw" => q.g = 0)
    /\ (q.g = 0 => q.cin = q.cout)
    /\ (fn.l = "linear" => q.kx = 1 /\ q.ky = 1 /\ q.ox = 1 /\ q.oy = 1 /\ q.g = 1)
    /\ (fn.l = "conv1d" => q.ky = 1 /\ q.oy = 1)

(***************************************************************************)
(* prediction: does the observed value v (a Big) conform to the model?     *)
(***************************************************************************)
Conforms(fn, q, v) ==
    LET core == CostCore(fn, q, S) IN
    IF core = Reject THEN FALSE
    ELSE LET num == BigMulSmall(BigProd(core, CostMult(fn, q)), CostNum(fn, q))
             den == CostDen(fn, q)
         IN  IF fn.m = "mpic_latency"
             THEN BigLeq(BigAbsDiff(BigMulSmall(v, den), BigMulSmall(num, 1000)), BigFromInt(2 * den))
             ELSE IF fn.m = "mpic_energy"
             THEN BigLeq(BigMulSmall(BigAbsDiff(BigMulSmall(v, den), BigMulSmall(num, 1000)), 1000),
                         BigAdd(num, BigFromInt(2000 * den)))
             ELSE IF fn.m = "diana_latency"
             THEN BigLeq(BigAbsDiff(v, num), BigFromInt(1))
             ELSE v = num

Predicted(fn, q) ==
    LET core == CostCore(fn, q, S) IN
    IF core = Reject THEN "raise"
    ELSE BigStr(BigMulSmall(BigProd(core, CostMult(fn, q)), CostNum(fn, q))) \o (IF CostDen(fn, q) = 1 THEN "" ELSE "*1000/" \o ToString(CostDen(fn, q)))

(***************************************************************************)
(* Tables are judged point by point (no deep recursion): the verdict is    *)
(* the property clause failing at the FIRST bad point, else the first      *)
(* prediction failure ("drift:"), else "ok".                               *)
(***************************************************************************)
MinOf(T) == CHOOSE i \in T : \A j \in T : i <= j
Judge(n, Status(_), Drift(_)) ==
    LET bad == {i \in 1..n : Status(i) # ""} IN
    IF bad # {} THEN Status(MinOf(bad))
    ELSE LET dr == {i \in 1..n : Drift(i) # ""} IN
         IF dr # {} THEN "drift:" \o Drift(MinOf(dr)) ELSE "ok"

(***************************************************************************)
(* chain                                                                   *)
(***************************************************************************)
ChainStatus(t, i) ==
    LET fn  == t.fn
        q   == ApplyAxis(t.base, t.axis, t.xs[i])
        o   == t.obs[i]
        cat == Cat(o)
    IN
    IF ~WellFormedObs(o) THEN "C16.trace: malformed observation " \o ToString(i)
    ELSE IF ~ValidFor(fn, q) \/ (i > 1 /\ t.xs[i] <= t.xs[i - 1])
         THEN "C16.trace: invalid chain point " \o ToString(i)
    ELSE IF cat = -1 THEN "C16.defined: cost function raises on a valid description: " \o Where(fn, q)
    ELSE IF cat = -2 THEN "C16.finite: cost is not finite: " \o Where(fn, q)
    ELSE IF cat = -3 THEN "C16.nonneg: cost is negative: " \o Where(fn, q)
    ELSE LET v == BigPad(o) IN
         IF /\ i > 1 /\ MonotoneAxis(fn.m, t.axis) /\ WellFormedObs(t.obs[i - 1]) /\ Cat(t.obs[i - 1]) = 0
            /\ ~BigLeq(BigPad(t.obs[i - 1]), BigAdd(v, BigFromInt(Slack(fn.m))))
         THEN "C16.monotone: cost decreases when " \o t.axis \o " grows from " \o ToString(t.xs[i - 1])
              \o " to " \o ToString(t.xs[i]) \o " (" \o BigStr(BigPad(t.obs[i - 1])) \o " -> " \o BigStr(v) \o ", unit 1/" \o ToString(t.unit[1]) \o "e" \o ToString(t.unit[2]) \o "): "
              \o Where(fn, q)
         ELSE IF NonEmpty(q) /\ NonZeroBits(fn.m, q) /\ ~t.pos[i]
         THEN "C16.positive: zero cost for a non-empty layer: " \o Where(fn, q)
         ELSE IF "c32" \in DOMAIN t /\ Len(t.c32) = Len(t.xs) /\ t.c32[i] # 0
         THEN "C16.finite: with float32 channel tensors the function raises / is not finite / is negative (code "
              \o ToString(t.c32[i]) \o "): " \o Where(fn, q)
         ELSE ""

ChainDrift(t, i) ==
    LET q == ApplyAxis(t.base, t.axis, t.xs[i])
        v == BigPad(t.obs[i])
    IN  IF Conforms(t.fn, q, v) THEN ""
        ELSE "value differs from the transcription: observed " \o BigStr(v)
             \o " predicted " \o Predicted(t.fn, q) \o ": " \o Where(t.fn, q)

CheckChain(t) ==
    IF t.fn \notin Registered THEN "drift:registered function unknown to the specification: " \o FnStr(t.fn)
    ELSE IF t.axis \notin Axes \/ Len(t.obs) # Len(t.xs) \/ Len(t.pos) # Len(t.xs) \/ t.unit # ObsUnit(t.fn.m)
    THEN "C16.trace: malformed chain"
    ELSE Judge(Len(t.xs), LAMBDA i : ChainStatus(t, i), LAMBDA i : ChainDrift(t, i))

(***************************************************************************)
(* depthwise = generic per group                                           *)
(***************************************************************************)
DwStatus(t, i) ==
    LET q == t.pts[i] IN
    IF ~WellFormedObs(t.obs[i]) \/ ~WellFormedObs(t.gen[i]) \/ ~ValidFor(t.fn, q)
    THEN "C16.trace: malformed dw point " \o ToString(i)
    ELSE IF Cat(t.obs[i]) # 0 \/ Cat(t.gen[i]) # 0
    THEN "C16.defined: depthwise or generic function has no finite non-negative value: " \o Where(t.fn, q)
    ELSE IF BigMulSmall(BigPad(t.obs[i]), S) # BigMulSmall(BigPad(t.gen[i]), q.cout)
    THEN "C16.dw: depthwise cost " \o BigStr(BigPad(t.obs[i])) \o "/16 is not channels x generic cost of one group "
         \o BigStr(BigPad(t.gen[i])) \o "/16" \o ": " \o Where(t.fn, q)
    ELSE ""

CheckDw(t) ==
    IF t.fn \notin Registered \/ t.fn.pat # "dw" \/ t.fn.m \notin SizeModels \cup OpsModels
       \/ Len(t.obs) # Len(t.pts) \/ Len(t.gen) # Len(t.pts) \/ t.unit # ObsUnit(t.fn.m)
    THEN "C16.trace: malformed dw table"
    ELSE Judge(Len(t.pts), LAMBDA i : DwStatus(t, i), LAMBDA i : "")

(***************************************************************************)
(* rejection of unsupported precisions / layer kinds                       *)
(***************************************************************************)
RejectStatus(t, i) ==
    LET q      == t.pts[i]
        raised == Cat(t.obs[i]) = -1
        decl   == DeclaredSupported(t.fn, q)
    IN
    IF ~WellFormedObs(t.obs[i]) \/ ~ValidFor(t.fn, q) THEN "C16.trace: malformed reject point " \o ToString(i)
    ELSE IF ~decl /\ ~raised
    THEN "C16.reject: unsupported precision / layer kind is not rejected: " \o Where(t.fn, q)
    ELSE IF decl /\ raised
    THEN "C16.defined: supported description is rejected: " \o Where(t.fn, q)
    ELSE ""

RejectDrift(t, i) ==
    IF (Cat(t.obs[i]) = -1) # (CostCore(t.fn, t.pts[i], S) = Reject)
    THEN "transcription and code disagree on rejection: " \o Where(t.fn, t.pts[i]) ELSE ""

CheckReject(t) ==
    IF t.fn \notin Registered \/ Len(t.obs) # Len(t.pts) THEN "C16.trace: malformed reject table"
    ELSE Judge(Len(t.pts), LAMBDA i : RejectStatus(t, i), LAMBDA i : RejectDrift(t, i))

(***************************************************************************)
(* rounding helpers: value (in unit S) and gradient (x 1000)               *)
(***************************************************************************)
CeilHelpers  == {"gap8.FloorSTE", "diana.FloorSTE", "gap8._floor", "diana._floor", "ne16.DivAndCeilSTE"}
FloorHelpers == {"ne16.FloorDivideSTE"}
ModHelpers   == {"ne16.ModuloSTE"}
Helpers      == CeilHelpers \cup FloorHelpers \cup ModHelpers
HasGrad(h)   == h \notin {"gap8._floor", "diana._floor"}

HelperModel(h, xs, N) ==
    IF h = "ne16.DivAndCeilSTE" THEN S * DivAndCeilSTE(xs, N, S)
    ELSE IF h \in CeilHelpers THEN S * FloorSTE(xs, N, S)
    ELSE IF h \in FloorHelpers THEN S * FloorDivideSTE(xs, N, S)
    ELSE ModuloSTE(xs, N, S)

HelperAt(t, i) == t.h \o "(" \o ToString(t.xs[i]) \o "/4, " \o ToString(t.N) \o ") = " \o ToString(t.val[i]) \o "/4"

HelperStatus(t, i) ==
    LET h  == t.h
        N  == t.N
        d  == S * N
        xs == t.xs[i]
        v  == t.val[i]             \* result * S
        at == HelperAt(t, i)
    IN
    IF ~t.ok[i] THEN "C16.helper: raises or returns a non-finite value: " \o at
    ELSE IF h \notin ModHelpers /\ (~t.isint[i] \/ v % S # 0)
    THEN "C16.helper: result is not an integer: " \o at
    \* exact ceiling for integral arguments; within one of x/N otherwise
    ELSE IF h \in CeilHelpers /\ IsIntegral(xs, S) /\ ~((v - S) * N < xs /\ xs <= v * N)
    THEN "C16.helper: not the exact ceiling: " \o at
    ELSE IF h \in CeilHelpers /\ ~((v - S) * N < xs /\ xs < (v + S) * N)
    THEN "C16.helper: further than one from the exact quotient: " \o at
    \* exact floor / modulo for every argument (Euclid)
    ELSE IF h \in FloorHelpers /\ ~(v * N <= xs /\ xs < (v + S) * N)
    THEN "C16.helper: not the exact floor: " \o at
    ELSE IF h \in ModHelpers /\ ~(t.isint[i] /\ 0 <= v /\ v < d /\ (xs - v) % d = 0)
    THEN "C16.helper: not the exact modulo: " \o at
    ELSE IF h \notin ModHelpers /\ i > 1 /\ t.ok[i - 1] /\ v < t.val[i - 1]
    THEN "C16.helper: result decreases when the argument grows: " \o at
    ELSE IF HasGrad(h) /\ t.gout[i] # t.gin
    THEN "C16.helper: gradient is not passed through (upstream " \o ToString(t.gin) \o "/1000, received "
         \o ToString(t.gout[i]) \o "/1000): " \o at
    ELSE ""

HelperDrift(t, i) ==
    IF t.val[i] # HelperModel(t.h, t.xs[i], t.N)
    THEN "helper differs from the transcription (" \o ToString(HelperModel(t.h, t.xs[i], t.N)) \o "/4): " \o HelperAt(t, i)
    ELSE ""

CheckHelper(t) ==
    IF t.h \notin Helpers \/ t.N < 1 \/ Len(t.val) # Len(t.xs) \/ Len(t.isint) # Len(t.xs)
       \/ Len(t.ok) # Len(t.xs) \/ Len(t.gout) # Len(t.xs)
       \/ \E i \in 2..Len(t.xs) : t.xs[i] <= t.xs[i - 1]
    THEN "C16.trace: malformed helper table"
    ELSE Judge(Len(t.xs), LAMBDA i : HelperStatus(t, i), LAMBDA i : HelperDrift(t, i))

(***************************************************************************)
(* the set of registered functions (prediction only)                       *)
(***************************************************************************)
CheckRegistry(t) ==
    LET real == {t.fns[i] : i \in DOMAIN t.fns} IN
    IF real = Registered THEN "ok"
    ELSE "drift:registered cost functions differ from the specification: only in plinio "
         \o ToString(real \ Registered) \o ", only in the specification " \o ToString(Registered \ real)

(***************************************************************************)
(* history on one shared description (purity; CostLife)                    *)
(***************************************************************************)
RECURSIVE LifeWalk(_, _, _, _)
LifeWalk(t, i, p, drift) ==
    IF i > Len(t.ev) THEN (IF drift = "" THEN "ok" ELSE "drift:" \o drift)
    ELSE LET e == t.ev[i] IN
    IF e.a = "set"
    THEN IF ~(e.f \in LifeFields /\ FieldApplies(t.l, p.g, e.f))
         THEN "C16.trace: set event " \o ToString(i) \o " does not apply"
         ELSE LifeWalk(t, i + 1, SetFieldOf(t.l, p, e.f, e.v), drift)
    ELSE IF e.a # "eval" THEN "C16.trace: unknown event " \o ToString(i)
    ELSE
    LET fn      == [m |-> e.m, l |-> t.l, pat |-> e.pat]
        at      == " [event " \o ToString(i) \o " of " \o t.hist \o "] " \o Where(fn, p)
        raised  == Cat(e.res) = -1
        decl    == DeclaredSupported(fn, p)
        claimed == ~(fn.m = "ne16_latency" /\ p.w \notin {2, 4, 8})     \* NE16 declares no weight restriction
    IN
    IF fn \notin FnsFor(t.l, p.g) \/ ~ValidFor(fn, p) \/ ~WellFormedObs(e.res) \/ ~WellFormedObs(e.fresh)
    THEN "C16.trace: malformed eval event " \o ToString(i)
    ELSE IF e.frame # "same"
    THEN "C16.frame: the evaluation modified the layer description it was given (" \o e.frame \o "):" \o at
    ELSE IF e.res # e.fresh
    THEN "C16.history: on a description that was used before the function returns " \o ObsStr(e.res)
         \o " but on an identical fresh description " \o ObsStr(e.fresh) \o " (unit 1/" \o ToString(ObsUnit(fn.m)[1])
         \o "e" \o ToString(ObsUnit(fn.m)[2]) \o "):" \o at
    ELSE IF claimed /\ ~decl /\ ~raised
    THEN "C16.reject: unsupported precision / layer kind is not rejected:" \o at
    ELSE IF claimed /\ decl /\ raised
    THEN "C16.defined: cost function raises on a valid description:" \o at
    ELSE IF Cat(e.res) = -2 THEN "C16.finite: cost is not finite:" \o at
    ELSE IF Cat(e.res) = -3 THEN "C16.nonneg: cost is negative:" \o at
    ELSE IF ~raised /\ NonEmpty(p) /\ NonZeroBits(fn.m, p) /\ ~e.pos
    THEN "C16.positive: zero cost for a non-empty layer:" \o at
    ELSE LifeWalk(t, i + 1, p,
                  IF drift # "" THEN drift
                  ELSE IF raised # (CostCore(fn, p, S) = Reject)
                  THEN "transcription and code disagree on rejection:" \o at
                  ELSE IF ~raised /\ ~Conforms(fn, p, BigPad(e.res))
                  THEN "value differs from the transcription: observed " \o BigStr(BigPad(e.res))
                       \o " predicted " \o Predicted(fn, p) \o ":" \o at
                  ELSE "")

CheckLife(t) ==
    IF t.l \notin {"conv1d", "conv2d", "linear"} \/ Len(t.ev) = 0 THEN "C16.trace: malformed life trace"
    ELSE LifeWalk(t, 1, t.init, "")

(***************************************************************************)
(* points on the boundary / outside of the supported domain (CostDomainMC) *)
(***************************************************************************)
ValidPoint(fn, q) ==
    /\ q.cin >= 0 /\ q.cout >= 0 /\ q.b \in {0, 1} /\ q.g \in {0, 1} /\ q.td \in {0, 1, 2, 4}
    /\ q.wf \in 0..9 /\ q.af \in 0..9
    /\ (fn.pat = "dw" => q.g = 0)
    /\ (q.g = 0 => q.cin = q.cout /\ q.cin >= S /\ (fn.m = "diana_latency" => q.cin > S))
    /\ (fn.l = "linear" => q.kx = 1 /\ q.ky = 1 /\ q.ox = 1 /\ q.oy = 1 /\ q.g = 1)
    /\ (fn.l = "conv1d" => q.ky = 1 /\ q.oy = 1)

PointAt(t, i) == " [inputs passed as " \o t.var[i] \o "; w = " \o ToString(t.pts[i].w) \o "+" \o ToString(t.pts[i].wf)
                 \o "/10, a = " \o ToString(t.pts[i].a) \o "+" \o ToString(t.pts[i].af) \o "/10, theta = "
                 \o (IF t.pts[i].td = 0 THEN "0" ELSE "1/" \o ToString(t.pts[i].td)) \o "] " \o Where(t.fn, t.pts[i])

PointStatus(t, i) ==
    LET fn     == t.fn
        q      == t.pts[i]
        o      == t.obs[i]
        raised == Cat(o) = -1
        sup    == CostSupported(fn, q)
        clm    == CostClaimed(fn, q)
    IN
    IF ~WellFormedObs(o) \/ ~ValidPoint(fn, q) THEN "C16.trace: malformed point " \o ToString(i)
    ELSE IF clm /\ ~sup /\ ~raised
    THEN "C16.reject: input outside the supported domain is not rejected (observed " \o ObsStr(o) \o "):" \o PointAt(t, i)
    ELSE IF clm /\ sup /\ t.strict[i] /\ raised
    THEN "C16.defined: cost function raises on the boundary of its domain:" \o PointAt(t, i)
    ELSE IF Cat(o) = -2 THEN "C16.finite: cost is not finite (NaN / inf):" \o PointAt(t, i)
    ELSE IF Cat(o) = -3 THEN "C16.nonneg: cost is negative:" \o PointAt(t, i)
    ELSE IF ~raised /\ sup /\ NonEmpty(q) /\ NonZeroBits(fn.m, q) /\ q.td > 0 /\ ~t.pos[i]
    THEN "C16.positive: zero cost for a non-empty layer:" \o PointAt(t, i)
    ELSE ""

PointDrift(t, i) ==
    LET q == t.pts[i]
        raised == Cat(t.obs[i]) = -1
    IN  IF ~CostClaimed(t.fn, q) \/ ~CostSupported(t.fn, q) \/ (raised /\ ~t.strict[i]) THEN ""
        ELSE IF raised # (CostCore(t.fn, q, S) = Reject)
        THEN "transcription and code disagree on rejection:" \o PointAt(t, i)
        ELSE IF ~raised /\ ~Conforms(t.fn, q, BigPad(t.obs[i]))
        THEN "value differs from the transcription: observed " \o ObsStr(t.obs[i]) \o " predicted "
             \o Predicted(t.fn, q) \o ":" \o PointAt(t, i)
        ELSE ""

CheckPoints(t) ==
    IF t.fn \notin Registered \/ Len(t.obs) # Len(t.pts) \/ Len(t.pos) # Len(t.pts) \/ Len(t.var) # Len(t.pts)
       \/ Len(t.strict) # Len(t.pts) \/ t.unit # ObsUnit(t.fn.m)
    THEN "C16.trace: malformed points table"
    ELSE Judge(Len(t.pts), LAMBDA i : PointStatus(t, i), LAMBDA i : PointDrift(t, i))

Check(t) ==
    CASE t.kind = "chain"  -> CheckChain(t)
      [] t.kind = "points" -> CheckPoints(t)
      [] t.kind = "life"   -> CheckLife(t)
      [] t.kind = "registry" -> CheckRegistry(t)
      [] t.kind = "dw"     -> CheckDw(t)
      [] t.kind = "reject" -> CheckReject(t)
      [] t.kind = "helper" -> CheckHelper(t)
      [] OTHER             -> "C16.trace: unknown kind"

Init == tid \in 1..Len(Traces) /\ verdict = Check(Traces[tid])
Next == UNCHANGED <<tid, verdict>>
Spec == Init /\ [][Next]_<<tid, verdict>>
VerdictOk == verdict = "ok"
=============================================================================
