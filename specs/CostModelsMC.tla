---------------------------- MODULE CostModelsMC ----------------------------
(***************************************************************************)
(* Design-level check for C16: every registered built-in cost function,    *)
(* evaluated by its integer transcription (CostFormulas) on a grid of      *)
(* layer descriptions that is WALKED one axis step at a time.              *)
(*                                                                         *)
(*   state  = (fn, p)      fn registered cost function, p layer description*)
(*   Init   = smallest description of every function x every "mode"        *)
(*            (bias, groups, accelerator, theta) that is not an axis       *)
(*   Grow*  = move ONE axis (cin, cout, both for depthwise, kx, ky, ox,    *)
(*            oy, weight bits, activation bits) to the next grid value     *)
(*                                                                         *)
(* so the reachable states are the full product grid and every transition  *)
(* is one monotonicity obligation (action property Monotone).  Channel     *)
(* counts are in quarter channels (S = 4).                                 *)
(***************************************************************************)
EXTENDS CostFormulas, TLC

CONSTANTS Models,                            \* which cost specifications to enumerate
          CinLo, CinHi, CinStep, CinExtra,   \* input-channel grid  (quarter channels)
          CoutLo, CoutHi, CoutStep, CoutExtra,
          KSet, OSet, WSet, ASet

S == 4

VARIABLES fn, p,
          core, num     \* CostCore(fn, p) and CostBigNum(fn, p): computed once per state by the step
vars == <<fn, p, core, num>>

CinSet  == {x \in CinLo..CinHi : (x - CinLo) % CinStep = 0} \cup CinExtra
CoutSet == {x \in CoutLo..CoutHi : (x - CoutLo) % CoutStep = 0} \cup CoutExtra

MinOf(T) == CHOOSE x \in T : \A y \in T : x <= y
\* successor along an axis (the largest element is its own successor)
SuccIn(T) == [x \in T |-> IF \E y \in T : y > x
                          THEN CHOOSE y \in T : y > x /\ \A z \in T : z > x => y <= z
                          ELSE x]
NextCin  == SuccIn(CinSet)
NextCout == SuccIn(CoutSet)
NextK    == SuccIn(KSet)
NextO    == SuccIn(OSet)
NextW    == SuccIn(WSet)
NextA    == SuccIn(ASet)
MinCin   == MinOf(CinSet)
MinCout  == MinOf(CoutSet)
MinK     == MinOf(KSet)
MinO     == MinOf(OSet)
MinW     == MinOf(WSet)
MinA     == MinOf(ASet)

IsConv(f) == f.l # "linear"
Is2d(f)   == f.l = "conv2d"
Ne16(f)   == f.m = "ne16_latency"
Diana(f)  == f.m = "diana_latency"
BitAxisW(f) == f.m \in {"params_bit", "ops_bit", "mpic_latency", "mpic_energy", "ne16_latency"}
BitAxisA(f) == f.m \in {"ops_bit", "mpic_latency", "mpic_energy"}

InitPoints(f) ==
    {[cin  |-> IF g = 0 THEN MinCout ELSE MinCin,
      cout |-> MinCout,
      kx   |-> IF ~IsConv(f) THEN 1 ELSE IF Ne16(f) THEN (IF f.pat = "dw" THEN 3 ELSE 1) ELSE MinK,
      ky   |-> IF ~Is2d(f) THEN 1 ELSE IF Ne16(f) THEN (IF f.pat = "dw" THEN 3 ELSE 1) ELSE MinK,
      ox   |-> IF IsConv(f) /\ UsesOut(f.m) THEN MinO ELSE 1,
      oy   |-> IF Is2d(f) /\ UsesOut(f.m) THEN MinO ELSE 1,
      w    |-> w, a |-> a, b |-> b, g |-> g, td |-> td] :
        w  \in (IF BitAxisW(f) THEN {MinW} ELSE IF Diana(f) THEN {2, 8} ELSE {8}),
        a  \in (IF BitAxisA(f) THEN {MinA} ELSE {8}),
        b  \in (IF UsesBias(f.m) THEN {0, 1} ELSE {0}),
        g  \in (IF f.pat = "dw" THEN {0} ELSE IF Diana(f) /\ Is2d(f) THEN {0, 1} ELSE {1}),
        td \in (IF Ne16(f) THEN {1, 2, 4} ELSE {1})}

NumOf(f, q, c) == IF c = Reject THEN BigZero
                  ELSE BigMulSmall(BigProd(c, CostMult(f, q)), CostNum(f, q))

\* DIANA analog has no depthwise: that (function, mode) pair has no valid description at all
Init == /\ fn \in {f \in Registered : f.m \in Models}
        /\ p \in {q \in InitPoints(fn) : CostCore(fn, q, S) # Reject}
        /\ core = CostCore(fn, p, S)
        /\ num = NumOf(fn, p, core)

Step(q) == /\ p' = q
           /\ core' = CostCore(fn, q, S)
           /\ num' = NumOf(fn, q, core')
           /\ UNCHANGED fn

GrowCin  == /\ p.g = 1 /\ p.cin # NextCin[p.cin]
            /\ Step([p EXCEPT !.cin = NextCin[@]])
GrowCout == /\ p.g = 1 /\ p.cout # NextCout[p.cout]
            /\ Step([p EXCEPT !.cout = NextCout[@]])
\* depthwise: groups = in_channels = out_channels move together
GrowC    == /\ p.g = 0 /\ p.cout # NextCout[p.cout]
            /\ Step([p EXCEPT !.cin = NextCout[@], !.cout = NextCout[@]])
GrowKx   == /\ IsConv(fn) /\ ~Ne16(fn) /\ p.kx # NextK[p.kx]
            /\ Step([p EXCEPT !.kx = NextK[@]])
GrowKy   == /\ Is2d(fn) /\ ~Ne16(fn) /\ p.ky # NextK[p.ky]
            /\ Step([p EXCEPT !.ky = NextK[@]])
\* NE16: 1x1 -> 3x3 (the only supported kernels)
GrowK13  == /\ Ne16(fn) /\ Is2d(fn) /\ fn.pat = "U" /\ p.kx = 1
            /\ Step([p EXCEPT !.kx = 3, !.ky = 3])
GrowOx   == /\ IsConv(fn) /\ UsesOut(fn.m) /\ p.ox # NextO[p.ox]
            /\ Step([p EXCEPT !.ox = NextO[@]])
GrowOy   == /\ Is2d(fn) /\ UsesOut(fn.m) /\ p.oy # NextO[p.oy]
            /\ Step([p EXCEPT !.oy = NextO[@]])
GrowW    == /\ BitAxisW(fn) /\ p.w # NextW[p.w]
            /\ Step([p EXCEPT !.w = NextW[@]])
GrowA    == /\ BitAxisA(fn) /\ p.a # NextA[p.a]
            /\ Step([p EXCEPT !.a = NextA[@]])

Next == GrowCin \/ GrowCout \/ GrowC \/ GrowKx \/ GrowKy \/ GrowK13 \/ GrowOx \/ GrowOy \/ GrowW \/ GrowA

Spec == Init /\ [][Next]_vars

----------------------------------------------------------------------------
Den(f, q) == CostDen(f, q)
\* x1/d1 <= x2/d2
QLeq(x1, d1, x2, d2) == IF d1 = d2 THEN BigLeq(x1, x2) ELSE RatLeq(x1, d1, x2, d2)
QLt(x1, d1, x2, d2)  == IF d1 = d2 THEN BigLt(x1, x2) ELSE RatLt(x1, d1, x2, d2)

NonZeroBits(f, q) == (UsesW(f.m) => q.w > 0) /\ (UsesA(f.m) => q.a > 0)

\* every reachable description is one the function accepts
AllDefined == core # Reject

\* C16: finite (an integer), non-negative
NonNegative ==
    /\ core >= 0 /\ CostMult(fn, p) >= 0 /\ CostNum(fn, p) >= 0 /\ CostDen(fn, p) > 0

\* C16: strictly positive for a non-empty layer at non-zero bit-widths (all grid points are non-empty:
\* at least one whole channel on each side, kernel >= 1, output >= 1)
NonEmpty(q) == q.cin >= S /\ q.cout >= S /\ q.kx >= 1 /\ q.ky >= 1 /\ q.ox >= 1 /\ q.oy >= 1
PositiveNonEmpty ==
    NonEmpty(p) /\ NonZeroBits(fn, p) => ~BigIsZero(num)

\* C16: does not decrease when an axis grows (per registered function)
Monotone == [][QLeq(num, Den(fn, p), num', Den(fn, p'))]_vars

\* C16: depthwise = generic evaluated per group (group = 1 input, 1 output channel), size and ops counts
DwIsGenericPerGroup ==
    fn.pat = "dw" /\ fn.m \in SizeModels \cup OpsModels =>
        LET gfn == [fn EXCEPT !.pat = "U"]
            one == [p EXCEPT !.cin = S, !.cout = S, !.g = 1]
        IN  BigMulSmall(num, S) = BigMulSmall(NumOf(gfn, one, CostCore(gfn, one, S)), p.cout)

\* C16: the rounding helpers are the exact integer floor / ceiling / modulo (integral arguments);
\* for fractional arguments they stay within one of the exact quotient.  Evaluated on the channel
\* values of the walk of one Linear function (whose states cover CinSet x CoutSet: in the sweep
\* configurations every quarter channel from 1 to 130).
HelperNs == {2, 3, 4, 8, 16, 32, 128, 256, 512}
HelperOk(xs, N) ==
    LET d  == S * N
        fd == FloorDivideSTE(xs, N, S)
        md == ModuloSTE(xs, N, S)
        c1 == FloorSTE(xs, N, S)
        c2 == DivAndCeilSTE(xs, N, S)
    IN  /\ xs = d * fd + md /\ 0 <= md /\ md < d                         \* floor and modulo, Euclid
        /\ fd = ExactFloorDiv(xs, N, S) /\ md = ExactMod(xs, N, S)
        /\ IsIntegral(xs, S) => /\ (c1 - 1) * d < xs /\ xs <= c1 * d    \* c1 = ceil(x / N)
                                /\ c2 = c1 /\ c1 = ExactCeilDiv(xs, N, S)
        /\ (c1 - 1) * d < xs /\ xs < (c1 + 1) * d                        \* within one of x / N
        /\ (c2 - 1) * d < xs /\ xs < (c2 + 1) * d
HelperFn == [m |-> IF "gap8_latency" \in Models THEN "gap8_latency" ELSE "params", l |-> "linear", pat |-> "U"]
HelpersExact ==
    fn = HelperFn => \A N \in HelperNs : HelperOk(p.cin, N) /\ HelperOk(p.cout, N)
HelpersMonotone ==
    [][fn = HelperFn =>
         \A N \in HelperNs : /\ FloorSTE(p.cin, N, S) <= FloorSTE(p'.cin, N, S)
                             /\ DivAndCeilSTE(p.cin, N, S) <= DivAndCeilSTE(p'.cin, N, S)
                             /\ FloorDivideSTE(p.cin, N, S) <= FloorDivideSTE(p'.cin, N, S)
                             /\ GateSTE(p.cin, 1, S) <= GateSTE(p'.cin, 1, S)]_vars

\* C16: the restricted models reject exactly what they declare unsupported.  Evaluated in the initial
\* states (the restriction does not depend on the sizes).  NE16 with w = 0 returns 0 before looking at
\* anything else; weight bits are not a declared restriction of NE16: neither is claimed.
RejectGridW == {0, 2, 3, 4, 8, 16}
RejectGridA == {0, 2, 3, 4, 8, 16}
RejectGridK == {1, 3, 5, 7}
RejectsUnsupported ==
    fn.m \in MpicModels \cup {"ne16_latency", "diana_latency"} /\ p \in InitPoints(fn) =>
        \A w \in RejectGridW, a \in RejectGridA, k \in RejectGridK, g \in {0, 1} :
            LET q == [p EXCEPT !.w = w, !.a = a,
                               !.kx = IF IsConv(fn) THEN k ELSE 1, !.ky = IF Is2d(fn) THEN k ELSE 1,
                               !.g = IF fn.pat = "dw" THEN 0 ELSE g,
                               !.cin = IF fn.pat = "dw" \/ g = 0 THEN p.cout ELSE p.cin]
            IN  (Ne16(fn) /\ w \notin {2, 4, 8}) \/
                ((CostCore(fn, q, S) = Reject) <=> ~DeclaredSupported(fn, q))

\* the Big arithmetic agrees with TLC's integers wherever the product fits
BigSound ==
    LET m == CostMult(fn, p)
    IN  (m > 0 /\ core <= 2147483647 \div m) => BigProd(core, m) = BigFromInt(core * m)

\* NE16: the 3x3 / 1x1 decomposition of Ne16PerfModel_generalized covers the kernel exactly
ASSUME Ne16Decomposition ==
    \A kx \in 1..7, ky \in 1..7 : 9 * Ne16N3x3(kx, ky) + Ne16N1x1(kx, ky) = kx * ky

----------------------------------------------------------------------------
\* Sanity / documentation (expected to FAIL): for FRACTIONAL arguments the two ceiling idioms are not the
\* exact ceiling (FloorSTE(2.25, 2) = 1, DivAndCeilSTE(16.5, 16) = 1); C16 claims exactness for integral
\* arguments only, see HelpersExact.
CeilExactEverywhere ==
    fn = HelperFn => \A N \in HelperNs : /\ FloorSTE(p.cin, N, S) = ExactCeilDiv(p.cin, N, S)
                                         /\ DivAndCeilSTE(p.cin, N, S) = ExactCeilDiv(p.cin, N, S)

\* Sanity (expected to FAIL): the grid reaches plateaus of the tile functions, so a strict
\* version of the monotonicity property must be violated.
StrictlyMonotone == [][QLt(num, Den(fn, p), num', Den(fn, p'))]_vars
=============================================================================
