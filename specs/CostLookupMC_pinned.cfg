SPECIFICATION Spec
CONSTANTS
  Impl = "pinned"
  MaxA = 4
  MaxB = 1
INVARIANT ImplMatchesRef
INVARIANT ConflictOnlyIfTwo
INVARIANT NoCrossTalk
INVARIANT OrderIndependent
