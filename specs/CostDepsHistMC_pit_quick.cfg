SPECIFICATION Spec
CONSTANTS
  Method = "pit"
  Impl = "asis"
  MaxLen = 3
INVARIANT KeyOk
INVARIANT Coherent
PROPERTY ObserversNeutral
