SPECIFICATION MSpec
CONSTANTS
  MaxNodes = 3
  Widths = {2}
  Dim = 2
  C0 = 2
  Sp0 = 2
  AllowExcl = TRUE
  AllowCat3 = FALSE
  AllowReuse = FALSE
  Extras = "no"
  AllowFindings = FALSE
  MAllowFindings = TRUE
  Conv1dExport = "pinned"
  ZeroClass = "kept"
  GuardExport = TRUE
INVARIANT MInvToldIsActual
INVARIANT MInvAddAligned
