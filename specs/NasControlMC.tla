---------------------------- MODULE NasControlMC ----------------------------
(***************************************************************************)
(* Design-level state machine for C11.  One abstract model of kind         *)
(*   Kind = "pit" : a PIT model with shared / frozen masks                 *)
(*   Kind = "mps" : an MPS model (all its live quantisers move together)   *)
(*   Kind = "sn"  : a SuperNet model (all its combiners move together)     *)
(* The two halves of the control state are independent in the code (PIT    *)
(* has no sampling options, MPS/SuperNet no mask switches), so each kind   *)
(* is explored to closure on its own and EVERY edge of the dumped graph is *)
(* executed on a real model by harness/checks/c11.py.                      *)
(*                                                                         *)
(* Actions carry their arguments (they appear in the edge labels of the    *)
(* dump): Train(g), SetFlag(f, v), Upd(o, v), Sel(v), FwdBwd.              *)
(***************************************************************************)
EXTENDS NasControl, TLC

CONSTANTS Impl,     \* "fixed" | "pinned"
          Kind,     \* "pit" | "mps" | "sn"
          Temps     \* temperatures x 1000 (contains 1000, the initial one)

VARIABLES rg, flags, opt
vars == <<rg, flags, opt>>

Cls == ClsOf(Kind)

NoFlags == [f \in PitFlags |-> TRUE]
NoOpt   == [temp |-> 1000, hard |-> FALSE, gumbel |-> FALSE, disable |-> FALSE, sampler |-> "sm"]

Opts == [temp : Temps, hard : BOOLEAN, gumbel : BOOLEAN, disable : BOOLEAN, sampler : {"sm", "gs", "none"}]

TypeOK == /\ rg \in [Cls -> BOOLEAN]
          /\ flags \in [PitFlags -> BOOLEAN]
          /\ opt \in Opts

(***************************************************************************)
(* Initial states = what the constructors produce for every combination of *)
(* their boolean arguments.                                                *)
(***************************************************************************)
Init ==
    IF Kind = "pit" THEN
        /\ flags \in [PitFlags -> BOOLEAN]         \* PIT(train_features=, train_rf=, train_dilation=, discrete_cost=)
        /\ rg = [c \in Cls |-> IF Frozen(c) THEN FALSE
                               ELSE IF c \in PitFreeCls THEN flags[FlagOf(c)] ELSE TRUE]
        /\ opt = NoOpt
    ELSE IF Kind = "mps" THEN
        /\ flags = NoFlags
        /\ rg = [c \in Cls |-> TRUE]
        /\ \E h, g, d \in BOOLEAN :                \* MPS(hard_softmax=, gumbel_softmax=, disable_sampling=)
              opt = [temp |-> 1000, hard |-> h, gumbel |-> g, disable |-> d, sampler |-> Sampler(g, d)]
    ELSE
        /\ flags = NoFlags
        /\ rg = [c \in Cls |-> TRUE]               \* SuperNet.__init__ sets train_selection = True
        /\ \E h, g \in BOOLEAN :                   \* SuperNetModule(gumbel_softmax=, hard_softmax=)
              opt = [temp |-> 1000, hard |-> h, gumbel |-> g, disable |-> FALSE, sampler |-> Sampler(g, FALSE)]

Step(a) ==
    /\ rg'    = [c \in Cls |-> NextRg(Impl, c, Group(c), rg[c], a)]
    /\ flags' = NextFlags(flags, a)
    /\ opt'   = NextOpt(Impl, Kind, opt, a)

UpdArg(o, v) == [a |-> "upd",
                 temp    |-> IF o = "temp" THEN v ELSE NoT,
                 hard    |-> IF o = "hard" THEN v ELSE NoB,
                 gumbel  |-> IF o = "gumbel" THEN v ELSE NoB,
                 disable |-> IF o = "disable" THEN v ELSE NoB]

OptNames == IF Kind = "mps" THEN {"temp", "hard", "gumbel", "disable"}
            ELSE IF Kind = "sn" THEN {"temp", "hard"} ELSE {}
OptVals(o) == IF o = "temp" THEN Temps ELSE {0, 1}

Train(g)      == Step([a |-> "train", g |-> g])
SetFlag(f, v) == Kind = "pit" /\ Step([a |-> "flag", f |-> f, v |-> v])
Upd(o, v)     == o \in OptNames /\ v \in OptVals(o) /\ Step(UpdArg(o, v))
Sel(v)        == Kind = "sn" /\ Step([a |-> "sel", v |-> v])
FwdBwd        == Step([a |-> "fwdbwd"])            \* forward + backward of loss + cost: no control state changes

Next == \/ \E g \in TrainGroups : Train(g)
        \/ \E f \in PitFlags, v \in BOOLEAN : SetFlag(f, v)
        \/ \E o \in {"temp", "hard", "gumbel", "disable"} : \E v \in OptVals(o) : Upd(o, v)
        \/ \E v \in BOOLEAN : Sel(v)
        \/ FwdBwd

Spec == Init /\ [][Next]_vars

(***************************************************************************)
(* State invariants                                                        *)
(***************************************************************************)
\* masks frozen by construction never become trainable ...
FrozenNeverTrainable == \A c \in Cls : Frozen(c) => ~rg[c]
\* ... and never receive a gradient from the loss or the cost (in any state, i.e. whenever FwdBwd is run)
FrozenNeverGrad == \A c \in Cls : Frozen(c) => ~GradExpected(c, rg[c], opt.sampler, opt.hard)
\* the sampler that runs is the one the options (as the user set them) select
SamplerConsistent == opt.sampler = Sampler(opt.gumbel, opt.disable)

(***************************************************************************)
(* Reporting structure of the abstract model: nas/net lists partition the  *)
(* parameter objects, a shared object is reported once.                    *)
(***************************************************************************)
NasLists ==
    IF Kind = "pit" THEN << <<"aS", "b0", "g0">>, <<"aS", "b1", "g1">>, <<"a2", "bF", "gF">>, <<"aF">> >>
    ELSE IF Kind = "mps" THEN << <<"qo0", "clip0", "qwS", "qin">>, <<"qo0", "clip0", "qwS", "qin">>,
                                 <<"qo2", "clip2", "qw2", "qo0", "clip0">>, <<"qdummy", "qw3", "qo2", "clip2">> >>
    ELSE << <<"sn1">>, <<"sn2">> >>
AllParams ==
    IF Kind = "pit" THEN <<"w0", "aS", "b0", "g0", "w1", "bn1", "b1", "g1", "w2", "a2", "bF", "gF", "w3", "aF">>
    ELSE IF Kind = "mps" THEN <<"w0", "qo0", "clip0", "qwS", "qin", "w1", "w2", "qo2", "clip2", "qw2", "w3", "qdummy", "qw3">>
    ELSE <<"w0", "sn1", "w1", "sn2", "w2">>
NasReport == Report(NasLists)
NetReport == SelectSeq(AllParams, LAMBDA x : x \notin Range(NasReport))
Partition == IsPartition(AllParams, NasReport, NetReport)
\* non-vacuity of Partition: without the "already yielded" filter the shared objects are reported twice
RECURSIVE Concat(_, _)
Concat(lists, i) == IF i > Len(lists) THEN <<>> ELSE lists[i] \o Concat(lists, i + 1)
NoDedupIsNotPartition == Kind \in {"pit", "mps"} => ~NoDup(Concat(NasLists, 1))

(***************************************************************************)
(* Action properties (post-conditions and frame conditions of the calls)   *)
(***************************************************************************)
\* train_* make exactly the named group trainable (frozen masks excepted: they stay as they are)
TrainExact ==
    [][\A g \in TrainGroups : Train(g) =>
          /\ \A c \in Cls : ~Frozen(c) => rg'[c] = Want(g, Group(c))
          /\ flags' = flags /\ opt' = opt]_vars

\* a PIT switch drives exactly the masks it names and nothing else
SetterExact ==
    [][\A f \in PitFlags, v \in BOOLEAN : SetFlag(f, v) =>
          /\ flags'[f] = v
          /\ \A h \in PitFlags \ {f} : flags'[h] = flags[h]
          /\ \A c \in Cls : rg'[c] = IF f # "dc" /\ FlagOf(c) = f /\ ~Frozen(c) THEN v ELSE rg[c]
          /\ opt' = opt]_vars

\* changing one sampling option leaves the unspecified ones as they were
OthersKept ==
    [][\A o \in OptNames : \A v \in OptVals(o) : Upd(o, v) =>
          /\ SpecifiedSet(Kind, opt, opt', UpdArg(o, v))
          /\ UnspecifiedKept(Kind, opt, opt', UpdArg(o, v))
          /\ (o # "gumbel" => opt'.gumbel = opt.gumbel)
          /\ (o # "disable" => opt'.disable = opt.disable)
          /\ rg' = rg /\ flags' = flags]_vars

ObserverNeutral == [][FwdBwd => UNCHANGED vars]_vars
=============================================================================
