---------------------------- MODULE NasControlMC ----------------------------
(***************************************************************************)
(* Design-level state machine for C11.  One abstract model of kind         *)
(*   Kind = "pit" : a PIT model with shared / frozen masks                 *)
(*   Kind = "mps" : an MPS model                                           *)
(*   Kind = "sn"  : a SuperNet model                                       *)
(* in one of two granularities:                                            *)
(*   Hetero = FALSE : one representative object per parameter class, one   *)
(*                    option block (all layers move together; only         *)
(*                    model-level calls)                                   *)
(*   Hetero = TRUE  : PER-LAYER state: several layers with their own mask  *)
(*                    objects and discrete_cost switch, two option blocks  *)
(*                    (quantisers / combiners) whose options may differ    *)
(*                    (different constructor options per SuperNetModule,   *)
(*                    per-layer / per-quantiser calls between model-level  *)
(*                    calls).  Model-level calls must be POINTWISE.        *)
(* Part restricts the alphabet to the trainability half ("ctl"), the       *)
(* sampling-option half ("opt") or both ("all"); the two halves are        *)
(* independent in the code.  Dims restricts the PIT switches of a          *)
(* heterogeneous configuration (objects and calls of the other switches    *)
(* are left out), HOpts the option names of a heterogeneous configuration. *)
(* Forking = TRUE adds the action Fork: the model is COPIED (copy.deepcopy *)
(* / pickle round trip) at any point of the history; afterwards every call *)
(* is addressed to the original (object 1) or to the copy (object 2) and   *)
(* the two must behave as two independent instances of the machine started *)
(* from the state at the fork; every invariant and action property is      *)
(* evaluated on both objects.                                              *)
(* Every configuration is explored to closure and EVERY edge of the dumped *)
(* graph is executed on a real model by harness/checks/c11.py.             *)
(*                                                                         *)
(* Actions carry their arguments (they appear in the edge labels of the    *)
(* dump); the first argument is the object addressed: Train(i, g),         *)
(* SetFlag(i, f, v), LFlag(i, l, f, v), Upd(i, o, v), LUpd(i, b, o, v),    *)
(* Sel(i, v), LSel(i, b, v), FwdBwd(i), Fork.                              *)
(***************************************************************************)
EXTENDS NasControl, TLC

CONSTANTS Impl,     \* "fixed" | "pinned" | "bcast1" | "idcache"
          Kind,     \* "pit" | "mps" | "sn"
          Temps,    \* temperatures x 1000 (contains 1000, the initial one)
          Hetero,   \* BOOLEAN
          Part,     \* "all" | "ctl" | "opt"
          Dims,     \* subset of PitFlags: the PIT switches of this configuration
          HOpts,    \* subset of {"temp","hard","gumbel","disable"}: the option names of this configuration
          Forking   \* BOOLEAN: Fork enabled

\* objs = sequence of object states [rg, flags, opt, cache]: <<original>> before Fork, <<original, copy>> after.
\* cache (moves under Impl = "idcache" only, else 0): 0 = no train_* (hence no net_parameters()) ran on this object
\* or on the object it was copied from, else the object (1 / 2) on which the first one ran, i.e. whose parameter
\* identities the identity-keyed cache holds.
VARIABLES objs
vars == <<objs>>
Restricted == Hetero \/ Forking

(***************************************************************************)
(* Objects: [n = name, c = class, l = owning layers, q = owning block]     *)
(***************************************************************************)
Obj(n, c, l, q) == [n |-> n, c |-> c, l |-> l, q |-> q]
HomObjs == {Obj(c, c, {}, 0) : c \in ClsOf(Kind)}
\* heterogeneous PIT: layer A (own masks), layer B (feature mask shared with a sibling, own time masks),
\* layer F1 (strided Conv1d: frozen time masks), layer F2 (output head: frozen feature mask)
PitHetObjs ==
    {Obj("w", "w", {}, 0)} \cup
    {o \in {Obj("alpha_A", "alpha", {"A"}, 0), Obj("alphaS_B", "alphaS", {"B"}, 0), Obj("alphaF_F2", "alphaF", {"F2"}, 0),
            Obj("beta_A", "beta", {"A"}, 0), Obj("beta_B", "beta", {"B"}, 0), Obj("betaF_F1", "betaF", {"F1"}, 0),
            Obj("gamma_A", "gamma", {"A"}, 0), Obj("gamma_B", "gamma", {"B"}, 0), Obj("gammaF_F1", "gammaF", {"F1"}, 0),
            Obj("dc_A", "dc", {"A"}, 0), Obj("dc_B", "dc", {"B"}, 0)} : DimOf(o.c) \in Dims}
SnHetObjs == {Obj("w", "w", {}, 0), Obj("snalpha_1", "snalpha", {}, 1), Obj("snalpha_2", "snalpha", {}, 2)}
Objs == IF ~Hetero THEN HomObjs
        ELSE IF Kind = "pit" THEN PitHetObjs
        ELSE IF Kind = "sn" THEN SnHetObjs
        ELSE HomObjs
Names == {o.n : o \in Objs}
O(n)  == CHOOSE o \in Objs : o.n = n
Layers == UNION {o.l : o \in Objs}

NB == IF Hetero /\ Kind # "pit" THEN 2 ELSE 1
Blocks == 1..NB
\* blocks that can be addressed individually: one deviating quantiser of an MPS model, both SuperNet combiners
LBlocks == IF ~Hetero THEN {} ELSE IF Kind = "mps" THEN {1} ELSE IF Kind = "sn" THEN {1, 2} ELSE {}

NoFlags == [f \in PitFlags |-> TRUE]
OptRec(t, h, g, d) == [temp |-> t, hard |-> h, gumbel |-> g, disable |-> d, sampler |-> Sampler(g, d)]
Opts == [temp : Temps, hard : BOOLEAN, gumbel : BOOLEAN, disable : BOOLEAN, sampler : {"sm", "gs", "none"}]

TypeOK == /\ Len(objs) \in {1, 2}
          /\ \A i \in DOMAIN objs :
                /\ objs[i].rg \in [Names -> BOOLEAN]
                /\ objs[i].flags \in [PitFlags -> BOOLEAN]
                /\ objs[i].opt \in [Blocks -> Opts]
                /\ objs[i].cache \in {0, 1, 2}

Ctl  == Part \in {"all", "ctl"}
Optn == Part \in {"all", "opt"}
OptNames == (IF Kind = "mps" THEN {"temp", "hard", "gumbel", "disable"}
             ELSE IF Kind = "sn" THEN {"temp", "hard"} ELSE {})
            \cap HOpts
OptVals(o) == IF o = "temp" THEN Temps ELSE {0, 1}

(***************************************************************************)
(* Initial states = what the constructors produce for every combination of *)
(* their boolean arguments (per SuperNetModule for a heterogeneous         *)
(* SuperNet).                                                              *)
(***************************************************************************)
InitRg(f0) == [n \in Names |-> LET c == O(n).c IN
                 IF Frozen(c) THEN FALSE
                 ELSE IF c = "dc" THEN f0["dc"]
                 ELSE IF c \in PitFreeCls THEN f0[FlagOf(c)] ELSE TRUE]
ObjState(r, f, o) == [rg |-> r, flags |-> f, opt |-> o, cache |-> 0]
\* constructor booleans that vary in this configuration
HB(o) == IF Restricted /\ o \notin HOpts THEN {FALSE} ELSE BOOLEAN
AllTrue == [n \in Names |-> TRUE]
InitSet ==
    IF Kind = "pit" THEN        \* PIT(train_features=, train_rf=, train_dilation=, discrete_cost=)
        {ObjState(InitRg(f0), IF Hetero THEN NoFlags ELSE f0,     \* getter memory: class-level machine only
                  [k \in Blocks |-> OptRec(1000, FALSE, FALSE, FALSE)]) :
            f0 \in {f \in [PitFlags -> BOOLEAN] : Restricted => \A x \in PitFlags \ Dims : f[x]}}
    ELSE IF Kind = "mps" THEN   \* MPS(hard_softmax=, gumbel_softmax=, disable_sampling=): one value per model
        {ObjState(AllTrue, NoFlags, [k \in Blocks |-> OptRec(1000, h, g, d)]) :
            h \in HB("hard"), g \in HB("gumbel"), d \in HB("disable")}
    ELSE                        \* SuperNetModule(gumbel_softmax=, hard_softmax=) PER BLOCK; train_selection = True
        {ObjState(AllTrue, NoFlags, [k \in Blocks |-> OptRec(1000, hs[k], gs[k], FALSE)]) :
            hs \in [Blocks -> IF Hetero /\ Part = "ctl" THEN {FALSE} ELSE HB("hard")],
            gs \in [Blocks -> IF Hetero /\ Part = "ctl" THEN {FALSE} ELSE BOOLEAN]}
Init == \E s \in InitSet : objs = <<s>>

\* object state s of object i after call a
StepObj(s, i, a) ==
    LET stale == Impl = "idcache" /\ a.a = "train" /\ s.cache \notin {0, i}
    IN  [rg    |-> [n \in Names |-> IF stale THEN StaleTrainRg(O(n).c, s.rg[n], a)
                                    ELSE NextRg(Impl, O(n).c, Group(O(n).c), O(n).l, O(n).q, s.rg[n], a)],
         flags |-> IF Hetero THEN s.flags ELSE NextFlags(s.flags, a),
         opt   |-> [k \in Blocks |-> NextOptOf(Impl, Kind, s.opt, k, a)],
         cache |-> IF Impl = "idcache" /\ a.a = "train" /\ s.cache = 0 THEN i ELSE s.cache]
\* a call addressed to object i: the other object is not touched
Step(i, a) == i \in DOMAIN objs /\ objs' = [objs EXCEPT ![i] = StepObj(objs[i], i, a)]
\* copy.deepcopy(model) / pickle round trip: the copy starts from the state of the original
Fork == Forking /\ Len(objs) = 1 /\ objs' = <<objs[1], objs[1]>>

UpdArg(o, v) == [a |-> "upd",
                 temp    |-> IF o = "temp" THEN v ELSE NoT,
                 hard    |-> IF o = "hard" THEN v ELSE NoB,
                 gumbel  |-> IF o = "gumbel" THEN v ELSE NoB,
                 disable |-> IF o = "disable" THEN v ELSE NoB]
LUpdArg(b, o, v) == [a |-> "lupd", b |-> b,
                     temp    |-> IF o = "temp" THEN v ELSE NoT,
                     hard    |-> IF o = "hard" THEN v ELSE NoB,
                     gumbel  |-> IF o = "gumbel" THEN v ELSE NoB,
                     disable |-> IF o = "disable" THEN v ELSE NoB]

Train(i, g)       == Ctl /\ Step(i, [a |-> "train", g |-> g])
SetFlag(i, f, v)  == Kind = "pit" /\ Ctl /\ f \in Dims /\ Step(i, [a |-> "flag", f |-> f, v |-> v])
LFlag(i, l, f, v) == /\ Kind = "pit" /\ Hetero /\ Ctl /\ f \in Dims
                     /\ \E o \in Objs : l \in o.l /\ DimOf(o.c) = f
                     /\ Step(i, [a |-> "lflag", l |-> l, f |-> f, v |-> v])
Upd(i, o, v)      == Optn /\ o \in OptNames /\ v \in OptVals(o) /\ Step(i, UpdArg(o, v))
LUpd(i, b, o, v)  == /\ Optn /\ b \in LBlocks /\ o \in OptNames /\ v \in OptVals(o)
                     /\ Step(i, LUpdArg(b, o, v))
Sel(i, v)         == Kind = "sn" /\ Ctl /\ Step(i, [a |-> "sel", v |-> v])
LSel(i, b, v)     == Kind = "sn" /\ Hetero /\ Ctl /\ b \in LBlocks /\ Step(i, [a |-> "lsel", b |-> b, v |-> v])
\* forward + backward of loss + cost: no control state changes (left out of the pure option machines)
FwdBwd(i)         == ~(Hetero /\ Part = "opt") /\ Step(i, [a |-> "fwdbwd"])

AllOpt == {"temp", "hard", "gumbel", "disable"}
Ids == {1, 2}
Next == \/ \E i \in Ids, g \in TrainGroups : Train(i, g)
        \/ \E i \in Ids, f \in PitFlags, v \in BOOLEAN : SetFlag(i, f, v)
        \/ \E i \in Ids, l \in Layers, f \in PitFlags, v \in BOOLEAN : LFlag(i, l, f, v)
        \/ \E i \in Ids, o \in AllOpt : \E v \in OptVals(o) : Upd(i, o, v)
        \/ \E i \in Ids, b \in Blocks, o \in AllOpt : \E v \in OptVals(o) : LUpd(i, b, o, v)
        \/ \E i \in Ids, v \in BOOLEAN : Sel(i, v)
        \/ \E i \in Ids, b \in Blocks, v \in BOOLEAN : LSel(i, b, v)
        \/ \E i \in Ids : FwdBwd(i)
        \/ Fork

Spec == Init /\ [][Next]_vars

(***************************************************************************)
(* State invariants                                                        *)
(***************************************************************************)
BlockOf(n) == IF O(n).q # 0 THEN O(n).q ELSE 1
Live == DOMAIN objs
\* masks frozen by construction never become trainable (in the original and in the copy) ...
FrozenNeverTrainable == \A i \in Live : \A n \in Names : Frozen(O(n).c) => ~objs[i].rg[n]
\* ... and never receive a gradient from the loss or the cost (in any state, i.e. whenever FwdBwd is run)
FrozenNeverGrad == \A i \in Live : \A n \in Names : Frozen(O(n).c) =>
                      ~GradExpected(O(n).c, objs[i].rg[n], objs[i].opt[BlockOf(n)].sampler, objs[i].opt[BlockOf(n)].hard)
\* the sampler that runs is the one the options (as the user set them) select, in every block
SamplerConsistent == \A i \in Live : \A k \in Blocks :
                        objs[i].opt[k].sampler = Sampler(objs[i].opt[k].gumbel, objs[i].opt[k].disable)

(***************************************************************************)
(* Reporting structure of the abstract model: nas/net lists partition the  *)
(* parameter objects, a shared object is reported once.                    *)
(***************************************************************************)
NasLists ==
    IF Kind = "pit" THEN << <<"aS", "b0", "g0">>, <<"aS", "b1", "g1">>, <<"a2", "bF", "gF">>, <<"aF">> >>
    ELSE IF Kind = "mps" THEN << <<"qo0", "clip0", "qwS", "qin">>, <<"qo0", "clip0", "qwS", "qin">>,
                                 <<"qo2", "clip2", "qw2", "qo0", "clip0">>, <<"qdummy", "qw3", "qo2", "clip2">> >>
    ELSE << <<"sn1">>, <<"sn2">> >>
AllParams ==
    IF Kind = "pit" THEN <<"w0", "aS", "b0", "g0", "w1", "bn1", "b1", "g1", "w2", "a2", "bF", "gF", "w3", "aF">>
    ELSE IF Kind = "mps" THEN <<"w0", "qo0", "clip0", "qwS", "qin", "w1", "w2", "qo2", "clip2", "qw2", "w3", "qdummy", "qw3">>
    ELSE <<"w0", "sn1", "w1", "sn2", "w2">>
NasReport == Report(NasLists)
\* named_net_parameters(): everything that is not among the NAS parameters, recomputed at every call
NamedNetReport == SelectSeq(AllParams, LAMBDA x : x \notin Range(NasReport))
\* net_parameters() of object i (Impl = "idcache": filtered by the identities cached by object s.cache;
\* on another object none of its parameters has one of those identities)
NetReportOf(s, i) == IF Impl = "idcache" /\ s.cache \notin {0, i} THEN AllParams ELSE NamedNetReport
Partition == \A i \in Live : IsPartition(AllParams, NasReport, NetReportOf(objs[i], i))
\* the unnamed iterators report what the named ones report
IteratorsAgree == \A i \in Live : NetReportOf(objs[i], i) = NamedNetReport
\* non-vacuity of Partition: without the "already yielded" filter the shared objects are reported twice
RECURSIVE Concat(_, _)
Concat(lists, i) == IF i > Len(lists) THEN <<>> ELSE lists[i] \o Concat(lists, i + 1)
NoDedupIsNotPartition == Kind \in {"pit", "mps"} => ~NoDup(Concat(NasLists, 1))

(***************************************************************************)
(* Action properties (post-conditions and frame conditions of the calls)   *)
(***************************************************************************)
OthersSame(i) == \A j \in DOMAIN objs \ {i} : objs'[j] = objs[j]      \* the two objects are independent
Pre(i)  == objs[i]
Post(i) == objs'[i]

\* train_* make exactly the named group trainable (frozen masks excepted: they stay as they are);
\* no discrete_cost switch, flag or option moves; the other object is not touched
TrainExact ==
    [][\A i \in Ids, g \in TrainGroups : Train(i, g) =>
          /\ \A n \in Names : (~Frozen(O(n).c) /\ O(n).c # "dc") => Post(i).rg[n] = Want(g, Group(O(n).c))
          /\ \A n \in Names : O(n).c = "dc" => Post(i).rg[n] = Pre(i).rg[n]
          /\ Post(i).flags = Pre(i).flags /\ Post(i).opt = Pre(i).opt
          /\ OthersSame(i)]_vars

\* a model-level PIT switch drives exactly the objects it names, in EVERY layer, and nothing else
SetterExact ==
    [][\A i \in Ids, f \in PitFlags, v \in BOOLEAN : SetFlag(i, f, v) =>
          /\ (~Hetero => Post(i).flags[f] = v /\ \A h \in PitFlags \ {f} : Post(i).flags[h] = Pre(i).flags[h])
          /\ \A n \in Names : Post(i).rg[n] = IF DimOf(O(n).c) = f /\ ~Frozen(O(n).c) THEN v ELSE Pre(i).rg[n]
          /\ Post(i).opt = Pre(i).opt
          /\ OthersSame(i)]_vars

\* a per-layer PIT switch drives the objects of that layer only
LayerSetterExact ==
    [][\A i \in Ids, l \in Layers, f \in PitFlags, v \in BOOLEAN : LFlag(i, l, f, v) =>
          /\ \A n \in Names : Post(i).rg[n] = IF DimOf(O(n).c) = f /\ ~Frozen(O(n).c) /\ l \in O(n).l THEN v
                                               ELSE Pre(i).rg[n]
          /\ Post(i).flags = Pre(i).flags /\ Post(i).opt = Pre(i).opt
          /\ OthersSame(i)]_vars

\* SuperNet selection switches: model-level = every block, per-block = that block
SelExact ==
    [][/\ \A i \in Ids, v \in BOOLEAN : Sel(i, v) =>
             /\ \A n \in Names : Post(i).rg[n] = IF O(n).c = "snalpha" THEN v ELSE Pre(i).rg[n]
             /\ OthersSame(i)
       /\ \A i \in Ids, b \in Blocks, v \in BOOLEAN : LSel(i, b, v) =>
             /\ \A n \in Names : Post(i).rg[n] = IF O(n).c = "snalpha" /\ O(n).q = b THEN v ELSE Pre(i).rg[n]
             /\ OthersSame(i)]_vars

\* changing one sampling option: EVERY block gets the named option, and every OTHER option of EVERY
\* block stays as it was in that block
OthersKept ==
    [][\A i \in Ids, o \in AllOpt : \A v \in OptVals(o) : Upd(i, o, v) =>
          /\ \A k \in Blocks :
                /\ SpecifiedSet(Kind, Pre(i).opt[k], Post(i).opt[k], UpdArg(o, v))
                /\ UnspecifiedKept(Kind, Pre(i).opt[k], Post(i).opt[k], UpdArg(o, v))
                /\ (o # "gumbel" => Post(i).opt[k].gumbel = Pre(i).opt[k].gumbel)
                /\ (o # "disable" => Post(i).opt[k].disable = Pre(i).opt[k].disable)
          /\ Post(i).rg = Pre(i).rg /\ Post(i).flags = Pre(i).flags
          /\ OthersSame(i)]_vars

\* an update addressed to one block leaves the other blocks alone
LocalUpdate ==
    [][\A i \in Ids, b \in Blocks, o \in AllOpt : \A v \in OptVals(o) : LUpd(i, b, o, v) =>
          /\ SpecifiedSet(Kind, Pre(i).opt[b], Post(i).opt[b], UpdArg(o, v))
          /\ UnspecifiedKept(Kind, Pre(i).opt[b], Post(i).opt[b], UpdArg(o, v))
          /\ \A k \in Blocks \ {b} : Post(i).opt[k] = Pre(i).opt[k]
          /\ Post(i).rg = Pre(i).rg /\ Post(i).flags = Pre(i).flags
          /\ OthersSame(i)]_vars

ObserverNeutral == [][(\E i \in Ids : FwdBwd(i)) => UNCHANGED <<objs>>]_vars

\* the copy starts from the control state of the original, the original is not touched
ForkExact == [][Fork => /\ Len(objs') = 2
                        /\ objs'[1].rg = objs[1].rg /\ objs'[1].flags = objs[1].flags /\ objs'[1].opt = objs[1].opt
                        /\ objs'[2].rg = objs[1].rg /\ objs'[2].flags = objs[1].flags /\ objs'[2].opt = objs[1].opt]_vars

\* non-vacuity of the heterogeneous configurations: some reachable state has blocks / layers that differ
\* (checked through the expected-to-fail config NasControlMC_*_homog.cfg)
AlwaysHomogeneous ==
    \A i \in Live :
       /\ \A j, k \in Blocks : /\ objs[i].opt[j].temp = objs[i].opt[k].temp /\ objs[i].opt[j].hard = objs[i].opt[k].hard
                               /\ objs[i].opt[j].disable = objs[i].opt[k].disable
       /\ \A m, n \in Names : (O(m).c = O(n).c) => objs[i].rg[m] = objs[i].rg[n]
\* non-vacuity of the forking configurations: original and copy do diverge
NeverDiverge == Len(objs) = 2 => objs[1].rg = objs[2].rg /\ objs[1].opt = objs[2].opt
=============================================================================
