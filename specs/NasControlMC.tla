---------------------------- MODULE NasControlMC ----------------------------
(***************************************************************************)
(* Design-level state machine for C11.  One abstract model of kind         *)
(*   Kind = "pit" : a PIT model with shared / frozen masks                 *)
(*   Kind = "mps" : an MPS model                                           *)
(*   Kind = "sn"  : a SuperNet model                                       *)
(* in one of two granularities:                                            *)
(*   Hetero = FALSE : one representative object per parameter class, one   *)
(*                    option block (all layers move together; only         *)
(*                    model-level calls)                                   *)
(*   Hetero = TRUE  : PER-LAYER state: several layers with their own mask  *)
(*                    objects and discrete_cost switch, two option blocks  *)
(*                    (quantisers / combiners) whose options may differ    *)
(*                    (different constructor options per SuperNetModule,   *)
(*                    per-layer / per-quantiser calls between model-level  *)
(*                    calls).  Model-level calls must be POINTWISE.        *)
(* Part restricts the alphabet to the trainability half ("ctl"), the       *)
(* sampling-option half ("opt") or both ("all"); the two halves are        *)
(* independent in the code.  Dims restricts the PIT switches of a          *)
(* heterogeneous configuration (objects and calls of the other switches    *)
(* are left out), HOpts the option names of a heterogeneous configuration. *)
(* Every configuration is explored to closure and EVERY edge of the dumped *)
(* graph is executed on a real model by harness/checks/c11.py.             *)
(*                                                                         *)
(* Actions carry their arguments (they appear in the edge labels of the    *)
(* dump): Train(g), SetFlag(f, v), LFlag(l, f, v), Upd(o, v),              *)
(* LUpd(b, o, v), Sel(v), LSel(b, v), FwdBwd.                              *)
(***************************************************************************)
EXTENDS NasControl, TLC

CONSTANTS Impl,     \* "fixed" | "pinned" | "bcast1"
          Kind,     \* "pit" | "mps" | "sn"
          Temps,    \* temperatures x 1000 (contains 1000, the initial one)
          Hetero,   \* BOOLEAN
          Part,     \* "all" | "ctl" | "opt"
          Dims,     \* subset of PitFlags (heterogeneous PIT)
          HOpts     \* subset of {"temp","hard","gumbel","disable"} (heterogeneous MPS / SuperNet)

VARIABLES rg, flags, opt
vars == <<rg, flags, opt>>

(***************************************************************************)
(* Objects: [n = name, c = class, l = owning layers, q = owning block]     *)
(***************************************************************************)
Obj(n, c, l, q) == [n |-> n, c |-> c, l |-> l, q |-> q]
HomObjs == {Obj(c, c, {}, 0) : c \in ClsOf(Kind)}
\* heterogeneous PIT: layer A (own masks), layer B (feature mask shared with a sibling, own time masks),
\* layer F1 (strided Conv1d: frozen time masks), layer F2 (output head: frozen feature mask)
PitHetObjs ==
    {Obj("w", "w", {}, 0)} \cup
    {o \in {Obj("alpha_A", "alpha", {"A"}, 0), Obj("alphaS_B", "alphaS", {"B"}, 0), Obj("alphaF_F2", "alphaF", {"F2"}, 0),
            Obj("beta_A", "beta", {"A"}, 0), Obj("beta_B", "beta", {"B"}, 0), Obj("betaF_F1", "betaF", {"F1"}, 0),
            Obj("gamma_A", "gamma", {"A"}, 0), Obj("gamma_B", "gamma", {"B"}, 0), Obj("gammaF_F1", "gammaF", {"F1"}, 0),
            Obj("dc_A", "dc", {"A"}, 0), Obj("dc_B", "dc", {"B"}, 0)} : DimOf(o.c) \in Dims}
SnHetObjs == {Obj("w", "w", {}, 0), Obj("snalpha_1", "snalpha", {}, 1), Obj("snalpha_2", "snalpha", {}, 2)}
Objs == IF ~Hetero THEN HomObjs
        ELSE IF Kind = "pit" THEN PitHetObjs
        ELSE IF Kind = "sn" THEN SnHetObjs
        ELSE HomObjs
Names == {o.n : o \in Objs}
O(n)  == CHOOSE o \in Objs : o.n = n
Layers == UNION {o.l : o \in Objs}

NB == IF Hetero /\ Kind # "pit" THEN 2 ELSE 1
Blocks == 1..NB
\* blocks that can be addressed individually: one deviating quantiser of an MPS model, both SuperNet combiners
LBlocks == IF ~Hetero THEN {} ELSE IF Kind = "mps" THEN {1} ELSE IF Kind = "sn" THEN {1, 2} ELSE {}

NoFlags == [f \in PitFlags |-> TRUE]
OptRec(t, h, g, d) == [temp |-> t, hard |-> h, gumbel |-> g, disable |-> d, sampler |-> Sampler(g, d)]
Opts == [temp : Temps, hard : BOOLEAN, gumbel : BOOLEAN, disable : BOOLEAN, sampler : {"sm", "gs", "none"}]

TypeOK == /\ rg \in [Names -> BOOLEAN]
          /\ flags \in [PitFlags -> BOOLEAN]
          /\ opt \in [Blocks -> Opts]

Ctl  == Part \in {"all", "ctl"}
Optn == Part \in {"all", "opt"}
OptNames == (IF Kind = "mps" THEN {"temp", "hard", "gumbel", "disable"}
             ELSE IF Kind = "sn" THEN {"temp", "hard"} ELSE {})
            \cap (IF Hetero THEN HOpts ELSE {"temp", "hard", "gumbel", "disable"})
OptVals(o) == IF o = "temp" THEN Temps ELSE {0, 1}

(***************************************************************************)
(* Initial states = what the constructors produce for every combination of *)
(* their boolean arguments (per SuperNetModule for a heterogeneous         *)
(* SuperNet).                                                              *)
(***************************************************************************)
InitRg(f0) == [n \in Names |-> LET c == O(n).c IN
                 IF Frozen(c) THEN FALSE
                 ELSE IF c = "dc" THEN f0["dc"]
                 ELSE IF c \in PitFreeCls THEN f0[FlagOf(c)] ELSE TRUE]
Init ==
    IF Kind = "pit" THEN
        /\ \E f0 \in [PitFlags -> BOOLEAN] :        \* PIT(train_features=, train_rf=, train_dilation=, discrete_cost=)
              /\ (Hetero => \A f \in PitFlags \ Dims : f0[f])
              /\ flags = (IF Hetero THEN NoFlags ELSE f0)   \* getter memory is tracked in the class-level machine only
              /\ rg = InitRg(f0)
        /\ opt = [k \in Blocks |-> OptRec(1000, FALSE, FALSE, FALSE)]
    ELSE IF Kind = "mps" THEN
        /\ flags = NoFlags
        /\ rg = [n \in Names |-> TRUE]
        /\ \E h \in BOOLEAN :                       \* MPS(hard_softmax=, gumbel_softmax=, disable_sampling=): one value per model
           \E g \in (IF Hetero /\ "gumbel" \notin HOpts THEN {FALSE} ELSE BOOLEAN) :
           \E d \in (IF Hetero /\ "disable" \notin HOpts THEN {FALSE} ELSE BOOLEAN) :
              opt = [k \in Blocks |-> OptRec(1000, h, g, d)]
    ELSE
        /\ flags = NoFlags
        /\ rg = [n \in Names |-> TRUE]             \* SuperNet.__init__ sets train_selection = True
        /\ \E hs, gs \in [Blocks -> BOOLEAN] :      \* SuperNetModule(gumbel_softmax=, hard_softmax=) PER BLOCK
              /\ (Hetero /\ Part = "ctl" => \A k \in Blocks : ~hs[k] /\ ~gs[k])   \* options play no role there
              /\ opt = [k \in Blocks |-> OptRec(1000, hs[k], gs[k], FALSE)]

Step(a) ==
    /\ rg'    = [n \in Names |-> NextRg(Impl, O(n).c, Group(O(n).c), O(n).l, O(n).q, rg[n], a)]
    /\ flags' = IF Hetero THEN flags ELSE NextFlags(flags, a)
    /\ opt'   = [k \in Blocks |-> NextOptOf(Impl, Kind, opt, k, a)]

UpdArg(o, v) == [a |-> "upd",
                 temp    |-> IF o = "temp" THEN v ELSE NoT,
                 hard    |-> IF o = "hard" THEN v ELSE NoB,
                 gumbel  |-> IF o = "gumbel" THEN v ELSE NoB,
                 disable |-> IF o = "disable" THEN v ELSE NoB]
LUpdArg(b, o, v) == [a |-> "lupd", b |-> b,
                     temp    |-> IF o = "temp" THEN v ELSE NoT,
                     hard    |-> IF o = "hard" THEN v ELSE NoB,
                     gumbel  |-> IF o = "gumbel" THEN v ELSE NoB,
                     disable |-> IF o = "disable" THEN v ELSE NoB]

Train(g)       == Ctl /\ Step([a |-> "train", g |-> g])
SetFlag(f, v)  == Kind = "pit" /\ Ctl /\ (Hetero => f \in Dims) /\ Step([a |-> "flag", f |-> f, v |-> v])
LFlag(l, f, v) == /\ Kind = "pit" /\ Hetero /\ Ctl /\ f \in Dims
                  /\ \E o \in Objs : l \in o.l /\ DimOf(o.c) = f
                  /\ Step([a |-> "lflag", l |-> l, f |-> f, v |-> v])
Upd(o, v)      == Optn /\ o \in OptNames /\ v \in OptVals(o) /\ Step(UpdArg(o, v))
LUpd(b, o, v)  == /\ Optn /\ b \in LBlocks /\ o \in OptNames /\ v \in OptVals(o)
                  /\ Step(LUpdArg(b, o, v))
Sel(v)         == Kind = "sn" /\ Ctl /\ Step([a |-> "sel", v |-> v])
LSel(b, v)     == Kind = "sn" /\ Hetero /\ Ctl /\ b \in LBlocks /\ Step([a |-> "lsel", b |-> b, v |-> v])
\* forward + backward of loss + cost: no control state changes (left out of the pure option machines)
FwdBwd         == ~(Hetero /\ Part = "opt") /\ Step([a |-> "fwdbwd"])

AllOpt == {"temp", "hard", "gumbel", "disable"}
Next == \/ \E g \in TrainGroups : Train(g)
        \/ \E f \in PitFlags, v \in BOOLEAN : SetFlag(f, v)
        \/ \E l \in Layers, f \in PitFlags, v \in BOOLEAN : LFlag(l, f, v)
        \/ \E o \in AllOpt : \E v \in OptVals(o) : Upd(o, v)
        \/ \E b \in Blocks, o \in AllOpt : \E v \in OptVals(o) : LUpd(b, o, v)
        \/ \E v \in BOOLEAN : Sel(v)
        \/ \E b \in Blocks, v \in BOOLEAN : LSel(b, v)
        \/ FwdBwd

Spec == Init /\ [][Next]_vars

(***************************************************************************)
(* State invariants                                                        *)
(***************************************************************************)
BlockOf(n) == IF O(n).q # 0 THEN O(n).q ELSE 1
\* masks frozen by construction never become trainable ...
FrozenNeverTrainable == \A n \in Names : Frozen(O(n).c) => ~rg[n]
\* ... and never receive a gradient from the loss or the cost (in any state, i.e. whenever FwdBwd is run)
FrozenNeverGrad == \A n \in Names : Frozen(O(n).c) =>
                      ~GradExpected(O(n).c, rg[n], opt[BlockOf(n)].sampler, opt[BlockOf(n)].hard)
\* the sampler that runs is the one the options (as the user set them) select, in every block
SamplerConsistent == \A k \in Blocks : opt[k].sampler = Sampler(opt[k].gumbel, opt[k].disable)

(***************************************************************************)
(* Reporting structure of the abstract model: nas/net lists partition the  *)
(* parameter objects, a shared object is reported once.                    *)
(***************************************************************************)
NasLists ==
    IF Kind = "pit" THEN << <<"aS", "b0", "g0">>, <<"aS", "b1", "g1">>, <<"a2", "bF", "gF">>, <<"aF">> >>
    ELSE IF Kind = "mps" THEN << <<"qo0", "clip0", "qwS", "qin">>, <<"qo0", "clip0", "qwS", "qin">>,
                                 <<"qo2", "clip2", "qw2", "qo0", "clip0">>, <<"qdummy", "qw3", "qo2", "clip2">> >>
    ELSE << <<"sn1">>, <<"sn2">> >>
AllParams ==
    IF Kind = "pit" THEN <<"w0", "aS", "b0", "g0", "w1", "bn1", "b1", "g1", "w2", "a2", "bF", "gF", "w3", "aF">>
    ELSE IF Kind = "mps" THEN <<"w0", "qo0", "clip0", "qwS", "qin", "w1", "w2", "qo2", "clip2", "qw2", "w3", "qdummy", "qw3">>
    ELSE <<"w0", "sn1", "w1", "sn2", "w2">>
NasReport == Report(NasLists)
NetReport == SelectSeq(AllParams, LAMBDA x : x \notin Range(NasReport))
Partition == IsPartition(AllParams, NasReport, NetReport)
\* non-vacuity of Partition: without the "already yielded" filter the shared objects are reported twice
RECURSIVE Concat(_, _)
Concat(lists, i) == IF i > Len(lists) THEN <<>> ELSE lists[i] \o Concat(lists, i + 1)
NoDedupIsNotPartition == Kind \in {"pit", "mps"} => ~NoDup(Concat(NasLists, 1))

(***************************************************************************)
(* Action properties (post-conditions and frame conditions of the calls)   *)
(***************************************************************************)
\* train_* make exactly the named group trainable (frozen masks excepted: they stay as they are);
\* no discrete_cost switch, flag or option moves
TrainExact ==
    [][\A g \in TrainGroups : Train(g) =>
          /\ \A n \in Names : (~Frozen(O(n).c) /\ O(n).c # "dc") => rg'[n] = Want(g, Group(O(n).c))
          /\ \A n \in Names : O(n).c = "dc" => rg'[n] = rg[n]
          /\ flags' = flags /\ opt' = opt]_vars

\* a model-level PIT switch drives exactly the objects it names, in EVERY layer, and nothing else
SetterExact ==
    [][\A f \in PitFlags, v \in BOOLEAN : SetFlag(f, v) =>
          /\ (~Hetero => flags'[f] = v /\ \A h \in PitFlags \ {f} : flags'[h] = flags[h])
          /\ \A n \in Names : rg'[n] = IF DimOf(O(n).c) = f /\ ~Frozen(O(n).c) THEN v ELSE rg[n]
          /\ opt' = opt]_vars

\* a per-layer PIT switch drives the objects of that layer only
LayerSetterExact ==
    [][\A l \in Layers, f \in PitFlags, v \in BOOLEAN : LFlag(l, f, v) =>
          /\ \A n \in Names : rg'[n] = IF DimOf(O(n).c) = f /\ ~Frozen(O(n).c) /\ l \in O(n).l THEN v ELSE rg[n]
          /\ flags' = flags /\ opt' = opt]_vars

\* SuperNet selection switches: model-level = every block, per-block = that block
SelExact ==
    [][/\ \A v \in BOOLEAN : Sel(v) =>
             \A n \in Names : rg'[n] = IF O(n).c = "snalpha" THEN v ELSE rg[n]
       /\ \A b \in Blocks, v \in BOOLEAN : LSel(b, v) =>
             \A n \in Names : rg'[n] = IF O(n).c = "snalpha" /\ O(n).q = b THEN v ELSE rg[n]]_vars

\* changing one sampling option: EVERY block gets the named option, and every OTHER option of EVERY
\* block stays as it was in that block
OthersKept ==
    [][\A o \in AllOpt : \A v \in OptVals(o) : Upd(o, v) =>
          /\ \A k \in Blocks :
                /\ SpecifiedSet(Kind, opt[k], opt'[k], UpdArg(o, v))
                /\ UnspecifiedKept(Kind, opt[k], opt'[k], UpdArg(o, v))
                /\ (o # "gumbel" => opt'[k].gumbel = opt[k].gumbel)
                /\ (o # "disable" => opt'[k].disable = opt[k].disable)
          /\ rg' = rg /\ flags' = flags]_vars

\* an update addressed to one block leaves the other blocks alone
LocalUpdate ==
    [][\A b \in Blocks, o \in AllOpt : \A v \in OptVals(o) : LUpd(b, o, v) =>
          /\ SpecifiedSet(Kind, opt[b], opt'[b], UpdArg(o, v))
          /\ UnspecifiedKept(Kind, opt[b], opt'[b], UpdArg(o, v))
          /\ \A k \in Blocks \ {b} : opt'[k] = opt[k]
          /\ rg' = rg /\ flags' = flags]_vars

ObserverNeutral == [][FwdBwd => UNCHANGED vars]_vars

\* non-vacuity of the heterogeneous configurations: some reachable state has blocks / layers that differ
\* (checked through the expected-to-fail config NasControlMC_*_homog.cfg)
AlwaysHomogeneous ==
    /\ \A j, k \in Blocks : opt[j].temp = opt[k].temp /\ opt[j].hard = opt[k].hard /\ opt[j].disable = opt[k].disable
    /\ \A m, n \in Names : (O(m).c = O(n).c) => rg[m] = rg[n]
=============================================================================
