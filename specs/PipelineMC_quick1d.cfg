SPECIFICATION Spec
CONSTANTS
  Dim = 1
  C0 = 2
  Sp0 = 6
  MaxBody = 2
  Widths = {2}
  Ks = {3}
  BNs = {FALSE}
  Biases = {TRUE}
  AllowDw = FALSE
  AllowAdd = TRUE
  AllowPool = FALSE
  AllowCat = FALSE
  AllowSig = FALSE
  HeadW = 2
  Folds = {FALSE}
  MaxRounds = 2
  TimeChoices = "all"
  TupMode = "one"
  SelMode = "one"
  Backends = {"match"}
  LastStage = "mps"
  AllowFindings = FALSE
INVARIANT InvHandOverWF
INVARIANT InvDomainClosed
INVARIANT InvNormalForm
INVARIANT InvAligned
INVARIANT InvTimeExportable
INVARIANT InvOpenIsIdentity
INVARIANT InvOutputKept
INVARIANT InvGeomKept
INVARIANT InvCostChainPit
INVARIANT InvCostMonotone
INVARIANT InvCostChainMps
INVARIANT InvCostAllEight
INVARIANT InvCostBounded
INVARIANT InvSummaryPit
INVARIANT InvPlumb
INVARIANT InvOutputFloat
INVARIANT InvIntInputsQuantised
