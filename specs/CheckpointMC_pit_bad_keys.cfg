SPECIFICATION Spec
VIEW View
CONSTANTS
    Impl = "lazy_buffer"
    Kind = "pit"
    MaxV = 1
    Temps = {1, 2}
INVARIANT Keys
