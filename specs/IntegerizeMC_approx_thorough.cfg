SPECIFICATION Spec
CONSTANTS
  Impl = "ref"
  Mode = "approx"
  InBits = {0}
  OutBits = {0}
  WVals <- None1
  BVals <- B_approx_thorough
  Targets <- T_approx_thorough
  ScaleBits = {4, 8, 12}
  ShiftPoss = {8, 12}
  BigVals <- None1
  BigShifts = {0}
INVARIANT SelNone
INVARIANT SelSound
INVARIANT SelOptimal
INVARIANT ScalesRange
INVARIANT ErrBelowStep
INVARIANT BridgeFits
