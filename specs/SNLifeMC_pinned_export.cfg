SPECIFICATION Spec
CONSTANTS
  Impl = "pinned"
  ExcludeKF = FALSE
  KindSet = {"layer", "ubf"}
  NBrSet = {2}
  MaxBlocks = 1
  UseSet = {1}
  PoolSet = {FALSE}
  GumbelSet = {FALSE}
  HardSet = {TRUE}
  BigN = 0
  Acts = {"SetAlpha"}
  D = 4
  NameFamily = "plain"
  NameImpl = "asis"
  SampleImpl = "ref"
  ForkImpl = "ref"
INVARIANT C03_ExportSucceeds
INVARIANT C03_ExportIsWinner
INVARIANT C03_KeptModules
