SPECIFICATION Spec
CONSTANTS
  Mode = "lattice"
  Vals = {0, 6, 10}
  Fams = {2, 3, 6}
  AllowDeps = TRUE
  D = 1
INVARIANT InvWellFormed
INVARIANT InvCvIsCost
INVARIANT InvNonNeg
PROPERTY StepMonotone
PROPERTY StepStrict
PROPERTY StepDiscCrossing
INVARIANT InvKeepAliveIrrelevant
INVARIANT InvOpenIsOriginal
INVARIANT InvDiscOpen
INVARIANT InvDiscIntegral
INVARIANT InvDiscBounded
