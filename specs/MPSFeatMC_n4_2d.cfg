SPECIFICATION MSpec
CONSTANTS
  MaxNodes = 4
  Widths = {2}
  Dim = 2
  C0 = 2
  Sp0 = 2
  AllowExcl = FALSE
  AllowCat3 = FALSE
  AllowReuse = FALSE
  Extras = "no"
  AllowFindings = FALSE
  MAllowFindings = FALSE
  Conv1dExport = "pinned"
  ZeroClass = "kept"
  GuardExport = TRUE
INVARIANT MInvToldIsActual
INVARIANT MInvAddAligned
INVARIANT MInvOutputKept
INVARIANT MInvOnePattern
INVARIANT MInvExportBuilds
INVARIANT MInvExportShape
INVARIANT MInvExportPartition
INVARIANT MInvPruneLowers
INVARIANT MInvShown
