SPECIFICATION Spec
CONSTANTS
    Impl = "ref"
    Kind = "sn"
    MaxBn = 1
    TrackHist = TRUE
    MaxLen = 3
INVARIANT TypeOK
INVARIANT Erasure
