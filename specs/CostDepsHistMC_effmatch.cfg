SPECIFICATION Spec
CONSTANTS
  Method = "pit"
  Impl = "effmatch"
  MaxLen = 2
INVARIANT KeyOk
INVARIANT Coherent
PROPERTY ObserversNeutral
