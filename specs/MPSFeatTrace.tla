----------------------------- MODULE MPSFeatTrace -----------------------------
(***************************************************************************)
(* Trace validation for the MPS half of C09 and the last sentence of C05.  *)
(* One trace = one scenario executed on a real plinio MPS model            *)
(* (harness/mpsfeat_gen.py):                                               *)
(*   Convert(arch, cfg) ; WritePrecisions ; Forward ; Observe ; Cost ;     *)
(*   Export ; Run ; PruneOneMore ; Forward ; Cost                          *)
(* logged as ONE record:                                                   *)
(*   arch, cfg = [wt, pw]      architecture, search type, weight candidates *)
(*   build_ok / fwd_ok (+_err) did MPS(...) / the forward pass succeed      *)
(*   L   one record per searchable layer the library created (n = node):   *)
(*       su_w   summary()['w_precision'] per output channel                *)
(*       am_w   precision with the largest raw coefficient per channel     *)
(*       fm, oe features_mask / out_features_eff (x1000) of the layer      *)
(*       told   input_features_calculator.features (x1000), tm = its mask  *)
(*       pr_*   what the probing cost specification was shown              *)
(*       nz     per output channel: did the eval forward produce non-zeros *)
(*       lc     params_bit cost of THIS layer (x1000), cand_w, qid_w, qw   *)
(*   V   the same model after one more channel was pruned (su_w, lc)       *)
(*   E   export(): did it build / run / keep the output shape; the parts   *)
(*       (precision, in, out, groups) of every exported layer              *)
(*   f   (replayed TLC states only) the pattern assignment of MPSFeatMC    *)
(* EVERYTHING the observations are compared with is computed HERE, from    *)
(* the logged architecture and the logged per-layer selected precisions,   *)
(* with the operators of FeatGraph / MPSFeat (ActM, ToldM, MRepMap, PBNum, *)
(* ExportParts, the KF_ predicates).  The verdict is total: "ok", the first *)
(* failing PROPERTY clause, "known:Fxx:..." (signature decided here) or    *)
(* "drift:..." (only a prediction of the as-implemented model failed).     *)
(***************************************************************************)
EXTENDS MPSFeat, Json, IOUtils

Traces == JsonDeserialize(IOEnv.TRACE_FILE)

VARIABLES tid, verdict

Str(x)  == ToString(x)
Abs(x)  == IF x < 0 THEN -x ELSE x
Pat(s)  == [c \in 1..Len(s) |-> s[c] = 1]
Least(S) == CHOOSE x \in S : \A y \in S : x <= y

HasRec(t, n) == \E i \in DOMAIN t.L : t.L[i].n = n
Rec(t, n)    == t.L[CHOOSE i \in DOMAIN t.L : t.L[i].n = n]
SL(t)        == SearchLayers(t.arch)
Usable(t, n) == HasRec(t, n) /\ Rec(t, n).su_ok /\ Len(Rec(t, n).su_w) = Ch(t.arch, n)

\* observed per-channel weight bits / alive patterns (all alive where summary() is unusable: reported separately)
WBObs(t) == [n \in SL(t) |-> IF Usable(t, n) THEN Rec(t, n).su_w ELSE [c \in 1..Ch(t.arch, n) |-> 8]]
M(t)     == [n \in SL(t) |-> AlivePat(WBObs(t)[n])]
Prune(t) == CanPrune(t.cfg)

(* ----------------------------- known findings -------------------------- *)
Known(t) ==
    LET a == t.arch  rm == MRepMap(t.arch) IN
    IF t.cfg.wt = "pc" /\ KF_MPSMixedWidth(a, rm)
    THEN "known:F60:layers of different widths (or a fixed tensor of another width) share one sharing component: one per-channel coefficient matrix, sized after whichever features-defining node the set iteration meets first"
    ELSE IF KF_MPSFixedInGroup(a, rm, Prune(t))
    THEN "known:F61:a component tied to a tensor the search cannot prune (network input, excluded layer) is not frozen: residual sums are misaligned / consumers are told the width of the fixed producer"
    ELSE ""
\* development switch (environment MPSFEAT_NOKNOWN=1): show the clause underneath a topology signature.  It can only turn
\* KNOWN-FINDING verdicts into violations, never the reverse.
NoKnown == "MPSFEAT_NOKNOWN" \in DOMAIN IOEnv /\ IOEnv.MPSFEAT_NOKNOWN = "1"
Fail(t, clause) == IF Known(t) # "" /\ ~NoKnown THEN Known(t) ELSE clause

Chain(vs) == IF \A i \in DOMAIN vs : vs[i] = "ok" THEN "ok"
             ELSE vs[CHOOSE i \in DOMAIN vs : vs[i] # "ok" /\ \A j \in 1..(i - 1) : vs[j] = "ok"]

(* ----------------------------- structure ------------------------------- *)
Structure(t) ==
    LET missing == {n \in SL(t) : ~HasRec(t, n)}
        extra   == {i \in DOMAIN t.L : t.L[i].n \notin SL(t)}
        unus    == {n \in SL(t) : HasRec(t, n) /\ ~Usable(t, n)} IN
    IF missing # {} THEN "C09.convert layer " \o Str(Least(missing)) \o ": no searchable module was created for this layer"
    ELSE IF extra # {} THEN "C09.convert: a searchable module was created for a node that is no searchable layer of the architecture"
    ELSE IF unus # {} THEN "C09.summary layer " \o Str(Least(unus)) \o ": summary() has no per-channel weight precision of the layer's width"
    ELSE "ok"

(* ----------------------------- per layer ------------------------------- *)
(* Tolerances.  told / out_features_eff / probe values are sums of one-hot coefficients (exact in float32):    *)
(* |x1000 value - 1000 * count| <= 1.  Layer cost: float32 products of small integers, logged x1000:           *)
(* |lc * C - 1000 * Num| <= C + Num / 500   (half a thousandth of rounding per unit of C, 2e-6 relative).      *)
Milli(x, cnt)          == Abs(x - 1000 * cnt) <= 1
CloseCost(lc, num, C)  == Abs(lc * C - 1000 * num) <= C + num \div 500

C09Layer(t, n) ==
    LET a == t.arch  r == Rec(t, n)  m == M(t)  reach == MReach(a, m, n)  own == Count(m[n]) IN
    IF ~r.oe_ok \/ ~Milli(r.oe, own) \/ (r.fm # <<>> /\ Pat(r.fm) # m[n])
    THEN "C09.reported-out layer " \o Str(n) \o ": summary() reports " \o Str(own) \o " channels with a non-zero precision, out_features_eff (x1000) = "
             \o Str(r.oe) \o ", features_mask = " \o Str(r.fm)
    ELSE IF ~r.told_ok THEN "C09.told layer " \o Str(n) \o ": the input features calculator cannot be evaluated: " \o r.told_err
    ELSE IF ~Milli(r.told, Count(reach))
    THEN "C09.charged layer " \o Str(n) \o ": told " \o Str(r.told) \o "/1000 input features, " \o Str(Count(reach))
             \o " are alive in the tensor that reaches it"
    ELSE IF r.pr_n = 0 THEN "C05.keys layer " \o Str(n) \o ": the cost function of the layer was never called"
    ELSE IF ~r.pr_names_ok
    THEN "C05.keys layer " \o Str(n) \o ": the cost function is not shown one pair of feature counts under the PyTorch names of the layer type"
    ELSE IF ~Milli(r.pr_in, Count(reach)) \/ ~Milli(r.pr_out, own)
    THEN "C05.keys layer " \o Str(n) \o ": the cost function is shown (in, out) = (" \o Str(r.pr_in) \o ", " \o Str(r.pr_out)
             \o ")/1000, alive are (" \o Str(Count(reach)) \o ", " \o Str(own) \o ")"
    ELSE IF \E c \in DOMAIN r.nz : r.nz[c] = 1 /\ ~m[n][c]
    THEN "C09.zero layer " \o Str(n) \o ": a channel whose selected weight precision is 0 carries non-zero values"
    ELSE IF ~r.lc_ok THEN "C05.cost layer " \o Str(n) \o ": the params_bit cost of the layer cannot be evaluated"
    ELSE IF ~CloseCost(r.lc, PBNum(a, n, Count(reach), WBObs(t)[n]), Ch(a, n))
    THEN "C05.charged layer " \o Str(n) \o ": params_bit of the layer = " \o Str(r.lc) \o "/1000, the cost of " \o Str(Count(reach))
             \o " alive input features is " \o Str(PBNum(a, n, Count(reach), WBObs(t)[n])) \o "/" \o Str(Ch(a, n))
    ELSE "ok"

RECURSIVE WalkL(_, _)
WalkL(t, i) == IF i > Len(t.L) THEN "ok"
               ELSE LET v == C09Layer(t, t.L[i].n) IN IF v # "ok" THEN v ELSE WalkL(t, i + 1)

(* ----------------------------- whole network --------------------------- *)
Whole(t) ==
    LET a == t.arch  m == M(t) IN
    IF ~MAddAligned(a, m) THEN "C09.add: the two sides of a residual sum carry different alive patterns"
    ELSE IF ~MOutputKept(a, m) THEN "C09.output: channels of the network output were pruned"
    ELSE "ok"

RECURSIVE SumLc(_, _)
SumLc(L, i) == IF i > Len(L) THEN 0 ELSE L[i].lc + SumLc(L, i + 1)
Total(t) ==
    IF ~t.cost_ok THEN "C05.cost: get_cost('params_bit') raised / is not finite"
    ELSE IF Abs(SumLc(t.L, 1) - t.cost_pb) > 1 + Len(t.L) + t.cost_pb \div 100000
    THEN "C05.total: params_bit of the model (" \o Str(t.cost_pb) \o "/1000) is not the sum of its layers (" \o Str(SumLc(t.L, 1)) \o "/1000)"
    ELSE "ok"

(* C05, last sentence, on the real model: one more channel (V.c) of layer V.p was pruned *)
VRec(t, n) == t.V.L[CHOOSE i \in DOMAIN t.V.L : t.V.L[i].n = n]
Variant(t) ==
    IF ~t.V.done THEN "ok"
    ELSE LET a == t.arch
             ok2 == \A n \in SL(t) : (\E i \in DOMAIN t.V.L : t.V.L[i].n = n) /\ Len(VRec(t, n).su_w) = Ch(a, n)
         IN
         IF ~ok2 THEN "C09.summary: summary() unusable after pruning one more channel"
         ELSE LET m1 == M(t)
                  m2 == [n \in SL(t) |-> AlivePat(VRec(t, n).su_w)]
                  up   == {n \in SL(t) : VRec(t, n).lc > Rec(t, n).lc + 1}
                  flat == {n \in SL(t) : Count(MReach(a, m2, n)) < Count(MReach(a, m1, n)) /\ Rec(t, n).lc > 1
                                             /\ ~(VRec(t, n).lc < Rec(t, n).lc)} IN
              IF \E n \in SL(t) : \E c \in DOMAIN m2[n] : m2[n][c] /\ ~m1[n][c]
              THEN "drift:pruning one more channel revived another one (the harness wrote more than one column)"
              ELSE IF up # {}
              THEN "C05.lowers layer " \o Str(Least(up)) \o ": pruning channel " \o Str(t.V.c) \o " of layer " \o Str(t.V.p)
                       \o " RAISED the cost of the layer from " \o Str(Rec(t, Least(up)).lc) \o " to " \o Str(VRec(t, Least(up)).lc) \o " (/1000)"
              ELSE IF flat # {}
              THEN "C05.lowers layer " \o Str(Least(flat)) \o " (" \o Op(a, Least(flat)) \o (IF IsDw(a, Least(flat)) THEN ", depthwise" ELSE "")
                       \o "): pruning channel " \o Str(t.V.c) \o " of layer " \o Str(t.V.p) \o " leaves it fewer alive input features but its cost stays "
                       \o Str(VRec(t, Least(flat)).lc) \o "/1000"
              ELSE "ok"

(* input_features_calculator.features_mask (C09 'observe_at'); evaluated on the scenarios flagged check_mask *)
MaskAttr(t) ==
    IF ~t.check_mask THEN "ok"
    ELSE LET bad == {n \in SL(t) : ~Rec(t, n).tm_ok}
             wrong == {n \in SL(t) : Rec(t, n).tm_ok /\ Pat(Rec(t, n).tm) # MReach(t.arch, M(t), n)} IN
         IF wrong # {} THEN "C09.told-mask layer " \o Str(Least(wrong)) \o ": features_mask of the input calculator differs from the alive pattern of the tensor that reaches the layer"
         ELSE IF bad = {} THEN "ok"
         ELSE IF \A n \in bad : Rec(t, n).tm_err = "AttributeError"
         THEN "known:F64:input_features_calculator.features_mask of an MPS layer raises AttributeError (ModAttrFeaturesCalculator names an attribute 'features_mask' that no MPS module defines)"
         ELSE "C09.told-mask layer " \o Str(Least(bad)) \o ": features_mask of the input calculator raised " \o Rec(t, Least(bad)).tm_err

(* ----------------------------- export ---------------------------------- *)
ERec(t, n) == t.E.L[CHOOSE i \in DOMAIN t.E.L : t.E.L[i].n = n]
HasE(t, n) == \E i \in DOMAIN t.E.L : t.E.L[i].n = n
RECURSIVE PartsOut(_, _, _)
PartsOut(ps, i, b) == IF i > Len(ps) THEN 0
                      ELSE (IF b = -99 \/ ps[i].prec = b THEN ps[i].out ELSE 0) + PartsOut(ps, i + 1, b)
ExpLayer(t, n) ==
    LET a == t.arch  wb == WBObs(t)[n] IN
    IF ~HasE(t, n) THEN "C09.exported layer " \o Str(n) \o ": layer missing from the exported network"
    ELSE LET ps == ERec(t, n).parts  ref == ExportParts(a, wb, n, "kept") IN
         IF PartsOut(ps, 1, -99) # Ch(a, n)
         THEN "C09.exported layer " \o Str(n) \o ": exported with " \o Str(PartsOut(ps, 1, -99)) \o " output channels, the layer has " \o Str(Ch(a, n))
         ELSE IF \E i \in DOMAIN ps : ps[i].in # Ch(a, In1(a, n))
         THEN "C09.exported layer " \o Str(n) \o ": an exported part has another number of input features than the tensor that reaches it in the exported network ("
                  \o Str(Ch(a, In1(a, n))) \o ")"
         ELSE IF \E b \in ClassesOf(wb) : PartsOut(ps, 1, b) # ref[b].out
         THEN "C09.exported layer " \o Str(n) \o ": the exported precision classes do not hold the channels summary() reports (alive "
                  \o Str(Count(AlivePat(wb))) \o ", pruned " \o Str(NWith(wb, 0)) \o ")"
         ELSE IF \E i \in DOMAIN ps : ps[i].prec \notin ClassesOf(wb)
         THEN "C09.exported layer " \o Str(n) \o ": an exported part has a precision that summary() does not report"
         ELSE "ok"
RECURSIVE WalkE(_, _)
WalkE(t, S) == IF S = {} THEN "ok"
               ELSE LET n == Least(S)  v == ExpLayer(t, n) IN IF v # "ok" THEN v ELSE WalkE(t, S \ {n})
Export(t) ==
    LET a == t.arch IN
    IF ~t.E.done THEN "ok"
    ELSE IF ~t.E.ok
         THEN IF t.cfg.wt = "pc" /\ KF_MPSConv1dExport(a) /\ t.E.err_class = "IndexError"
              THEN "known:F62:MPSConv1d.export (per-channel search) indexes the 3-D weight with four indices: export() raises IndexError on every 1-D network"
              ELSE IF t.cfg.wt = "pc" /\ KF_MPSDwExport(a, WBObs(t)) /\ t.E.err_class = "ValueError"
              THEN "known:F63:export() of a depthwise conv whose channels select more than one precision builds nn.Conv(in, n_class, groups = in): ValueError (out_channels must be divisible by groups)"
              ELSE "C09.export: export() raised " \o t.E.err
    ELSE IF ~t.E.run_ok THEN "C09.run: the exported network does not run on an input of the original shape: " \o t.E.err
    ELSE IF ~t.E.shape_ok THEN "C09.shape: the exported network returns another output shape"
    ELSE WalkE(t, SL(t))

(* ----------------------------- predictions (drift) --------------------- *)
FKeys(t)   == {t.f[i].k : i \in DOMAIN t.f}
FAlive(t, k) == LET i == CHOOSE j \in DOMAIN t.f : t.f[j].k = k IN {t.f[i].alive[c] : c \in DOMAIN t.f[i].alive}
Drift(t) ==
    LET a == t.arch  rm == MRepMap(t.arch)  prune == Prune(t) IN
    IF \E n \in SL(t) : Rec(t, n).am_w # Rec(t, n).su_w
    THEN "drift:summary() does not report the precision with the largest coefficient"
    ELSE IF t.cfg.wt = "pc" /\ \E n \in SL(t) : (\E i \in DOMAIN Rec(t, n).cand_w : Rec(t, n).cand_w[i] = 0) # MFree(a, rm, n, prune)
    THEN "drift:the set of layers that keep the 0-bit candidate differs from the model (output-connected components)"
    ELSE IF t.cfg.wt = "pc" /\ \E n \in SL(t) : Rec(t, n).qw \notin MQWidths(a, rm, rm[n])
    THEN "drift:the per-channel coefficient matrix of a layer has a width that is none of the model's candidates (MQWidths)"
    ELSE IF t.cfg.wt = "pc" /\ \E n, k \in SL(t) : (rm[n] = rm[k]) # (Rec(t, n).qid_w = Rec(t, k).qid_w)
    THEN "drift:weight quantisers are not shared exactly inside the sharing components of the model"
    ELSE IF t.has_f /\ (FKeys(t) # MFreeKeys(a, rm, prune)
                         \/ \E n \in MFreeLayers(a, rm, prune) : Positions1(M(t)[n]) # FAlive(t, MLayerRep(a, rm, n)))
    THEN "drift:the patterns observed on the layers differ from the assignment of the replayed state"
    ELSE "ok"

Check(t) ==
    IF ~t.build_ok THEN Fail(t, "C09.convert: MPS(...) raised on an architecture of the grammar: " \o t.build_err)
    ELSE IF ~t.fwd_ok THEN Fail(t, "C09.forward: the converted model cannot run: " \o t.fwd_err)
    ELSE LET s == Structure(t) IN
         IF s # "ok" THEN Fail(t, s)
         ELSE LET v == Chain(<<WalkL(t, 1), Whole(t), Total(t), Variant(t), MaskAttr(t), Export(t)>>) IN
              IF v # "ok" THEN Fail(t, v) ELSE Drift(t)

Init == tid \in 1..Len(Traces) /\ verdict = Check(Traces[tid])
Next == UNCHANGED <<tid, verdict>>
Spec == Init /\ [][Next]_<<tid, verdict>>
VerdictOk == verdict = "ok"
=============================================================================
