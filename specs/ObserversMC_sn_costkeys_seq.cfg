SPECIFICATION Spec
CONSTANTS
    Impl = "costkeys"
    Kind = "sn"
    MaxBn = 1
    TrackHist = TRUE
    MaxLen = 3
INVARIANT TypeOK
INVARIANT Erasure
