SPECIFICATION Spec
VIEW View
CONSTANTS
    Impl = "private_stream"
    Kind = "mps"
    MaxV = 1
    Temps = {1, 2}
INVARIANT Resume
