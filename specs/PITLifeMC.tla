------------------------------ MODULE PITLifeMC ------------------------------
(***************************************************************************)
(* Life cycle of a PIT model between "the masks have some value" and       *)
(* "somebody looks at it" (forward / summary / cost / export): C01, C04,   *)
(* C08 and C09 are stated for every mask value "whatever preceded".        *)
(*                                                                         *)
(* Abstract state: the mask assignment (an opaque id, only SetMasks may     *)
(* change it), the trainability switches, requires_grad of the mask        *)
(* classes, the cost mode, the train/eval mode, and the history of calls.  *)
(* What the model computes / reports / exports is Obs(masks): a function   *)
(* of the masks ONLY.  TLC enumerates every call sequence up to MaxLen;    *)
(* the histories are replayed on real PIT models (harness) and validated   *)
(* with PITTrace.                                                          *)
(***************************************************************************)
EXTENDS Naturals, Sequences, TLC

CONSTANTS MaxLen

\* "set_masks": the optimizer moves the masks (at most once per history here); every other call is made either
\* BEFORE it (on the freshly converted model) or AFTER it
Ops == {"set_masks", "freeze_features", "freeze_rf", "freeze_dilation", "train_net_only", "train_nas_only",
        "train_net_and_nas", "summary", "cost", "continuous_cost", "discrete_cost",
        "train_mode_roundtrip", "export",
        "respec", "respec_switch",      \* cost_specification re-assigned (same spec / another one and back)
        "fork"}                         \* copy.deepcopy of the wrapper: the history goes on with the COPY while the original is
                                        \* searched further (its masks, switches and modes change); the copy's state is the
                                        \* state at the fork, whatever happens to the original afterwards

VARIABLES masks, sw, rg, dcost, hist

vars == <<masks, sw, rg, dcost, hist>>

Init == /\ masks = "m0"
        /\ sw = [features |-> TRUE, rf |-> TRUE, dilation |-> TRUE]
        /\ rg = [alpha |-> TRUE, beta |-> TRUE, gamma |-> TRUE, net |-> TRUE]
        /\ dcost = TRUE
        /\ hist = <<>>

Do(op) ==
    /\ Len(hist) < MaxLen
    /\ hist' = Append(hist, op)
    /\ (op = "set_masks" => masks = "m0")
    /\ masks' = (IF op = "set_masks" THEN "m1" ELSE masks)      \* no other call of this alphabet writes a mask
    /\ CASE op = "freeze_features" -> sw' = [sw EXCEPT !.features = FALSE] /\ rg' = [rg EXCEPT !.alpha = FALSE] /\ UNCHANGED dcost
         [] op = "freeze_rf"       -> sw' = [sw EXCEPT !.rf = FALSE] /\ rg' = [rg EXCEPT !.beta = FALSE] /\ UNCHANGED dcost
         [] op = "freeze_dilation" -> sw' = [sw EXCEPT !.dilation = FALSE] /\ rg' = [rg EXCEPT !.gamma = FALSE] /\ UNCHANGED dcost
         [] op = "train_net_only"  -> rg' = [alpha |-> FALSE, beta |-> FALSE, gamma |-> FALSE, net |-> TRUE] /\ UNCHANGED <<sw, dcost>>
         [] op = "train_nas_only"  -> rg' = [alpha |-> TRUE, beta |-> TRUE, gamma |-> TRUE, net |-> FALSE] /\ UNCHANGED <<sw, dcost>>
         [] op = "train_net_and_nas" -> rg' = [alpha |-> TRUE, beta |-> TRUE, gamma |-> TRUE, net |-> TRUE] /\ UNCHANGED <<sw, dcost>>
         [] op = "continuous_cost" -> dcost' = FALSE /\ UNCHANGED <<sw, rg>>
         [] op = "discrete_cost"   -> dcost' = TRUE /\ UNCHANGED <<sw, rg>>
         [] OTHER                  -> UNCHANGED <<sw, rg, dcost>>      \* summary, cost, export, mode round trip: observers

Next == \E op \in Ops : Do(op)
Spec == Init /\ [][Next]_vars

\* what is computed / reported / exported is a function of the masks only
Obs(m) == m
ObsDependsOnMasksOnly == Obs(masks) = (IF \E i \in DOMAIN hist : hist[i] = "set_masks" THEN "m1" ELSE "m0")
MasksOnlyBySetMasks == [][masks' # masks => hist' = Append(hist, "set_masks")]_vars
=============================================================================
