SPECIFICATION Spec
CONSTANTS
  Impl = "ref"
  NPrec = 4
INVARIANT HistoryIndependent
INVARIANT LastIsPrevCall
