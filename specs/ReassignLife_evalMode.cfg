SPECIFICATION Spec
CONSTANTS
  Impl = "evalMode"
  MaxHist = 0
  KeepHist = FALSE
INVARIANT RefineSeesArgmax
INVARIANT HistOk
