"""Execute one abstract PIT scenario on the real library and log it as a PITTrace record.

scenario = {
  "arch": <abstract architecture>, "fold": bool, "seed": int,
  "alive": {"<node>": [1-based alive channels]}            (optional, per searchable layer; writes alpha 1/0)
  "alpha": {"<node>": [floats]}                             (optional raw alpha values, wins over alive)
  "tm":    {"<node>": {"b": [abstract ints], "g": [abstract ints]}}     abstract magnitudes (units of 0.1, BIG)
  "tmraw": {"<node>": {"beta": [floats], "gamma": [floats]}}            raw values (property-based drivers)
  "props": {"C01": bool, "C04": bool, "C08": bool, "C09": bool},
  "costs": [{"name": str, "metric": str, "full": bool}],   (C04)
  "train": {"steps", "lr", "strength", "task", "discrete", "seed"}   masks moved by a real optimizer instead of written
  "pre":   [call names executed after the masks are written and before anything is observed]
  "variant": "auto" | "manual" (autoconvert off, PIT layers placed by the user) | "types" (exclusion by type)
}
"""
from __future__ import annotations

import copy
import random
import warnings
from typing import Any, Dict, List

import torch
import torch.nn as nn

from . import pitdrv
from .archgen import lname, norm_arch, shapes

BIG = 100000000
ABS2F = {0: 0.0, 3: 0.3, 6: 0.6, 10: 1.0, BIG: 1e30}


def _cost_specs():
    import plinio.cost as pc
    return {"params": pc.params, "params_no_bias": pc.params_no_bias, "ops": pc.ops,
            "ops_no_bias": pc.ops_no_bias, "gap8_latency": pc.gap8_latency}


def scratch_cost(spec, net: nn.Module, x, names=None) -> float:
    """The metric `spec` computed from scratch on a plain network: every conv/linear call is described by
    its own attributes and its real output shape (forward hooks); shared metrics count a module once."""
    total = [0.0]
    seen = set()
    hs = []

    def hook(mod, inp, outp):
        if spec.shared and id(mod) in seen:
            return None
        seen.add(id(mod))
        v = dict(vars(mod))
        for kk in ("in_channels", "out_channels", "in_features", "out_features"):
            if kk in v:          # the cost functions expect (possibly relaxed) tensor-valued feature counts
                v[kk] = torch.tensor(float(v[kk]))
        v["output_shape"] = tuple(outp.shape)
        fn = spec[(type(mod), vars(mod))]
        total[0] += float(fn(v))
        return None
    for name, mod in net.named_modules():
        if isinstance(mod, (nn.Conv1d, nn.Conv2d, nn.Linear)) and (names is None or name in names):
            hs.append(mod.register_forward_hook(hook))
    with torch.no_grad():
        net(x)
    for h in hs:
        h.remove()
    return total[0]


def _as_int(v: float):
    r = round(v)
    ok = abs(v - r) <= 1e-6 * max(1.0, abs(v)) and abs(r) < 2 ** 31
    return (int(r) if ok else -1), ok


def _perturb(pit, arch, rng) -> None:
    """Move every mask of `pit` somewhere else and flip its switches (used on the original after a fork)."""
    with torch.no_grad():
        for m in pit.modules():
            for nm in ("alpha", "beta", "gamma"):
                t = getattr(m, nm, None)
                if isinstance(t, torch.Tensor) and t.dim() == 1 and type(m).__name__.startswith("PIT"):
                    t.copy_(torch.tensor([rng.choice([0.0, 1.0, 0.3, -1.0]) for _ in range(t.numel())], dtype=t.dtype))
    try:
        pit.discrete_cost = not pit.discrete_cost
        pit.train_features = not pit.train_features
        pit.train()
    except Exception:
        pass


def run(sc: Dict[str, Any]) -> Dict[str, Any]:
    arch = norm_arch(sc["arch"])
    props = {"C01": False, "C04": False, "C08": False, "C09": False}
    props.update(sc.get("props", {}))
    tr: Dict[str, Any] = {"arch": arch, "fold": bool(sc.get("fold", False)), "props": props,
                          "conv_ok": False, "conv_err": "", "conv_rejected_fusion": False, "fwd_ok": True, "fwd_err": "", "L": [], "B": [], "cost": [],
                          "E": {"export_ok": False, "run_ok": False, "shape_ok": False, "out_equal": False,
                                "err": "", "diff": -1, "L": [], "B": []}}
    rng = random.Random(sc.get("seed", 0))
    costs = sc.get("costs", [])
    specs = _cost_specs()
    cost_arg = None
    if costs:
        cost_arg = {c["name"]: specs[c["metric"]] for c in costs}
        if len(costs) == 1 and costs[0].get("single", False):
            cost_arg = specs[costs[0]["metric"]]
    full = any(c.get("full", False) for c in costs)
    try:
        ref, pit, x = pitdrv.build(arch, fold_bn=tr["fold"], seed=sc.get("seed", 0), cost=cost_arg, full_cost=full,
                                   variant=sc.get("variant", "auto"), example_batch=int(sc.get("xb", 0)))
        tr["conv_ok"] = True
    except Exception as e:
        tr["conv_err"] = f"{type(e).__name__}: {str(e)[:100]}"
        tr["conv_rejected_fusion"] = isinstance(e, ValueError) and "pair to be fused has multiple users" in str(e)
        return tr
    pit.eval()
    sh = shapes(arch)
    search = pitdrv.searchable_nodes(arch)
    search_names = {"layers." + lname(pitdrv.owner(arch, i)) for i in search}

    def getc(name, single):
        v = pit.cost if single else pit.get_cost(name)
        return float(v)

    # ---- C04 (a): all masks open: discrete = continuous = cost of the original model
    open_obs = {}
    for c in costs:
        single = len(costs) == 1 and c.get("single", False)
        try:
            pit.discrete_cost = True
            d = getc(c["name"], single)
            pit.discrete_cost = False
            k = getc(c["name"], single)
            pit.discrete_cost = True
            o = scratch_cost(specs[c["metric"]], ref.eval(), x,
                             None if c.get("full", False) else search_names)
            # folding a BatchNorm into a bias-free layer creates a bias the original layer did not have: the
            # "cost of the original model" clause is evaluated only where folding adds no parameter
            adds_bias = tr["fold"] and (any(nd["op"] in ("conv", "lin") and nd["bn"] and not nd["bias"] for nd in arch["nodes"])
                                        or any(nd["op"] == "bns" and nd["ins"][0] > 0
                                               and arch["nodes"][nd["ins"][0] - 1]["op"] in ("conv", "lin")
                                               and not arch["nodes"][nd["ins"][0] - 1]["bias"] for nd in arch["nodes"]))
            open_obs[c["name"]] = None if adds_bias else (_as_int(d), _as_int(k), _as_int(o))
        except Exception as e:
            open_obs[c["name"]] = None

    # ---- the history: calls made before / after the masks are written (marker "set_masks"; default: first)
    tm_abs: Dict[int, Dict[str, List[int]]] = {}

    def train_masks(cfg):
        """Let a real optimizer move the masks: a few SGD steps on the architectural parameters with the loss
        (task term on random data) + strength * cost, as a search does.  The values reached are whatever they are
        (fractional, negative, crossing the threshold on some elements only)."""
        gen2 = torch.Generator().manual_seed(int(cfg.get("seed", 0)))
        pit.train()
        pit.train_net_and_nas()
        pit.discrete_cost = bool(cfg.get("discrete", False))
        # un-padded Conv1d layers: pruning taps would change their output length (documented as unsupported), so a
        # user searches their channels only - switch their rf / dilation search off, as the per-layer switches allow.
        # C01 scenarios: the same for every layer that is not causally padded (C01 covers time pruning of causal layers)
        for i_, nd_ in enumerate(arch["nodes"], start=1):
            if nd_["op"] == "conv" and arch["dim"] == 1 and not nd_["excl"] and not nd_["reuse"] and \
                    (nd_.get("valid") or (props["C01"] and not nd_["causal"])):
                ly_ = pitdrv.layer(pit, i_)
                if hasattr(ly_, "train_rf"):
                    ly_.train_rf = False
                    ly_.train_dilation = False
        params = [p_ for p_ in pit.nas_parameters() if p_.requires_grad]
        if not params:
            pit.eval()
            return
        opt = torch.optim.SGD(params, lr=float(cfg.get("lr", 0.2)))
        for _ in range(int(cfg.get("steps", 5))):
            xb = torch.rand(x.shape, generator=gen2) * 2 - 0.5
            opt.zero_grad()
            y = pit(xb)
            c = pit.get_cost(costs[0]["name"]) if isinstance(cost_arg, dict) else pit.cost
            loss = float(cfg.get("task", 0.01)) * (y ** 2).mean() + float(cfg.get("strength", 0.05)) * c
            loss.backward()
            snap = [p_.detach().clone() for p_ in params]
            opt.step()
            if not all(bool(torch.isfinite(p_).all()) for p_ in params):
                # the optimizer diverged (inf / NaN): not "a real value of the parameters" - keep the last finite state
                with torch.no_grad():
                    for p_, s_ in zip(params, snap):
                        p_.copy_(s_)
                break
        pit.eval()
        pit.discrete_cost = True

    def write_masks():
        if sc.get("train"):
            try:
                train_masks(sc["train"])
            except Exception:      # e.g. a layer without masker (finding F19): observed as such below
                pit.eval()
                pit.discrete_cost = True
            return
        for node, al in sc.get("alive", {}).items():
            i = int(node)
            try:
                pitdrv.set_alive(pit, pitdrv.owner(arch, i), list(al), sh[i]["ch"])
            except Exception:
                pass
        for node, vals in sc.get("alpha", {}).items():
            try:
                pitdrv.set_alpha(pit, pitdrv.owner(arch, int(node)), list(vals))
            except Exception:
                pass
        for node, bg in sc.get("tm", {}).items():
            i = int(node)
            sgn = lambda: rng.choice([1.0, -1.0])
            pitdrv.set_beta_gamma(pit, pitdrv.owner(arch, i), [ABS2F[v] * sgn() for v in bg["b"]], [ABS2F[v] * sgn() for v in bg["g"]])
            tm_abs[i] = bg
        for node, bg in sc.get("tmraw", {}).items():
            pitdrv.set_beta_gamma(pit, pitdrv.owner(arch, int(node)), bg.get("beta"), bg.get("gamma"))


    pre = list(sc.get("pre", []))
    if "set_masks" not in pre:
        pre = ["set_masks"] + pre
    for op in pre:
        if op == "set_masks":
            write_masks()
            continue
        try:
            if op == "freeze_features":
                pit.train_features = False
            elif op == "freeze_rf":
                pit.train_rf = False
            elif op == "freeze_dilation":
                pit.train_dilation = False
            elif op == "train_net_only":
                pit.train_net_only()
            elif op == "train_nas_only":
                pit.train_nas_only()
            elif op == "train_net_and_nas":
                pit.train_net_and_nas()
            elif op == "summary":
                pit.summary()
            elif op == "cost":
                float(pit.get_cost(costs[0]["name"]) if isinstance(cost_arg, dict) else pit.cost)
            elif op == "continuous_cost":
                pit.discrete_cost = False
            elif op == "discrete_cost":
                pit.discrete_cost = True
            elif op == "respec":              # re-assign the same cost specification (rebuilds the cost-function map)
                pit.cost_specification = pit.cost_specification
            elif op == "respec_switch":       # switch to another specification and back
                cur = pit.cost_specification
                pit.cost_specification = specs["ops"] if cur is not specs["ops"] else specs["params"]
                float(pit.cost)
                pit.cost_specification = cur
            elif op == "train_mode_roundtrip":
                pit.train()
                pit.eval()
            elif op == "export":
                with warnings.catch_warnings():
                    warnings.simplefilter("ignore")
                    pit.export()
                pit.eval()
            elif op == "fork":
                # "keep the best model so far": everything from here on happens on a deep copy, while the ORIGINAL
                # object goes on being searched (other masks, other switches, other cost mode)
                orig = pit
                pit = copy.deepcopy(orig)
                _perturb(orig, arch, rng)
        except Exception:
            pass
    pit.discrete_cost = True

    # ---- observe the NAS model
    obs = pitdrv.observe_layers(pit, arch)
    try:
        calls = pitdrv.actual_zero_patterns(pit, arch, x)
    except Exception as e:       # the converted model itself cannot run (e.g. a layer without masker)
        tr["fwd_ok"] = False
        tr["fwd_err"] = f"{type(e).__name__}: {str(e)[:100]}"
        return tr
    site_count: Dict[int, int] = {}
    for i in search:
        o = pitdrv.owner(arch, i)
        r = obs[str(i)]
        nd = arch["nodes"][i - 1]
        k_site = site_count.get(o, 0)
        site_count[o] = k_site + 1
        cl = calls.get("layers." + lname(o), [])
        nz_in = cl[k_site][0] if k_site < len(cl) else []
        has_t = "tmask" in r
        rec = {"n": i, "mask": r["mask"], "mask_ok": "mask_err" not in r and len(r["mask"]) > 0,
               "told": r["told"], "told_n": r["told_n"], "told_ok": "told_err" not in r and len(r["told"]) > 0,
               "sum_in": r["sum_in"], "sum_out": r["sum_out"], "nz_in": nz_in,
               "t": bool(has_t), "K": int(nd["k"]), "d0": int(nd["d"]), "s": int(nd["s"]),
               "tmask": r.get("tmask", []), "sum_k": r.get("sum_k", 1), "sum_dil": r.get("sum_dil", 1),
               "babs": i in tm_abs, "b": tm_abs.get(i, {}).get("b", []), "g": tm_abs.get(i, {}).get("g", [])}
        if len(rec["nz_in"]) != len(rec["told"]):
            rec["nz_in"] = [0] * len(rec["told"])
            rec["nz_missing"] = True
        tr["L"].append(rec)

    try:
        tr["B"] = pitdrv.observe_bns(pit, arch)
    except Exception:
        tr["B"] = []

    # ---- export (index-encoded copy for the index maps, the real one for the numeric comparison)
    E = tr["E"]
    E["B"] = []
    cmp = pitdrv.export_and_compare(pit, arch, x)
    E.update({k: cmp[k] for k in ("export_ok", "run_ok", "shape_ok", "out_equal")})
    E["err"] = cmp.get("err", "")
    E["diff"] = int(cmp.get("diff_e12", -1))
    exp_for_cost = None
    if cmp["export_ok"]:
        try:
            enc = pitdrv.index_encode(pit, arch)
            with warnings.catch_warnings():
                warnings.simplefilter("ignore")
                exp_enc = enc.eval().export()
            dec = pitdrv.decode_export(exp_enc, arch)
            E["B"] = pitdrv.decode_bns(exp_enc, enc, arch)
            # output positions / number of calls of each exported searchable layer (hooks on a real run)
            m2 = copy.deepcopy(pit).eval()
            with warnings.catch_warnings():
                warnings.simplefilter("ignore")
                exp_for_cost = m2.export().eval()
            outpos: Dict[str, List[int]] = {}
            hs = []

            def mk(nm):
                def hook(mod, inp, outp):
                    p = 1
                    for d in outp.shape[2:]:
                        p *= int(d)
                    outpos.setdefault(nm, []).append(p)
                    return None
                return hook
            for nm, mod in exp_for_cost.named_modules():
                if isinstance(mod, (nn.Conv1d, nn.Conv2d, nn.Linear)):
                    hs.append(mod.register_forward_hook(mk(nm)))
            if cmp["run_ok"]:
                with torch.no_grad():
                    exp_for_cost(x)
            for h in hs:
                h.remove()
            for i in search:
                if pitdrv.owner(arch, i) != i:
                    continue
                d = dec[str(i)]
                d["n"] = i
                ops_ = outpos.get("layers." + lname(i), [1])
                d["outpos"] = int(ops_[0])
                d["calls"] = len(ops_)
                d["outpos_same"] = len(set(ops_)) <= 1
                d["outpos_sum"] = int(sum(ops_))
                E["L"].append(d)
        except Exception as e:
            E["export_ok"] = False
            E["err"] = f"export(index-encoded): {type(e).__name__}: {str(e)[:100]}"

    # ---- C04 (b): discrete cost of the NAS model vs the metric from scratch on the exported network
    for c in costs:
        single = len(costs) == 1 and c.get("single", False)
        rec = {"name": c["name"], "metric": c["metric"], "full": bool(c.get("full", False)), "ok": False, "err": "",
               "nas": -1, "scratch": -1, "integral": False, "open_checked": False, "open_disc": -1, "open_cont": -1,
               "orig": -1}
        try:
            pit.discrete_cost = True
            nas, okn = _as_int(getc(c["name"], single))
            rec["nas"], rec["integral"] = nas, okn
            if exp_for_cost is not None and cmp["run_ok"]:
                s, oks = _as_int(scratch_cost(specs[c["metric"]], exp_for_cost, x,
                                              None if rec["full"] else search_names))
                rec["scratch"] = s
                rec["ok"] = oks
                if not oks:
                    rec["err"] = "scratch cost is not an integer below 2^31"
            else:
                rec["err"] = "no exported network to cost"
            oo = open_obs.get(c["name"])
            if oo is not None:
                rec["open_checked"] = True
                rec["open_disc"], rec["open_cont"], rec["orig"] = oo[0][0], oo[1][0], oo[2][0]
        except Exception as e:
            rec["err"] = f"{type(e).__name__}: {str(e)[:100]}"
        tr["cost"].append(rec)
    return tr
