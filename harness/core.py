"""Common machinery of all checks: run context, verdict handling, known findings, evidence."""
from __future__ import annotations

import hashlib
import json
import os
import sys
import time
from pathlib import Path
from typing import Any, Callable, Dict, Iterable, List, Optional

from . import tlc
from .tlc import MachineryError

ROOT = Path(__file__).resolve().parent.parent
# VERIF_OUT_DIR redirects evidence/replays (used only by tools/seedtest.py so that runs against seeded changes
# never overwrite the evidence of the real tree)
_OUT = Path(os.environ["VERIF_OUT_DIR"]) if os.environ.get("VERIF_OUT_DIR") else ROOT
EVIDENCE = _OUT / "evidence"
REPLAYS = _OUT / "replays"
KNOWN = ROOT / "known_findings.json"


def repo_path() -> str:
    return os.environ.get("VERIF_REPO", "/repo")


def use_repo() -> None:
    """Make `import plinio` resolve to the tree under test (current working tree of /repo)."""
    rp = repo_path()
    if rp not in sys.path:
        sys.path.insert(0, rp)
    os.environ.setdefault("PLINIO_VERIF", "1")
    import plinio  # noqa
    got = str(Path(plinio.__file__).resolve())
    if not got.startswith(str(Path(rp).resolve())):
        raise MachineryError(f"plinio imported from {got}, expected under {rp}")


def canon(x: Any) -> str:
    return json.dumps(x, sort_keys=True, separators=(",", ":"), default=str)


def load_known() -> Dict[str, Any]:
    """known_findings.json (read-only). VERIF_KNOWN_EXTRA may name an additional file that is merged in
    (used only while developing a check, never by the registered commands)."""
    kf = {"findings": [], "fixed": []}
    if KNOWN.exists():
        kf = json.loads(KNOWN.read_text())
    extra = os.environ.get("VERIF_KNOWN_EXTRA")
    if extra and Path(extra).exists():
        kf["findings"] = kf.get("findings", []) + json.loads(Path(extra).read_text()).get("findings", [])
    return kf


class Run:
    """One invocation of one check."""

    def __init__(self, pid: str, tier: str, seed: int, level: str = "model_checking"):
        self.pid = pid
        self.tier = tier
        self.seed = seed
        self.level = level
        self.t0 = time.time()
        self.states = 0
        self.transitions = 0
        self.design_runs: List[Dict[str, Any]] = []
        self.traces_validated = 0
        self.evaluations = 0
        self.keys_nontrivial: set = set()
        self.keys_all: set = set()
        self.samples: List[Any] = []
        self.violations: List[Dict[str, Any]] = []
        self.known_hits: Dict[str, int] = {}
        self.known_examples: Dict[str, str] = {}
        self.drift: List[str] = []
        self.outside: Dict[str, int] = {}
        self.notes: List[str] = []
        self.assumptions: List[str] = []
        self.rule = ""
        self.extra: Dict[str, Any] = {}
        self.exhaustive: Optional[bool] = None
        kf = load_known()
        self.known_open = {f["id"]: f for f in kf.get("findings", []) if pid in f.get("properties", [])}

    # ------------------------------------------------------------------ design level
    def design(self, module: str, cfg: str, *, expect_ok: bool = True, require_cov: Iterable[str] = (),
               **kw) -> tlc.TLCResult:
        """Model-check a design configuration.  A design config that fails is a machinery error
        (the specification, not plinio, is what it checks)."""
        res = tlc.run_tlc(module, cfg, **kw)
        self.states += res.distinct
        self.transitions += res.generated
        self.design_runs.append({"module": module, "cfg": cfg, "distinct": res.distinct, "generated": res.generated,
                                 "depth": res.depth, "wall_s": round(res.wall_s, 2), "ok": res.ok})
        if expect_ok and not res.ok:
            v = res.violations[0]
            raise MachineryError(f"design config {module}/{cfg} violates {v['name']}: {json.dumps(v['state'], default=str)[:800]}")
        if not expect_ok and res.ok:
            raise MachineryError(f"design config {module}/{cfg} was expected to exhibit a violation (sanity) but passed")
        for act in require_cov:
            c = res.coverage.get(act)
            if c is None or c[0] == 0:
                raise MachineryError(f"vacuity guard: action {act} never taken in {module}/{cfg}")
        return res

    # ------------------------------------------------------------------ trace level
    def validate(self, module: str, cfg: str, traces: List[Any], scenarios: List[Any], *,
                 nontrivial: Optional[Callable[[Any], bool]] = None, key: Optional[Callable[[Any], Any]] = None,
                 label: str = "", **kw) -> List[str]:
        """Have TLC validate `traces` (one per scenario); classify verdicts."""
        if len(traces) != len(scenarios):
            raise MachineryError("validate: traces/scenarios length mismatch")
        if not traces:
            return []
        verdicts, st = tlc.validate_traces(module, cfg, traces, **kw)
        self.states += st["distinct"]
        self.transitions += st["generated"]
        self.traces_validated += len(traces)
        self.evaluations += len(traces)
        self.design_runs.append({"module": module, "cfg": cfg, "traces": len(traces), "distinct": st["distinct"],
                                 "wall_s": round(st["wall_s"], 2), "label": label})
        for sc, tr, v in zip(scenarios, traces, verdicts):
            k = canon(key(sc) if key else sc)
            h = hashlib.sha1(k.encode()).hexdigest()
            self.keys_all.add(h)
            if nontrivial is None or nontrivial(sc):
                self.keys_nontrivial.add(h)
            if v == "ok":
                continue
            if v.startswith("drift:"):
                if len(self.drift) < 50:
                    self.drift.append(v)
                continue
            if v.startswith("outside:"):
                # the executed scenario left the domain the property quantifies over (decided by the trace spec):
                # nothing is claimed and nothing is reported for it, it is only counted
                self.outside[v[8:120]] = self.outside.get(v[8:120], 0) + 1
                self.keys_nontrivial.discard(h)
                continue
            if v.startswith("known:"):
                fid = v.split(":", 2)[1]
                if fid in self.known_open:
                    self.known_hits[fid] = self.known_hits.get(fid, 0) + 1
                    self.known_examples.setdefault(fid, v.split(":", 2)[2])
                    continue
                # signature of a finding that is not (or no longer) listed as open => violation
                v = f"{v.split(':', 2)[2]} [signature {fid} is not an open known finding]"
            self.violation(v, sc, tr)
        return verdicts

    def violation(self, clause: str, scenario: Any, trace: Any = None) -> None:
        n = len(self.violations)
        path = None
        if n < 8:
            REPLAYS.mkdir(parents=True, exist_ok=True)
            (REPLAYS / self.pid).mkdir(exist_ok=True)
            h = hashlib.sha1(canon(scenario).encode()).hexdigest()[:12]
            path = REPLAYS / self.pid / f"{h}.json"
            path.write_text(json.dumps({"property": self.pid, "clause": clause, "seed": self.seed, "tier": self.tier,
                                        "scenario": scenario, "trace": trace}, indent=1, default=str))
        self.violations.append({"clause": clause, "replay": str(path) if path else None})
        if n < 8:
            print(f"VIOLATION property={self.pid} replay={path}  # {clause[:300]}", flush=True)

    def sample(self, x: Any, maxn: int = 5) -> None:
        if len(self.samples) < maxn:
            self.samples.append(x)

    # ------------------------------------------------------------------ finish
    def finish(self) -> int:
        for fid, n in sorted(self.known_hits.items()):
            f = self.known_open[fid]
            print(f"KNOWN-FINDING: property={self.pid} {fid} {f['what']} (reproduced on {n} scenario(s); e.g. {self.known_examples[fid][:200]})", flush=True)
        for d in self.drift[:10]:
            print(f"SPEC-DRIFT property={self.pid} {d[:300]}", flush=True)
        if len(self.violations) > 8:
            print(f"... {len(self.violations) - 8} further violations of {self.pid} not listed", flush=True)
        cov: Dict[str, Any] = {
            "states": self.states,
            "transitions": self.transitions,
            "traces_validated_against_impl": self.traces_validated,
            "evaluations": max(self.evaluations, 0),
            "distinct_nontrivial": len(self.keys_nontrivial),
            "distinct_scenarios": len(self.keys_all),
            "rule": self.rule,
            "samples": self.samples or ["(no sample recorded)"],
            "tlc_runs": self.design_runs,
            "known_findings_reproduced": self.known_hits,
            "spec_drift": self.drift[:10],
            "outside_property_domain": self.outside,
        }
        if self.exhaustive is not None:
            cov["exhaustive"] = self.exhaustive
        cov.update(self.extra)
        ev = {
            "property_id": self.pid,
            "tier": self.tier,
            "seed": self.seed,
            "level": self.level,
            "coverage": cov,
            "assumptions": self.assumptions,
            "wall_s": round(time.time() - self.t0, 2),
            "violations": len(self.violations),
        }
        EVIDENCE.mkdir(parents=True, exist_ok=True)
        (EVIDENCE / f"{self.pid}.json").write_text(json.dumps(ev, indent=1, default=str) + "\n")
        status = "VIOLATED" if self.violations else "held"
        print(f"[{self.pid}] {status}: tier={self.tier} seed={self.seed} states={self.states} "
              f"traces={self.traces_validated} nontrivial={len(self.keys_nontrivial)} "
              f"known={sum(self.known_hits.values())} wall={ev['wall_s']}s", flush=True)
        return 1 if self.violations else 0
