"""Drivers for C12 (cost depends on the architecture only, is monotone and differentiable).

Two kinds of scenario are executed on the real library and logged for specs/CostDepsTrace.tla:

  "lat"    one state of the mask lattice enumerated by TLC (CostDepsMC): the abstract magnitudes are written
           into a real PIT model built from the abstract architecture (harness/archgen.py); the cost of every
           applicable metric (continuous and discrete) is read at the state and after every Raise step.
  "probe"  the full observation protocol on one real model (PIT / SuperNet / MPS / ODiMO_MPS) and one metric:
           evaluability, finiteness, gradient bits per architectural element, gradients to network
           parameters, invariance under weight perturbation / other inputs, effect of raising single
           elements, component-wise ordered parameter pairs, all-open cost.

Nothing here decides a verdict: every comparison is made by TLC on the logged integers / bits.
plinio is imported lazily (after core.use_repo()).
"""
from __future__ import annotations

import copy
import math
import random
import warnings
from typing import Any, Callable, Dict, List, Optional, Tuple

from . import tlc
from .archgen import GrammarNet, input_shape, lname, norm_arch, randomize, shapes

PIT_METRICS = ["params", "params_no_bias", "ops", "ops_no_bias", "gap8_latency"]
MPS_METRICS = ["params_bit", "ops_bit", "mpic_latency", "mpic_energy", "ne16_latency"]
AFFINE_MPS = {"params_bit", "ops_bit", "mpic_latency", "mpic_energy"}
NO_ARCH = {"dim": 2, "c0": 1, "sp": 1, "nodes": []}
MAXI = 2 ** 30


def _torch():
    import torch
    return torch


def cost_specs() -> Dict[str, Any]:
    import plinio.cost as pc
    return {n: getattr(pc, n) for n in PIT_METRICS + MPS_METRICS + ["diana_latency"]}


def pit_applicable(metric: str, arch) -> bool:
    # gap8_latency has no Conv1d model (such layers cost 0) but it models the Linear layers of a 1-D network
    return metric in PIT_METRICS


def model_unit(metric: str, arch) -> int:
    """CostDeps!Unit: channels in 1/10, 1-D kernels in 1/2400 (TLC checks the logged unit against the spec)."""
    return 10 if metric == "gap8_latency" else 100 * (2400 if arch["dim"] == 1 else 1)


def _finite(v: float) -> bool:
    return v == v and abs(v) != float("inf")


# ======================================================================================================
# lattice states on real PIT models
# ======================================================================================================
def _build_pit(arch, seed: int, metrics: List[str], *, single: Optional[str] = None, flags=None, train_mode=True):
    """float64 GrammarNet + PIT wrapper (mask parameters are float32 in plinio regardless)."""
    from . import pitdrv
    specs = cost_specs()
    cost = specs[single] if single else {m: specs[m] for m in metrics}
    ref, pit, x = pitdrv.build(arch, fold_bn=False, seed=seed, cost=cost, discrete_cost=False, train_mode=train_mode)
    if flags:
        pit.train_features = bool(flags["features"])
        pit.train_rf = bool(flags["rf"])
        pit.train_dilation = bool(flags["dilation"])
    return ref, pit, x


def _pit_cost(pit, metric: str, disc: bool, single: bool):
    pit.discrete_cost = disc
    return pit.cost if single else pit.get_cost(metric)


def _param_of(pit, arch, k: str, n: int):
    from . import pitdrv
    ly = pitdrv.layer(pit, pitdrv.owner(arch, n))
    if k == "a":
        return ly.out_features_masker.alpha
    if k == "b":
        return ly.timestep_masker.beta
    return ly.dilation_masker.gamma


def _write_abs(pit, arch, k: str, n: int, i: int, v: int, rng: random.Random) -> None:
    """|element| := v/10 with a random sign (the masks take absolute values)."""
    torch = _torch()
    p = _param_of(pit, arch, k, n)
    with torch.no_grad():
        p[i - 1] = (v / 10.0) * rng.choice([1.0, -1.0])


def _is_param(t) -> bool:
    import torch.nn as nn
    return isinstance(t, nn.Parameter)


_LAT_CACHE: Dict[str, Any] = {}


def run_lat(sc: Dict[str, Any]) -> Dict[str, Any]:
    """scenario: {"kind": "lat", "arch", "A": {"th": {n: [..]}, "tb": {..}, "tg": {..}}, "succ": [[k, n, i, v], ..], "seed"}"""
    from . import pitdrv, pitscn
    torch = _torch()
    arch = norm_arch(sc["arch"])
    rng = random.Random(sc.get("seed", 0))
    metrics = [m for m in PIT_METRICS if pit_applicable(m, arch)]
    # one real model per architecture and worker process: every free mask element is (re)written below, so a
    # model left behind by the previous lattice state of the same architecture is as good as a fresh one
    import json as _json
    ck = _json.dumps(arch, sort_keys=True) + "|" + str(sc.get("seed", 0))
    if ck not in _LAT_CACHE:
        _LAT_CACHE.clear()
        _LAT_CACHE[ck] = _build_pit(arch, sc.get("seed", 0), metrics)
    ref, pit, x = _LAT_CACHE[ck]
    specs = cost_specs()
    A = sc["A"]
    search = pitdrv.searchable_nodes(arch)
    L = []
    for n in search:
        ly = pitdrv.layer(pit, pitdrv.owner(arch, n))
        rec = {"n": n, "al": [], "b": [], "g": []}
        fm = ly.out_features_masker
        if _is_param(fm.alpha):
            vals = [int(v) for v in A["th"][str(n)]]
            for i, v in enumerate(vals, start=1):
                _write_abs(pit, arch, "a", n, i, v, rng)
            rec["al"] = vals
        else:       # width fixed by the network input / output: constant mask, read off the real object
            rec["al"] = [int(round(abs(float(v)) * 10)) for v in fm.theta.detach().tolist()]
        if hasattr(ly, "timestep_masker"):
            for k, key, mk in (("b", "tb", ly.timestep_masker), ("g", "tg", ly.dilation_masker)):
                par = mk.beta if k == "b" else mk.gamma
                if _is_param(par):
                    vals = [int(v) for v in A[key][str(n)]]
                    for i, v in enumerate(vals, start=1):
                        _write_abs(pit, arch, k, n, i, v, rng)
                    rec[k] = vals
                else:
                    rec[k] = [int(round(abs(float(v)) * 10)) for v in par.detach().tolist()]
        L.append(rec)

    els = [e for e in pit_elements(pit, arch)]
    flat = [(e, idx) for e in els for idx in range(e[2].numel())]
    targets = [e[2] for e in els if e[2].requires_grad]

    def observe(with_grad: bool):
        out = []
        for m in metrics:
            for d in (False, True):
                u = model_unit(m, arch)
                try:
                    ct = _pit_cost(pit, m, d, False)
                    c = float(ct.detach())
                    ok = _finite(c) and abs(c) * u < MAXI
                    rec = {"m": m, "d": d, "u": u, "c": int(round(c * u)) if ok else -1, "ok": ok, "nz": [], "gfin": True}
                    if with_grad:        # gradient bits of this metric at this lattice state, one per parameter entry
                        gs = {}
                        if ct.requires_grad and targets:
                            gs = {id(p): g for p, g in zip(targets, torch.autograd.grad(ct, targets, allow_unused=True))}
                        for e, idx in flat:
                            g = gs.get(id(e[2]))
                            gv = None if g is None else g.reshape(-1)[idx]
                            rec["nz"].append(False if gv is None else bool(gv != 0))
                            if gv is not None and not bool(torch.isfinite(gv)):
                                rec["gfin"] = False
                    out.append(rec)
                except Exception as e:           # the cost cannot even be evaluated
                    out.append({"m": m, "d": d, "u": u, "c": -1, "ok": False, "nz": [False] * (len(flat) if with_grad else 0),
                                "gfin": True, "err": f"{type(e).__name__}: {str(e)[:80]}"})
        return out

    tr: Dict[str, Any] = {"kind": "lat", "arch": arch, "L": L, "obs": observe(True), "orig": [], "succ": [],
                          "els": [{"k": e[0], "n": int(e[1]), "i": idx + 1, "tr": bool(e[2].requires_grad),
                                   "v": int(round(abs(float(e[2].detach().reshape(-1)[idx])) * 10))} for e, idx in flat]}
    names = {"layers." + lname(pitdrv.owner(arch, n)) for n in search}
    if ck + "|orig" not in _LAT_CACHE:
        orig = []
        for m in metrics:
            try:
                o = float(pitscn.scratch_cost(specs[m], ref.eval(), x, names))
                ok = _finite(o) and abs(o) < MAXI and o == round(o)
                orig.append({"m": m, "c": int(round(o)) if ok else -1, "ok": ok})
            except Exception:
                orig.append({"m": m, "c": -1, "ok": False})
        _LAT_CACHE[ck + "|orig"] = orig
    tr["orig"] = copy.deepcopy(_LAT_CACHE[ck + "|orig"])
    for k, n, i, v in sc.get("succ", []):
        p = _param_of(pit, arch, k, n)
        old = float(p.detach()[i - 1])
        _write_abs(pit, arch, k, n, i, v, rng)
        tr["succ"].append({"e": [k, n, i], "v": int(v), "obs": observe(False)})
        with torch.no_grad():
            p[i - 1] = old
    return tr


# ======================================================================================================
# probes
# ======================================================================================================
class Ctx:
    """One real DNAS model under the probe protocol."""
    method = "?"
    needs_fwd = False

    def __init__(self):
        self.model = None
        self.xs: List[Any] = []
        self.arch = NO_ARCH
        self.flags = {"features": True, "rf": True, "dilation": True}
        self.single: Optional[str] = None

    def forward(self, j: int = 0) -> None:
        torch = _torch()
        with warnings.catch_warnings():
            warnings.simplefilter("ignore")
            self.model(self.xs[j % len(self.xs)])

    def cost(self, metric: str):
        if self.single:
            return self.model.cost
        return self.model.get_cost(metric)

    def cost_float(self, metric: str, fwd_j: Optional[int] = 0) -> float:
        """Public path: (forward to refresh the sampled coefficients,) then read the cost."""
        if self.needs_fwd and fwd_j is not None:
            self.forward(fwd_j)
        return float(self.cost(metric).detach())

    # [(kind, n, param, keepalive-bits or None, affine?, layer kind)]
    def elements(self) -> List[Tuple[str, int, Any, Optional[List[int]], bool, str]]:
        raise NotImplementedError

    def raise_elem(self, p, idx: int) -> None:
        raise NotImplementedError

    def onehot(self, p, idx: int) -> None:
        raise NotImplementedError


def pit_elements(pit, arch):
    """Trainable-parameter entries of a real PIT model: (kind, first call site, parameter, keep-alive bits, False, "").
    A shared channel mask is listed once, at the first (smallest) searchable call site that uses it."""
    from . import pitdrv
    out, seen = [], set()
    for n in pitdrv.searchable_nodes(arch):
        if pitdrv.owner(arch, n) != n:          # a further call site of a layer object already listed
            continue
        ly = pitdrv.layer(pit, n)
        cands = [("a", getattr(ly, "out_features_masker", None), "alpha")]
        if hasattr(ly, "timestep_masker"):
            cands += [("b", ly.timestep_masker, "beta"), ("g", ly.dilation_masker, "gamma")]
        for k, mk, attr in cands:
            if mk is None:
                continue
            p = mk._parameters.get(attr)
            if p is None or id(p) in seen:
                continue
            seen.add(id(p))
            ka = [int(v) for v in mk._keep_alive.detach().tolist()] if hasattr(mk, "_keep_alive") else None
            out.append((k, n, p, ka, False, ""))
    for _, p in pit.named_nas_parameters():        # anything plinio reports that the walk did not find
        if id(p) not in seen:
            seen.add(id(p))
            out.append(("u", 0, p, None, False, ""))
    return out


class PitCtx(Ctx):
    method = "pit"

    def __init__(self, sc):
        super().__init__()
        torch = _torch()
        self.arch = norm_arch(sc["arch"])
        self.single = sc["metric"] if sc.get("single") else None
        self.flags = dict(sc.get("flags") or self.flags)
        metrics = [m for m in PIT_METRICS if pit_applicable(m, self.arch)]
        self.ref, self.model, x = _build_pit(self.arch, sc["seed"], metrics, single=self.single, flags=self.flags)
        g = torch.Generator().manual_seed(sc["seed"] + 11)
        self.xs = [x, torch.rand(x.shape, generator=g) * 3 - 1, torch.randn((2,) + tuple(x.shape[1:]), generator=g)]
        self.disc = bool(sc["disc"])
        self.model.discrete_cost = self.disc
        # random real magnitudes, away from 0 (|x|' = 0 there) and from the binarisation threshold
        rng = random.Random(sc["seed"] * 31 + 5)
        with torch.no_grad():
            for _, p in self.model.named_nas_parameters():
                for i in range(p.numel()):
                    # where a search may be after some epochs: below / just above the threshold, at the initial 1, beyond 1
                    v = rng.choice([rng.uniform(0.05, 0.44), 0.3, rng.uniform(0.56, 0.95), 0.6, 1.0, rng.uniform(1.05, 1.8), 1.5])
                    p.view(-1)[i] = v * rng.choice([1.0, -1.0])

    def elements(self):
        return pit_elements(self.model, self.arch)

    def raise_elem(self, p, idx):
        torch = _torch()
        with torch.no_grad():
            v = float(p.view(-1)[idx])
            p.view(-1)[idx] = (abs(v) + 0.6) * (-1.0 if v < 0 else 1.0)


def _layer_kind(layer) -> str:
    """lin | 1x1 | 3x3 | dw | kxk - read off the real layer object (used by the signature of finding F46)."""
    import torch.nn as nn
    if isinstance(layer, nn.Linear):
        return "lin"
    ks = tuple(getattr(layer, "kernel_size", ()))
    if getattr(layer, "groups", 1) != 1:
        return "dw"
    if ks and all(k == 1 for k in ks):
        return "1x1"
    if ks and all(k == 3 for k in ks):
        return "3x3"
    return "kxk"


def _mps_like_elements(model, MPSModule, per_layer_cls, per_channel_cls, affine_ok: bool):
    out, seen = [], set()
    dp = 0
    for lname_, _, layer in model._unique_leaf_modules:
        if not isinstance(layer, MPSModule):
            continue
        for attr, kind in (("w_mps_quantizer", "w"), ("out_mps_quantizer", "x"), ("in_mps_quantizer", "x")):
            q = getattr(layer, attr, None)
            if q is None or not isinstance(q, (per_layer_cls, per_channel_cls)):
                continue
            p = q._parameters.get("alpha")
            if p is None or id(p) in seen:
                continue
            seen.add(id(p))
            dp += 1
            out.append((kind, dp, p, None, bool(affine_ok and kind == "w" and isinstance(q, per_layer_cls)),
                        _layer_kind(layer) if kind == "w" else ""))
    for _, p in model.named_nas_parameters():
        if id(p) not in seen:                 # clip values etc. of the quantisers: reported as NAS parameters by plinio
            seen.add(id(p))
            dp += 1
            out.append(("q", dp, p, None, False, ""))
    return out


class MpsCtx(Ctx):
    method = "mps"
    needs_fwd = True

    def __init__(self, sc):
        super().__init__()
        torch = _torch()
        from plinio.methods.mps import MPS, MPSType, get_default_qinfo
        arch = norm_arch(sc["arch"])
        self.net_arch = arch
        torch.set_default_dtype(torch.float32)
        gen = torch.Generator().manual_seed(sc["seed"])
        net = GrammarNet(arch)
        specs = cost_specs()
        self.single = sc["metric"] if sc.get("single") else None
        cost = specs[self.single] if self.single else {m: specs[m] for m in sc["metrics"]}
        wt = MPSType.PER_CHANNEL if sc["w"] == "channel" else MPSType.PER_LAYER
        net.train()
        with warnings.catch_warnings():
            warnings.simplefilter("ignore")
            self.model = self._construct(sc, net, cost, wt, get_default_qinfo)
        self.model.train()
        x = torch.rand((2,) + input_shape(arch), generator=gen)
        self.xs = [x, torch.rand(x.shape, generator=gen) * 2 - 0.5, torch.randn((3,) + tuple(x.shape[1:]), generator=gen)]
        self.metric = sc["metric"]
        with torch.no_grad():
            for _, p in self.model.named_nas_parameters():
                if p.dim() >= 1 and p.numel() > 1:
                    p.copy_(torch.randn(p.shape, generator=gen) * 0.7)

    def _construct(self, sc, net, cost, wt, get_default_qinfo):
        from plinio.methods.mps import MPS
        return MPS(net, cost=cost, input_shape=input_shape(self.net_arch), w_search_type=wt,
                   qinfo=get_default_qinfo(w_precision=tuple(sc["wp"]), a_precision=tuple(sc["ap"])))

    def elements(self):
        from plinio.methods.mps.nn.module import MPSModule
        from plinio.methods.mps.nn.qtz import MPSPerLayerQtz, MPSPerChannelQtz
        return _mps_like_elements(self.model, MPSModule, MPSPerLayerQtz, MPSPerChannelQtz,
                                  self.method == "mps" and self.metric in AFFINE_MPS)

    def raise_elem(self, p, idx):
        torch = _torch()
        with torch.no_grad():
            p.view(-1)[idx] += 1.5

    def onehot(self, p, idx):
        torch = _torch()
        with torch.no_grad():
            p.view(-1)[idx] = float(p.max()) + 40.0


class OdimoCtx(MpsCtx):
    method = "odimo"

    def _construct(self, sc, net, cost, wt, _unused):
        from plinio.methods.odimo_mps import ODiMO_MPS
        from plinio.methods.odimo_mps.odimo_mps import get_default_qinfo
        kw = {}
        if not sc.get("default_cost", False):
            kw["cost"] = cost
        return ODiMO_MPS(net, input_shape=input_shape(self.net_arch),
                         qinfo=get_default_qinfo(w_precision=tuple(sc["wp"]), a_precision=tuple(sc["ap"])), **kw)

    def cost(self, metric):
        if self.single or getattr(self, "_default", False):
            return self.model.cost
        return self.model.get_cost(metric)

    def __init__(self, sc):
        self._default = bool(sc.get("default_cost", False))
        super().__init__(sc)


class SnCtx(Ctx):
    method = "sn"
    needs_fwd = True

    def __init__(self, sc):
        super().__init__()
        torch = _torch()
        from . import sn_gen
        from plinio.methods import SuperNet
        torch.set_default_dtype(torch.float32)
        net = dict(sc["net"])
        user, x = sn_gen.build(net, sc["seed"])
        specs = cost_specs()
        self.single = sc["metric"] if sc.get("single") else None
        cost = specs[self.single] if self.single else {m: specs[m] for m in sc["metrics"]}
        user.train()
        with warnings.catch_warnings():
            warnings.simplefilter("ignore")
            self.model = SuperNet(user, cost=cost, input_example=x[:1], full_cost=bool(sc.get("full", False)))
        self.model.train()
        g = torch.Generator().manual_seed(sc["seed"] + 3)
        self.xs = [x, torch.randn(x.shape, generator=g) * 2, torch.rand((3,) + tuple(x.shape[1:]), generator=g)]
        with torch.no_grad():
            for _, p in self.model.named_nas_parameters():
                p.copy_(torch.randn(p.shape, generator=g) * 0.8)

    def elements(self):
        from plinio.methods.supernet.nn.combiner import SuperNetCombiner
        out, seen, dp = [], set(), 0
        for _, mod in self.model.seed.named_modules():
            if isinstance(mod, SuperNetCombiner) and id(mod.alpha) not in seen:
                seen.add(id(mod.alpha))
                dp += 1
                out.append(("sn", dp, mod.alpha, None, True, ""))
        for _, p in self.model.named_nas_parameters():
            if id(p) not in seen:
                seen.add(id(p))
                dp += 1
                out.append(("u", dp, p, None, False, ""))
        return out

    raise_elem = MpsCtx.raise_elem
    onehot = MpsCtx.onehot


def _err_kind(e: Exception) -> str:
    s = f"{type(e).__name__}: {e}"
    if "1D tensors expected" in s or "torch.dot" in s or "dot" in s and "1D" in s:
        return "dot"
    if isinstance(e, KeyError) and "a_precision" in s:
        return "a_precision"
    if isinstance(e, TypeError) and "floor()" in s and "must be Tensor" in s:
        return "floor"
    if isinstance(e, AssertionError) and ("MPIC model defined only" in s or "only supports 8-bit quantization for the activations" in s):
        return "assert_prec"
    return "other"


def run_probe(sc: Dict[str, Any]) -> Dict[str, Any]:
    torch = _torch()
    method = sc["method"]
    metric = sc["metric"]
    tr: Dict[str, Any] = {"kind": "probe", "method": method, "metric": metric, "single": bool(sc.get("single")),
                          "disc": bool(sc.get("disc", False)), "arch": NO_ARCH,
                          "flags": {"features": True, "rf": True, "dilation": True},
                          "ev": {"ok": False, "errk": "none", "err": ""}, "k10": 0, "c": -1, "fin": False,
                          "ng": {"none": 0, "zero": 0, "nonzero": 0, "nonfinite": 0}, "pert": [], "inp": [], "E": [],
                          "pairs": [], "open": {"chk": False, "c": -1, "orig": -1}, "skip": "", "minprec": 99,
                          "dep": bool(sc.get("dep", False))}
    try:
        ctx: Ctx = {"pit": PitCtx, "mps": MpsCtx, "odimo": OdimoCtx, "sn": SnCtx}[method](sc)
    except Exception as e:
        tr["skip"] = f"construction failed: {type(e).__name__}: {str(e)[:120]}"
        return tr
    finally:
        torch.set_default_dtype(torch.float32)
    rng = random.Random(sc["seed"] * 17 + 1)
    if method in ("mps", "odimo"):          # smallest activation precision any MPS layer is told about its input (observed)
        precs = [float(v) for _, _, ly in ctx.model._unique_leaf_modules if hasattr(ly, "in_mps_quantizer") and hasattr(ly, "w_mps_quantizer")
                 for v in ly.in_mps_quantizer.precision.tolist()]
        tr["minprec"] = int(min(precs)) if precs else 99
    tr["arch"] = ctx.arch
    tr["flags"] = ctx.flags
    model = ctx.model
    # make every network parameter a candidate for a gradient
    for p in model.net_parameters():
        p.requires_grad_(True)
    floats: Dict[str, Any] = {}

    # ---- 1. evaluate (public path: forward in training mode, then read the cost)
    try:
        if ctx.needs_fwd:
            ctx.forward(0)
        c = ctx.cost(metric)
        tr["ev"]["ok"] = True
    except AssertionError as e:
        msg = str(e)
        # kernel shapes NE16 does not model are a documented restriction; the PRECISION assertions are not: every
        # scenario configures precisions inside the declared sets (MPIC: a in {2,4,8}, w in {0,2,4,8}; NE16: a = 8)
        if "NE16 model only supports" in msg and "convolutions" in msg:
            tr["skip"] = "documented restriction of the cost model: " + msg[:80]
            return tr
        tr["ev"].update(errk=_err_kind(e), err=f"{type(e).__name__}: {msg[:100]}")
        return tr
    except Exception as e:
        tr["ev"].update(errk=_err_kind(e), err=f"{type(e).__name__}: {str(e)[:100]}")
        return tr
    c0 = float(c.detach())
    tr["fin"] = _finite(c0)
    floats["c"] = c0
    if not tr["fin"]:
        tr["c"] = 0
        return tr

    # ---- 2. gradients
    els = ctx.elements()
    nas_ids = {id(e[2]) for e in els}
    netp = [p for p in model.net_parameters() if id(p) not in nas_ids]
    targets = [e[2] for e in els if e[2].requires_grad] + [p for p in netp if p.requires_grad]
    grads: Dict[int, Any] = {}
    if c.requires_grad and targets:
        gs = torch.autograd.grad(c, targets, allow_unused=True)
        grads = {id(p): g for p, g in zip(targets, gs)}
    for p in netp:
        g = grads.get(id(p))
        if g is None:
            tr["ng"]["none"] += 1
        elif not bool(torch.isfinite(g).all()):
            tr["ng"]["nonfinite"] += 1
        elif bool((g != 0).any()):
            tr["ng"]["nonzero"] += 1
        else:
            tr["ng"]["zero"] += 1

    # ---- 3. per-element bits, effect of raising single elements, one-hot candidates
    budget = int(sc.get("cu_budget", 40))
    flat: List[Tuple[int, int]] = []
    for ei, e_ in enumerate(els):
        for idx in range(e_[2].numel()):
            flat.append((ei, idx))
    measure = set(range(len(flat))) if len(flat) <= budget else set(rng.sample(range(len(flat)), budget))
    floats["cu"], floats["ck"] = {}, {}
    for fi, (ei, idx) in enumerate(flat):
        k, n, p, ka, aff, lk = els[ei]
        g = grads.get(id(p))
        gv = None if g is None else g.reshape(-1)[idx]
        rec = {"k": k, "n": int(n), "i": idx + 1, "tr": bool(p.requires_grad), "ka": bool(ka[idx]) if ka and p.dim() == 1 else False,
               "hg": g is not None, "fin": True if gv is None else bool(torch.isfinite(gv)),
               "nz": False if gv is None else bool(gv != 0), "cu": -1, "ck": -1, "aff": bool(aff), "lk": lk}
        if fi in measure and k in ("a", "b", "g", "w", "sn"):
            old = p.detach().clone()
            try:
                ctx.raise_elem(p, idx)
                floats["cu"][fi] = ctx.cost_float(metric)
                if aff:
                    with torch.no_grad():
                        p.copy_(old)
                    ctx.onehot(p, idx)
                    floats["ck"][fi] = ctx.cost_float(metric)
            except Exception:
                pass
            finally:
                with torch.no_grad():
                    p.copy_(old)
        tr["E"].append(rec)
    if ctx.needs_fwd:
        ctx.forward(0)

    # ---- 4. weights and inputs are not arguments of the cost
    floats["pert"], floats["inp"] = [], []
    g = torch.Generator().manual_seed(sc["seed"] + 99)
    for _ in range(2):
        with torch.no_grad():
            for p in netp:
                p.add_(torch.randn(p.shape, generator=g).to(p.dtype) * 0.3 + 0.05)
        floats["pert"].append(ctx.cost_float(metric))
    for j in (1, 2):
        if not ctx.needs_fwd:
            ctx.forward(j)
        floats["inp"].append(ctx.cost_float(metric, fwd_j=j))

    # ---- 5. PIT: component-wise ordered parameter vectors, all masks open
    floats["pairs"] = []
    if method == "pit":
        mask_els = [(e[0], e[1], e[2]) for e in els if e[0] in ("a", "b", "g")]

        def vec():
            return [int(round(abs(float(v)) * 10000)) for _, _, p in mask_els for v in p.detach().reshape(-1).tolist()]
        saved = [p.detach().clone() for _, _, p in mask_els]
        for _ in range(int(sc.get("n_pairs", 4))):
            lo = vec()
            clo = ctx.cost_float(metric)
            frac = rng.choice([0.15, 0.4, 0.8])
            with torch.no_grad():
                for _, _, p in mask_els:
                    for i in range(p.numel()):
                        if rng.random() < frac:
                            v = float(p.view(-1)[i])
                            nv = abs(v) + rng.choice([0.02, 0.2, 0.6, 1.5])
                            p.view(-1)[i] = nv * rng.choice([1.0, -1.0])
            hi = vec()
            floats["pairs"].append((lo, hi, clo, ctx.cost_float(metric)))     # the next pair continues from hi (a chain)
        with torch.no_grad():
            for _, _, p in mask_els:
                p.fill_(1.0)
        try:
            from . import pitdrv, pitscn
            names = {"layers." + lname(pitdrv.owner(ctx.arch, n)) for n in pitdrv.searchable_nodes(ctx.arch)}
            floats["open"] = (ctx.cost_float(metric),
                              float(pitscn.scratch_cost(cost_specs()[metric], ctx.ref.eval(), ctx.xs[0], names)))
        except Exception:
            pass
        with torch.no_grad():
            for (_, _, p), s in zip(mask_els, saved):
                p.copy_(s)

    # ---- 6. one common decimal scale for every cost of this trace
    allv = [floats["c"]] + list(floats["cu"].values()) + list(floats["ck"].values()) + floats["pert"] + floats["inp"] \
        + [v for pr in floats["pairs"] for v in pr[2:]] + list(floats.get("open", ()))
    if not all(_finite(v) for v in allv):
        tr["fin"] = False
        tr["c"] = 0
        return tr
    mx = max(abs(v) for v in allv)
    k10 = 0 if mx == 0 else int(math.floor(math.log10(4.9e8 / mx)))
    sc10 = 10.0 ** k10

    def q(v: float) -> int:
        return int(round(v * sc10))
    tr["k10"] = k10
    tr["c"] = q(floats["c"])
    for fi, v in floats["cu"].items():
        tr["E"][fi]["cu"] = max(q(v), 0)
    for fi, v in floats["ck"].items():
        tr["E"][fi]["ck"] = max(q(v), 0)
    tr["pert"] = [q(v) for v in floats["pert"]]
    tr["inp"] = [q(v) for v in floats["inp"]]
    tr["pairs"] = [{"lo": lo, "hi": hi, "clo": q(a), "chi": q(b)} for lo, hi, a, b in floats["pairs"]]
    if "open" in floats:
        tr["open"] = {"chk": True, "c": q(floats["open"][0]), "orig": q(floats["open"][1])}
    return tr


# ======================================================================================================
# histories: the cost after a sequence of calls (switches, modes, forward, export, summary)
# ======================================================================================================
HIST_ARCH = {"dim": 1, "c0": 2, "sp": 8, "nodes": [
    {"op": "conv", "ins": [0], "out": 4, "k": 5, "causal": True}, {"op": "relu", "ins": [1]},
    {"op": "conv", "ins": [2], "dw": True, "k": 3, "causal": True},        # depthwise: its cost FUNCTION is picked by a constraint
    {"op": "conv", "ins": [3], "out": 3, "k": 3, "causal": True, "bias": False}, {"op": "flat", "ins": [4]},
    {"op": "lin", "ins": [5], "out": 2}]}
_HIST_CACHE: Dict[str, Any] = {}


def _hist_model(method: str, variant: str, seed: int):
    """(model, input, nas parameters, value sets) - one per worker process; every history starts from reset()."""
    torch = _torch()
    key = f"{method}|{variant}|{seed}"
    if key in _HIST_CACHE:
        return _HIST_CACHE[key]
    _HIST_CACHE.clear()
    specs = cost_specs()
    g = torch.Generator().manual_seed(seed + 5)
    if method == "pit":
        ref, model, x = _build_pit(norm_arch(HIST_ARCH), seed, ["ops", "params"])
        torch.set_default_dtype(torch.float32)
        metric = "ops"
    elif method == "mps":
        import torch.nn as nn
        from plinio.methods.mps import MPS, MPSType, get_default_qinfo
        torch.set_default_dtype(torch.float32)

        class Net(nn.Module):
            def __init__(self):
                super().__init__()
                self.c1 = nn.Conv2d(2, 4, 3, padding=1)
                self.c2 = nn.Conv2d(4, 3, 3, padding=1)
                self.pool = nn.AdaptiveAvgPool2d(1)
                self.fc = nn.Linear(3, 2)

            def forward(self, x):
                x = torch.relu(self.c2(torch.relu(self.c1(x))))
                return self.fc(torch.flatten(self.pool(x), 1))
        net = Net().train()
        with warnings.catch_warnings():
            warnings.simplefilter("ignore")
            model = MPS(net, cost={"params_bit": specs["params_bit"], "ops_bit": specs["ops_bit"]}, input_shape=(2, 6, 6),
                        w_search_type=MPSType.PER_CHANNEL if variant == "channel" else MPSType.PER_LAYER,
                        qinfo=get_default_qinfo(w_precision=(0, 2, 4, 8) if variant == "channel" else (2, 4, 8), a_precision=(4, 8)))
        x = torch.rand((2, 2, 6, 6), generator=g)
        metric = "ops_bit"
    else:
        from . import sn_gen
        from plinio.methods import SuperNet
        torch.set_default_dtype(torch.float32)
        net = {"C": 3, "hw": 4, "gumbel": False, "hard0": False, "blocks": [{"kinds": ["layer", "seq", "id"], "uses": 1, "pool": False, "nest": False},
                                                                              {"kinds": ["layer", "layer", "ubm"], "uses": 2, "pool": False, "nest": False}]}
        user, x = sn_gen.build(net, seed)
        user.train()
        with warnings.catch_warnings():
            warnings.simplefilter("ignore")
            model = SuperNet(user, cost={"params": specs["params"], "ops": specs["ops"]}, input_example=x[:1])
        metric = "ops"
    nas = [p for _, p in model.named_nas_parameters() if p.numel() > 1 or method == "pit"]
    vals = []
    for ver in range(6):          # the parameter values of version `ver` ("after some optimiser steps"): non-trivial, nothing at 0 / 1
        gv = torch.Generator().manual_seed(seed * 97 + ver)
        if method == "pit":
            vals.append([(torch.rand(p.shape, generator=gv) * 1.5 + 0.1) * (torch.randint(0, 2, p.shape, generator=gv) * 2 - 1) for p in nas])
        else:
            vals.append([torch.randn(p.shape, generator=gv) * 0.8 for p in nas])
    _HIST_CACHE[key] = (model, x, nas, vals, metric)
    return _HIST_CACHE[key]


def run_hist(sc: Dict[str, Any]) -> Dict[str, Any]:
    """scenario: {"kind": "hist", "method", "variant", "hist": [[a, b], ..], "seed"}"""
    torch = _torch()
    method = sc["method"]
    model, x, nas, vals, metric = _hist_model(method, sc.get("variant", ""), sc.get("seed", 0))

    def write(ver):
        with torch.no_grad():
            for p, v in zip(nas, vals[ver % len(vals)]):
                p.copy_(v.to(p.dtype))

    def fwd():
        with warnings.catch_warnings():
            warnings.simplefilter("ignore")
            model(x)
    # ---- the initial state of every history: all switches on, training mode, values of version 0, one training forward
    model.train()
    model.train_net_and_nas()
    if method == "pit":
        model.train_features, model.train_rf, model.train_dilation = True, True, True
    if method == "sn":
        model.train_selection = True
    write(0)
    fwd()
    floats: List[List[Tuple[bool, float]]] = []

    def reads():
        out = []
        for d in ((False, True) if method == "pit" else (False,)):
            try:
                if method == "pit":
                    model.discrete_cost = d
                out.append((d, float(model.get_cost(metric).detach())))
            except Exception:
                out.append((d, float("nan")))
        if method == "pit":
            model.discrete_cost = False
        return out
    ev = [{"a": "init", "b": "", "ok": True, "err": ""}]
    floats.append(reads())
    ver = 0
    for a, b in sc["hist"]:
        rec = {"a": a, "b": b, "ok": True, "err": ""}
        try:
            if a == "set":
                ver += 1
                write(ver)
            elif a == "mode":
                model.train(b == "train")
            elif a == "fwd":
                fwd()
            elif a == "export":
                with warnings.catch_warnings():
                    warnings.simplefilter("ignore")
                    model.export()
            elif a == "summary":
                model.summary()
            elif a == "net_only":
                model.train_net_only()
            elif a == "nas_only":
                model.train_nas_only()
            elif a == "net_and_nas":
                model.train_net_and_nas()
            elif a == "feat":
                if method == "pit":
                    model.train_features = (b == "on")
                else:
                    model.train_selection = (b == "on")
            elif a == "rf":
                model.train_rf = (b == "on")
            elif a == "dil":
                model.train_dilation = (b == "on")
            elif a == "respec":          # the cost specification is assigned again (same metrics, a new dictionary)
                model.cost_specification = dict(model.cost_specification)
            else:
                raise tlc.MachineryError("unknown history action " + a)
        except tlc.MachineryError:
            raise
        except Exception as e:          # a call that raises ends the history (whether it may raise is not C12's business)
            rec.update(ok=False, err=f"{type(e).__name__}: {str(e)[:80]}")
            ev.append(rec)
            floats.append([])
            break
        ev.append(rec)
        floats.append(reads())
    allv = [v for rs in floats for _, v in rs]
    fin = all(_finite(v) for v in allv)
    mx = max([abs(v) for v in allv if _finite(v)] + [0.0])
    k10 = 0 if mx == 0 else int(math.floor(math.log10(4.9e8 / mx)))
    for rec, rs in zip(ev, floats):
        rec["reads"] = [{"d": d, "c": int(round(v * 10.0 ** k10)) if _finite(v) else -1, "ok": _finite(v)} for d, v in rs]
    return {"kind": "hist", "method": method, "variant": sc.get("variant", ""), "metric": metric, "k10": k10, "fin": fin, "ev": ev}


def run(sc: Dict[str, Any]) -> Dict[str, Any]:
    _torch().manual_seed(1000003 * int(sc.get("seed", 0)) + 7)       # nothing may depend on which worker ran what before
    if sc["kind"] == "lat":
        return run_lat(sc)
    if sc["kind"] == "hist":
        return run_hist(sc)
    return run_probe(sc)


# ======================================================================================================
# parallel execution
# ======================================================================================================
def _init_worker():
    import torch
    torch.set_num_threads(1)


def _run_one(sc):
    from .core import use_repo
    use_repo()
    try:
        return run(sc)
    except Exception:
        import json
        import traceback
        raise tlc.MachineryError("harness crashed on scenario " + json.dumps(sc, default=str)[:3000] + "\n"
                                 + traceback.format_exc(limit=8)) from None


def run_all(scs: List[Dict[str, Any]], procs: int = 8) -> List[Dict[str, Any]]:
    if not scs:
        return []
    if len(scs) < 4 or procs <= 1:
        _init_worker()
        return [_run_one(s) for s in scs]
    import multiprocessing as mp
    from concurrent.futures import ProcessPoolExecutor
    ctx = mp.get_context("fork")
    with ProcessPoolExecutor(max_workers=procs, mp_context=ctx, initializer=_init_worker) as ex:
        return list(ex.map(_run_one, scs, chunksize=max(1, len(scs) // (procs * 6))))
