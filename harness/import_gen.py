"""C07 - build, convert, observe: abstract import scenario (specs/ImportLife.tla)  ->  ImportLifeTrace record.

Abstract architecture = the node sequence of specs/FeatGraph.tla (see harness/archgen.py) extended by
    arch["two"]  : "no" | "add" | "cat"     two-input forward: tensor 0 = xa + xb  /  cat(xa, xb) on channels
    arch["ca"]   : channels of xa when two = "cat" (xb has c0 - ca)
    node["pl"]   : the conv / linear layer is a PIT layer placed BY THE USER (PITConv1d/PITConv2d/PITLinear built by
                   hand as the PIT README describes, with its own maskers; fold_bn of the layer = fold_bn of PIT(...))
    node["sn"]   : [] or a list of branch descriptors {"k": int, "bn": bool}: the conv node is a SuperNetModule whose
                   branch i is conv(kernel k_i) [+ BatchNorm]; all branches have the node's in/out channels and bias
    node["eps"], node["mom"] : 0|1 codes of the BatchNorm hyper-parameters (1e-5 | 1e-3, 0.1 | 0.05)
scenario = {"arch", "method": "PIT"|"SN"|"MPS", "mode": "train"|"eval", "fold": bool, "auto": bool, "seed": int}

Everything the verdict depends on is LOGGED here and DECIDED by TLC (ImportLifeTrace.tla); the only numeric reduction
done in Python is  rel = max|y - y_ref| / (1 + max|y_ref|)  in float64, logged as min(floor(rel * 1e12), 2e9).
plinio is imported lazily (core.use_repo() must have run).
"""
from __future__ import annotations

import copy
import operator
import os
import warnings
from concurrent.futures import ProcessPoolExecutor
from typing import Any, Dict, List

from . import tlc
from .archgen import GrammarNet, input_shape, lname, norm_arch, randomize, shapes

EPS = {0: 1e-5, 1: 1e-3}
MOM = {0: 0.1, 1: 0.05}
CAP = 2_000_000_000


def norm_iarch(a: Dict[str, Any]) -> Dict[str, Any]:
    b = norm_arch(a)
    b["two"] = a.get("two", "no")
    b["ca"] = int(a.get("ca", 0))
    for n, src in zip(b["nodes"], a["nodes"]):
        n["pl"] = bool(src.get("pl", False))
        n["sn"] = [{"k": int(br["k"]), "bn": bool(br["bn"])} for br in src.get("sn", [])]
        if n["sn"]:
            n["bn"] = False         # BatchNorms of a SuperNet block live inside its branches
            n["k"] = n["sn"][0]["k"]
        n["eps"] = int(src.get("eps", 0))
        n["mom"] = int(src.get("mom", 0))
        n["kind"] = src.get("kind", "avg") if n["op"] == "pool" else ""
    return b


# ------------------------------------------------------------------------------------------ real network
def _mk_classes():
    import torch
    import torch.nn as nn

    class TwoIn(nn.Module):
        """Two-input forward around a GrammarNet body."""

        def __init__(self, body: nn.Module, how: str):
            super().__init__()
            self.body = body
            self.how = how

        def forward(self, xa, xb):
            if self.how == "add":
                return self.body(xa + xb)
            return self.body(torch.cat([xa, xb], dim=1))

    return TwoIn


def build_user_model(arch: Dict[str, Any], fold: bool, seed: int):
    """The model object the USER would write (float64, generic weights).  Returns (model, inputs tuple)."""
    import torch
    import torch.nn as nn
    arch = norm_iarch(arch)
    torch.set_default_dtype(torch.float64)
    gen = torch.Generator().manual_seed(seed)
    body = GrammarNet(arch)
    dim = arch["dim"]
    sh = shapes(arch)
    for idx, n in enumerate(arch["nodes"], start=1):
        if n["op"] not in ("conv", "lin") or n["reuse"]:
            continue
        nm = lname(idx)
        if n["bn"] and (nm + "_bn") in body.layers:
            old = body.layers[nm + "_bn"]
            body.layers[nm + "_bn"] = type(old)(old.num_features, eps=EPS[n["eps"]], momentum=MOM[n["mom"]])
        if n["sn"]:
            from plinio.methods.supernet.nn import SuperNetModule
            base = body.layers[nm]
            branches = []
            for br in n["sn"]:
                k = br["k"]
                if dim == 1:
                    c = nn.Conv1d(base.in_channels, base.out_channels, k, padding="same", bias=n["bias"])
                else:
                    c = nn.Conv2d(base.in_channels, base.out_channels, k, padding=k // 2, bias=n["bias"])
                if br["bn"]:
                    bn = (nn.BatchNorm1d if dim == 1 else nn.BatchNorm2d)(base.out_channels, eps=EPS[n["eps"]],
                                                                            momentum=MOM[n["mom"]])
                    branches.append(nn.Sequential(c, bn))
                else:
                    branches.append(c)
            body.layers[nm] = SuperNetModule(branches)
        elif n["pl"]:
            from plinio.methods.pit.nn import PITConv1d, PITConv2d, PITLinear
            from plinio.methods.pit.nn.features_masker import PITFeaturesMasker
            from plinio.methods.pit.nn.timestep_masker import PITTimestepMasker
            from plinio.methods.pit.nn.dilation_masker import PITDilationMasker
            base = body.layers[nm]
            if isinstance(base, nn.Conv1d):
                k = base.kernel_size[0]
                body.layers[nm] = PITConv1d(base, PITFeaturesMasker(base.out_channels), PITTimestepMasker(k),
                                            PITDilationMasker(k), fold_bn=fold)
            elif isinstance(base, nn.Conv2d):
                body.layers[nm] = PITConv2d(base, PITFeaturesMasker(base.out_channels), fold_bn=fold)
            else:
                body.layers[nm] = PITLinear(base, PITFeaturesMasker(base.out_features), fold_bn=fold)
    randomize(body, gen)
    shp = input_shape(arch)
    if arch["two"] == "no":
        model = body
        xs = (torch.rand((3,) + shp, generator=gen) * 2 - 0.5,)
    else:
        model = _mk_classes()(body, arch["two"])
        if arch["two"] == "add":
            xs = (torch.rand((3,) + shp, generator=gen) * 2 - 0.5, torch.rand((3,) + shp, generator=gen) - 0.3)
        else:
            ca = arch["ca"]
            xs = (torch.rand((3, ca) + shp[1:], generator=gen) * 2 - 0.5,
                  torch.rand((3, shp[0] - ca) + shp[1:], generator=gen) - 0.3)
    return model, xs


def body_prefix(arch) -> str:
    return "" if arch.get("two", "no") == "no" else "body."


# ------------------------------------------------------------------------------------------ projection
REC0 = {"t": "", "dim": 0, "i": 0, "o": 0, "k": 0, "d": 0, "s": 0, "g": 0, "b": False, "p": 0, "eps": 0, "mom": 0,
        "aff": False, "trs": False, "pk": "", "l": 0, "r": 0, "ins": []}


def _rec(**kw) -> Dict[str, Any]:
    r = dict(REC0)
    r.update(kw)
    return r


def _first(v) -> int:
    return int(v[0]) if isinstance(v, (tuple, list)) else int(v)


def module_record(m) -> Dict[str, Any]:
    import torch.nn as nn
    if isinstance(m, (nn.Conv1d, nn.Conv2d)):
        p = m.padding
        pc = 1000 if p == "same" else (0 if p == "valid" else _first(p))
        return _rec(t="conv", dim=1 if isinstance(m, nn.Conv1d) else 2, i=int(m.in_channels), o=int(m.out_channels),
                    k=_first(m.kernel_size), d=_first(m.dilation), s=_first(m.stride), g=int(m.groups),
                    b=m.bias is not None, p=pc)
    if isinstance(m, nn.Linear):
        return _rec(t="lin", i=int(m.in_features), o=int(m.out_features), b=m.bias is not None)
    if isinstance(m, (nn.BatchNorm1d, nn.BatchNorm2d)):
        return _rec(t="bn", dim=1 if isinstance(m, nn.BatchNorm1d) else 2, o=int(m.num_features),
                    eps=int(round(m.eps * 1e9)), mom=int(round((m.momentum or 0) * 1e6)), aff=bool(m.affine),
                    trs=bool(m.track_running_stats))
    if isinstance(m, nn.ReLU):
        return _rec(t="relu")
    if isinstance(m, nn.Identity):
        return _rec(t="id")
    if isinstance(m, (nn.AvgPool1d, nn.AvgPool2d, nn.MaxPool1d, nn.MaxPool2d)):
        return _rec(t="pool", pk="avg" if isinstance(m, (nn.AvgPool1d, nn.AvgPool2d)) else "max",
                    k=_first(m.kernel_size), dim=1 if isinstance(m, (nn.AvgPool1d, nn.MaxPool1d)) else 2)
    if isinstance(m, nn.Flatten):
        return _rec(t="flat")
    if isinstance(m, nn.ConstantPad1d):
        return _rec(t="pad", l=int(m.padding[0]), r=int(m.padding[1]))
    if type(m).__name__ == "SuperNetCombiner":
        return _rec(t="comb", o=int(m.n_branches))
    return _rec(t="other", pk=type(m).__name__[:40])


def project_graph(gm) -> List[Dict[str, Any]]:
    """fx GraphModule -> sequence of layer records in graph order; `ins` = 1-based positions of the producers.
    Dead nodes (no users, not the output) are reported too (t prefixed by 'dead:')."""
    import torch
    pos: Dict[Any, int] = {}
    out: List[Dict[str, Any]] = []

    def flat_inputs(args) -> List[Any]:
        res = []
        for a in args:
            if isinstance(a, (list, tuple)):
                res.extend(flat_inputs(a))
            elif hasattr(a, "op") and hasattr(a, "target"):
                res.append(a)
        return res
    for n in gm.graph.nodes:
        if n.op == "output":
            continue
        if n.op == "placeholder":
            r = _rec(t="in")
        elif n.op == "call_module":
            r = module_record(gm.get_submodule(str(n.target)))
        elif n.op == "call_function":
            if n.target in (operator.add, torch.add):
                r = _rec(t="add")
            elif n.target is torch.cat:
                dm = n.kwargs.get("dim", n.args[1] if len(n.args) > 1 else 0)
                r = _rec(t="cat" if dm == 1 else "catt")
            else:
                r = _rec(t="other", pk=getattr(n.target, "__name__", str(n.target))[:40])
        else:
            r = _rec(t="other", pk=(n.op + ":" + str(n.target))[:40])
        r["ins"] = [pos[a] for a in flat_inputs(n.args) if a in pos]
        if len(n.users) == 0:
            r["t"] = "dead:" + r["t"]
        out.append(r)
        pos[n] = len(out)
    return out


def trace_plain(model):
    """fx trace of a user model with the leaf policy of the plinio tracers (torch.nn modules except Sequential,
    PIT layers, SuperNet combiners are leaves).  Does not touch the model (no eval())."""
    import torch.fx as fx
    import torch.nn as nn

    class _T(fx.Tracer):
        def is_leaf_module(self, m, qn):
            if type(m).__name__ == "SuperNetCombiner" or type(m).__name__.startswith("PIT"):
                return True
            return m.__module__.startswith("torch.nn") and not isinstance(m, nn.Sequential)
    tr = _T()
    g = tr.trace(model)
    return fx.GraphModule(tr.root, g)


# ------------------------------------------------------------------------------------------ observation helpers
def _rel(y, y0) -> int:
    import torch
    if tuple(y.shape) != tuple(y0.shape):
        return CAP
    d = float((y.detach() - y0.detach()).abs().max())
    s = 1.0 + float(y0.detach().abs().max())
    v = d / s * 1e12
    if not (v == v) or v >= CAP:       # NaN or huge
        return CAP
    return int(v)


def _sd_same(sd0, sd1) -> Dict[str, bool]:
    import torch
    keys = list(sd0.keys()) == list(sd1.keys())
    vals = all(k in sd1 and sd0[k].shape == sd1[k].shape and torch.equal(sd0[k], sd1[k]) for k in sd0)
    return {"keys": bool(keys), "vals": bool(vals)}


def _bits(t) -> List[int]:
    return [int(v) for v in (t.detach().flatten() > 0.5).tolist()]


def _err(e: Exception) -> str:
    return f"{type(e).__name__}: {str(e)[:120]}"


def run(sc: Dict[str, Any]) -> Dict[str, Any]:
    import torch
    import torch.nn as nn
    arch = norm_iarch(sc["arch"])
    method, mode, fold, auto = sc["method"], sc["mode"], bool(sc.get("fold", False)), bool(sc.get("auto", True))
    tr: Dict[str, Any] = {"arch": arch, "method": method, "mode": mode, "fold": fold, "auto": auto,
                          "conv_ok": False, "err": "", "O": [], "E": [], "masks": [],
                          "u0": mode == "train", "w1": False, "s1": False, "u1": False, "kids": True,
                          "dw": -1, "du": -1, "sd_keys": True, "sd_vals": True, "uflag_restored": True,
                          "sm": [], "exp_ok": False, "exp_err": "", "de": -1, "de_checked": False,
                          "w2": False, "s2": False, "sn_alpha_uniform": True}
    model, xs = build_user_model(arch, fold, int(sc.get("seed", 0)))
    model.train(mode == "train")
    ref = copy.deepcopy(model).eval()
    with torch.no_grad():
        y0 = ref(*xs)
    tr["O"] = project_graph(trace_plain(ref))
    sd0 = copy.deepcopy(model.state_dict())
    tr["u0"] = bool(model.training)
    ex = xs[0] if len(xs) == 1 else tuple(xs)
    pre = body_prefix(arch)
    excl = [pre + "layers." + lname(i) for i, n in enumerate(arch["nodes"], start=1)
            if n["op"] in ("conv", "lin") and n["excl"] and not n["reuse"]]
    try:
        with warnings.catch_warnings():
            warnings.simplefilter("ignore")
            if method == "PIT":
                from plinio.methods import PIT
                if len(xs) == 1 and int(sc.get("seed", 0)) % 2 == 0:     # both ways of describing the input are used
                    w = PIT(model, input_shape=tuple(xs[0].shape[1:]), fold_bn=fold, autoconvert_layers=auto,
                            exclude_names=excl)
                else:
                    w = PIT(model, input_example=ex, fold_bn=fold, autoconvert_layers=auto, exclude_names=excl)
            elif method == "SN":
                from plinio.methods import SuperNet
                w = SuperNet(model, input_example=ex)
            else:
                from plinio.methods import MPS
                w = MPS(model, input_example=ex, exclude_names=excl)
        tr["conv_ok"] = True
    except Exception as e:
        tr["err"] = _err(e)
        return tr
    # ---- mode flags right after conversion
    tr["w1"], tr["s1"], tr["u1"] = bool(w.training), bool(w.seed.training), bool(model.training)
    tr["kids"] = all(m.training == w.seed.training for m in w.seed.modules())
    # ---- masks (PIT): every searchable layer fully open
    if method == "PIT":
        from plinio.methods.pit.nn import PITModule
        for name, m in w.seed.named_modules():
            if isinstance(m, PITModule) and isinstance(m, (nn.Conv1d, nn.Conv2d, nn.Linear)):
                tail = name.rsplit(".", 1)[-1]
                rec = {"name": name, "n": int(tail[1:]) if tail[:1] == "n" and tail[1:].isdigit() else 0,
                       "fm": [], "tm": [], "told": [], "ok": True}
                try:
                    rec["fm"] = _bits(m.features_mask)
                    rec["told"] = _bits(m.input_features_calculator.features_mask)
                    if hasattr(m, "time_mask"):
                        rec["tm"] = _bits(m.time_mask)
                except Exception:
                    rec["ok"] = False
                tr["masks"].append(rec)
    if method == "SN":
        for m in w.seed.modules():
            if type(m).__name__ == "SuperNetCombiner":
                a = m.alpha.detach()
                if float((a - a[0]).abs().max()) != 0.0:
                    tr["sn_alpha_uniform"] = False
    # ---- wrapped vs original, eval mode (PIT, SuperNet)
    if method in ("PIT", "SN"):
        w.eval()
        try:
            with torch.no_grad():
                tr["dw"] = _rel(w(*xs), y0)
        except Exception as e:
            tr["dw"] = CAP
            tr["err"] = "forward of the wrapped model: " + _err(e)
        w.train(tr["w1"])
        w.seed.train(tr["s1"])
    # ---- the caller's object
    same = _sd_same(sd0, model.state_dict())
    tr["sd_keys"], tr["sd_vals"] = same["keys"], same["vals"]
    uflag = model.training
    try:
        with torch.no_grad():
            tr["du"] = _rel(model.eval()(*xs), y0)
    except Exception as e:
        tr["du"] = CAP
    model.train(uflag)
    # ---- SetMode: flip the wrapper's mode and back (export must not depend on it)
    for b in (not tr["w1"], tr["w1"], mode != "train"):
        w.train(b)
        tr["sm"].append({"set": bool(b), "w": bool(w.training), "s": bool(w.seed.training),
                         "kids": all(m.training == b for m in w.seed.modules())})
    # ---- export immediately
    if method in ("PIT", "SN"):
        try:
            with warnings.catch_warnings():
                warnings.simplefilter("ignore")
                e = w.export()
            tr["exp_ok"] = True
            tr["E"] = project_graph(e)
            tr["w2"], tr["s2"] = bool(w.training), bool(w.seed.training)
            # numeric side observation (prediction only): if no BatchNorm had to be re-created, the export computes
            # the original function (re-created BatchNorms are fresh by design, so nothing is compared then)
            if method == "PIT" and not any(r["t"] == "bn" for r in tr["E"]):
                try:
                    with torch.no_grad():
                        tr["de"] = _rel(e.eval()(*xs), y0)
                    tr["de_checked"] = True
                except Exception as ex2:
                    tr["de"] = CAP
                    tr["de_checked"] = True
        except Exception as e2:
            tr["exp_err"] = _err(e2)
    return tr


# ------------------------------------------------------------------------------------------ parallel execution
def _init_worker():
    import torch
    torch.set_num_threads(1)


def _run_one(sc):
    from .core import use_repo
    use_repo()
    try:
        return run(sc)
    except Exception:
        import json
        import traceback
        raise tlc.MachineryError("harness crashed on scenario " + json.dumps(sc, default=str)[:3000] + "\n"
                                 + traceback.format_exc(limit=8)) from None


def run_scenarios(scs: List[Dict[str, Any]], procs: int = 0) -> List[Dict[str, Any]]:
    if not scs:
        return []
    procs = procs or min(8, max(1, (os.cpu_count() or 4) - 2))
    if len(scs) < 8 or procs == 1:
        _init_worker()
        return [_run_one(s) for s in scs]
    import multiprocessing as mp
    ctx = mp.get_context("fork")
    with ProcessPoolExecutor(max_workers=procs, mp_context=ctx, initializer=_init_worker) as ex:
        return list(ex.map(_run_one, scs, chunksize=max(1, len(scs) // (procs * 8))))
