"""C07 - build, convert, observe: abstract import scenario (specs/ImportLife.tla)  ->  ImportLifeTrace record.

Self-contained (own network builder; only names / nothing else shared with harness/archgen.py).

arch = {"dim": 1|2, "c0": int, "sp": int, "two": "no"|"add"|"cat", "ca": int, "nodes": [node, ...]}
    tensor 0 = network input (two-input forward: xa + xb / cat(xa, xb) on channels, xa has `ca` channels),
    tensor i = output of nodes[i-1], network output = last tensor.
node (all fields always present after norm_iarch):
    op    conv | lin | lin3 | relu | drop | pool | flat | add         (lin3 = nn.Linear applied to a 3-D tensor (N, C, L))
    ins, out
    conv  k, d, s, dw (depthwise), grp (groups of a non-depthwise conv), bias,
          pad  "same" (padding='same', stride 1) | "int" (padding = d*(k//2), odd k) | "valid" (no padding) |
               "causal" (1-D: ConstantPad1d(((k-1)*d, 0)) + padding 0)
          pm   padding_mode zeros | reflect | replicate | circular   (same / int only)
    bn    BatchNorm directly after the conv / linear layer; eps, mom (codes), aff (affine), trs (track_running_stats)
    bn2   a SECOND BatchNorm object in a row (layer -> bn -> bn2; bn2 has the other eps code)
    bnref m > 0: the first BatchNorm of this call site is the BatchNorm OBJECT owned by call site m (one BN after two layers)
    bnown a reuse site followed by its OWN BatchNorm object (or none) instead of the owner's (one layer, different BNs)
    op "in2": the second input of a two-stream forward (arch["two"] = "sep"; same shape as the first input)
    excl  excluded from the search by name;  reuse = m > 0: the node calls the layer object(s) of node m
    pl    the layer is a PIT layer placed BY THE USER (PITConv1d/PITConv2d/PITLinear built by hand, README)
    sn    [] or branch descriptors [{"k","bn"}]: the conv node is a SuperNetModule (branch i = conv(k_i) [+ BN]);
    sno   {"hard": bool, "gum": bool, "temp": int (temperature*10), "fav": 0 | i}  options the USER configured on the
          block: hard_softmax, gumbel_softmax, softmax_temperature, non-uniform alpha favouring branch i (0 = uniform)
    kind  avg | max (pooling)
scenario = {"arch", "method": "PIT"|"SN"|"MPS", "mode": "train"|"eval", "fold": bool, "auto": bool,
            "hist": [train|eval|export|export_nobn|summary|cost|forward|icv|nassum, ...], "seed": int,
            "kw": [names of rarely used public constructor keywords to pass, see KEYWORDS]}

Everything the verdict depends on is LOGGED here and DECIDED by TLC (ImportLifeTrace.tla).  Reductions done in Python:
rel = max|y - y_ref| / (1 + max|y_ref|) in float64, logged as min(floor(rel*1e12), 2e9); bitwise comparison of state_dict
entries; comparison of simple attribute values (names of the changed ones are logged).
plinio is imported lazily (core.use_repo() must have run).
"""
from __future__ import annotations

import copy
import operator
import os
import warnings
from concurrent.futures import ProcessPoolExecutor
from typing import Any, Dict, List

from . import tlc

EPS = {0: 1e-5, 1: 1e-3}
MOM = {0: 0.1, 1: 0.05}
CAP = 2_000_000_000
LAYER_OPS = ("conv", "lin", "lin3")
NODE0 = {"op": "", "ins": [], "out": 0, "k": 1, "d": 1, "s": 1, "dw": False, "grp": 1, "bias": True, "pad": "same",
         "pm": "zeros", "bn": False, "eps": 0, "mom": 0, "aff": True, "trs": True, "excl": False, "reuse": 0, "pl": False,
         "sn": [], "sno": {"hard": False, "gum": False, "temp": 10, "fav": 0}, "kind": "", "bnref": 0, "bn2": False, "bnown": False}


def lname(i: int) -> str:
    return f"n{i}"


def norm_iarch(a: Dict[str, Any]) -> Dict[str, Any]:
    dim = int(a["dim"])
    nodes = []
    for src in a["nodes"]:
        n = copy.deepcopy(NODE0)
        for k in NODE0:
            if k in src:
                n[k] = copy.deepcopy(src[k])
        n["ins"] = [int(i) for i in n["ins"]]
        if n["op"] == "conv":
            if "pad" not in src:         # older scenario files: causal flag / default padding
                n["pad"] = "causal" if src.get("causal", False) else ("valid" if src.get("valid", False) else
                                                                      ("same" if (dim == 1 and n["s"] == 1) else "int"))
            if n["pad"] in ("valid", "causal"):
                n["pm"] = "zeros"
        else:
            n["pad"], n["pm"] = "same", "zeros"
        if n["op"] not in ("conv", "lin"):
            n["bnref"], n["bn2"], n["bnown"] = 0, False, False
        n["sn"] = [{"k": int(b["k"]), "bn": bool(b["bn"])} for b in n["sn"]]
        n["sno"] = {"hard": bool(n["sno"]["hard"]), "gum": bool(n["sno"]["gum"]), "temp": int(n["sno"]["temp"]),
                    "fav": int(n["sno"]["fav"])}
        if n["sn"]:
            n.update({"bn": False, "k": n["sn"][0]["k"], "d": 1, "s": 1, "pad": "same" if dim == 1 else "int",
                      "pm": "zeros", "dw": False, "grp": 1, "pl": False, "excl": False, "reuse": 0, "bnref": 0, "bn2": False,
                      "bnown": False})
        else:
            n["sno"] = copy.deepcopy(NODE0["sno"])
        n["kind"] = (src.get("kind") or "avg") if n["op"] == "pool" else ""
        nodes.append(n)
    return {"dim": dim, "c0": int(a["c0"]), "sp": int(a["sp"]), "two": a.get("two", "no"), "ca": int(a.get("ca", 0)),
            "nodes": nodes}


def shapes(arch) -> List[Dict[str, Any]]:
    """(channels, spatial size per axis, flat) of every tensor; tensors stay square in 2-D."""
    dim = arch["dim"]
    sh = [{"ch": arch["c0"], "sp": arch["sp"], "flat": False}]
    for n in arch["nodes"]:
        i0 = sh[n["ins"][0]] if n["ins"] else sh[0]
        op = n["op"]
        if op == "conv":
            if n["pad"] == "valid":
                sp = (i0["sp"] - n["d"] * (n["k"] - 1) - 1) // n["s"] + 1
            else:
                sp = (i0["sp"] - 1) // n["s"] + 1
            sh.append({"ch": i0["ch"] if n["dw"] else n["out"], "sp": sp, "flat": False})
        elif op == "lin":
            sh.append({"ch": n["out"], "sp": 1, "flat": True})
        elif op == "lin3":
            sh.append({"ch": i0["ch"], "sp": n["out"], "flat": False})
        elif op == "pool":
            sh.append({"ch": i0["ch"], "sp": i0["sp"] // 2, "flat": False})
        elif op == "flat":
            sh.append({"ch": i0["ch"] * i0["sp"] ** dim, "sp": 1, "flat": True})
        elif op in ("relu", "drop", "add"):
            sh.append(dict(i0))
        elif op == "in2":
            sh.append(dict(sh[0]))
        else:
            raise ValueError(op)
    return sh


def input_shape(arch) -> tuple:
    return (arch["c0"],) + (arch["sp"],) * arch["dim"]


# ------------------------------------------------------------------------------------------ real network
_CLS: Dict[str, Any] = {}


def _classes():
    if _CLS:
        return _CLS
    import torch
    import torch.nn as nn

    class ImportNet(nn.Module):
        """All layers are leaf modules in a ModuleDict; forward() iterates over the node list in Python, so torch.fx
        traces exactly the intended graph."""

        def __init__(self, arch: Dict[str, Any], fold: bool):
            super().__init__()
            self.arch = arch
            dim = arch["dim"]
            sh = shapes(arch)
            self.layers = nn.ModuleDict()
            self.plan = []
            for idx, n in enumerate(arch["nodes"], start=1):
                op = n["op"]
                cin = sh[n["ins"][0]]["ch"] if n["ins"] else arch["c0"]
                nm = lname(idx)
                names: List[str] = []
                bnames: List[str] = []
                if op in LAYER_OPS and n["reuse"]:
                    names = list(self.plan[n["reuse"] - 1][1])
                elif op == "conv" and n["sn"]:
                    from plinio.methods.supernet.nn import SuperNetModule
                    branches = []
                    for br in n["sn"]:
                        k = br["k"]
                        if dim == 1:
                            c = nn.Conv1d(cin, n["out"], k, padding="same", bias=n["bias"])
                        else:
                            c = nn.Conv2d(cin, n["out"], k, padding=k // 2, bias=n["bias"])
                        if br["bn"]:
                            bn = (nn.BatchNorm1d if dim == 1 else nn.BatchNorm2d)(n["out"], eps=EPS[n["eps"]],
                                                                                    momentum=MOM[n["mom"]])
                            branches.append(nn.Sequential(c, bn))
                        else:
                            branches.append(c)
                    o = n["sno"]
                    blk = SuperNetModule(branches, gumbel_softmax=o["gum"], hard_softmax=o["hard"])
                    # what a user does while annealing / after a warm-up: per-block temperature and coefficients
                    blk.sn_combiner.softmax_temperature = o["temp"] / 10 if o["temp"] != 10 else 1
                    if o["fav"]:
                        nb = len(branches)
                        with torch.no_grad():
                            vals = [0.6 if i + 1 == o["fav"] else (0.4 / max(nb - 1, 1)) * (1 - 0.1 * i) for i in range(nb)]
                            blk.sn_combiner.alpha.copy_(torch.tensor(vals, dtype=blk.sn_combiner.alpha.dtype))
                    self.layers[nm] = blk
                    names.append(nm)
                elif op == "conv":
                    cout = cin if n["dw"] else n["out"]
                    groups = cin if n["dw"] else n["grp"]
                    k, d, s, pad, pm = n["k"], n["d"], n["s"], n["pad"], n["pm"]
                    cls = nn.Conv1d if dim == 1 else nn.Conv2d
                    if pad == "causal":
                        if dim != 1:
                            raise ValueError("causal padding is 1-D")
                        self.layers[nm + "_pad"] = nn.ConstantPad1d(((k - 1) * d, 0), 0.0)
                        names.append(nm + "_pad")
                        conv = cls(cin, cout, k, stride=s, padding=0, dilation=d, groups=groups, bias=n["bias"])
                    elif pad == "same":
                        if s != 1:
                            raise ValueError("padding='same' needs stride 1")
                        conv = cls(cin, cout, k, stride=1, padding="same", dilation=d, groups=groups, bias=n["bias"],
                                   padding_mode=pm)
                    elif pad == "int":
                        if k % 2 == 0:
                            raise ValueError("explicit integer padding is generated for odd kernels")
                        conv = cls(cin, cout, k, stride=s, padding=d * (k // 2), dilation=d, groups=groups,
                                   bias=n["bias"], padding_mode=pm)
                    else:
                        conv = cls(cin, cout, k, stride=s, padding="valid" if dim == 1 else 0, dilation=d, groups=groups,
                                   bias=n["bias"])
                    if n["pl"]:
                        from plinio.methods.pit.nn import PITConv1d, PITConv2d
                        from plinio.methods.pit.nn.features_masker import PITFeaturesMasker
                        from plinio.methods.pit.nn.timestep_masker import PITTimestepMasker
                        from plinio.methods.pit.nn.dilation_masker import PITDilationMasker
                        if dim == 1:
                            conv = PITConv1d(conv, PITFeaturesMasker(cout), PITTimestepMasker(k), PITDilationMasker(k),
                                             fold_bn=fold)
                        else:
                            conv = PITConv2d(conv, PITFeaturesMasker(cout), fold_bn=fold)
                    self.layers[nm] = conv
                    names.append(nm)
                elif op in ("lin", "lin3"):
                    fin = cin if op == "lin" else sh[n["ins"][0]]["sp"]
                    lin = nn.Linear(fin, n["out"], bias=n["bias"])
                    if n["pl"]:
                        from plinio.methods.pit.nn import PITLinear
                        from plinio.methods.pit.nn.features_masker import PITFeaturesMasker
                        lin = PITLinear(lin, PITFeaturesMasker(n["out"]), fold_bn=fold)
                    self.layers[nm] = lin
                    names.append(nm)
                elif op == "relu":
                    self.layers[nm] = nn.ReLU()
                    names.append(nm)
                elif op == "drop":
                    self.layers[nm] = nn.Dropout(0.3)
                    names.append(nm)
                elif op == "pool":
                    avg = n["kind"] != "max"
                    self.layers[nm] = ((nn.AvgPool1d if avg else nn.MaxPool1d) if dim == 1 else
                                       (nn.AvgPool2d if avg else nn.MaxPool2d))(2)
                    names.append(nm)
                elif op == "flat":
                    self.layers[nm] = nn.Flatten(1)
                    names.append(nm)
                elif op not in ("add", "in2"):
                    raise ValueError(op)
                # the BatchNorm OBJECTS applied behind the layer at this call site (ImportLife!BnSeq)
                if op in ("conv", "lin") and not n["sn"]:
                    if n["reuse"] and not n["bnown"] and not n["bnref"]:
                        bnames = list(self.plan[n["reuse"] - 1][2])
                    else:
                        width = sh[idx]["ch"]
                        cls_bn = nn.BatchNorm1d if (dim == 1 or op == "lin") else nn.BatchNorm2d
                        if n["bnref"]:
                            bnames.append(lname(n["bnref"]) + "_bn")
                        elif n["bn"]:
                            self.layers[nm + "_bn"] = cls_bn(width, eps=EPS[n["eps"]], momentum=MOM[n["mom"]], affine=n["aff"],
                                                             track_running_stats=n["trs"])
                            bnames.append(nm + "_bn")
                        if bnames and n["bn2"]:
                            self.layers[nm + "_bn2"] = cls_bn(width, eps=EPS[1 - n["eps"]], momentum=MOM[n["mom"]],
                                                              affine=n["aff"], track_running_stats=n["trs"])
                            bnames.append(nm + "_bn2")
                self.plan.append((op, names, bnames, list(n["ins"])))

        def forward(self, x):
            return self.run_plan(x, None)

        def run_plan(self, x, xb):
            t = [x]
            for op, names, bnames, ins in self.plan:
                if op == "add":
                    y = t[ins[0]] + t[ins[1]]
                elif op == "in2":
                    y = xb
                else:
                    y = t[ins[0]]
                    for nm in names + bnames:
                        y = self.layers[nm](y)
                t.append(y)
            return t[-1]

    class ImportNet2(ImportNet):
        """Two-stream body: the second input is the tensor of the node "in2"."""

        def forward(self, x, xb):
            return self.run_plan(x, xb)

    class TwoIn(nn.Module):
        """Two-input forward around an ImportNet body."""

        def __init__(self, body: nn.Module, how: str):
            super().__init__()
            self.body = body
            self.how = how

        def forward(self, xa, xb):
            if self.how == "add":
                return self.body(xa + xb)
            if self.how == "sep":                      # two streams: the body consumes both inputs
                return self.body(xa, xb)
            return self.body(torch.cat([xa, xb], dim=1))

    _CLS.update({"ImportNet": ImportNet, "ImportNet2": ImportNet2, "TwoIn": TwoIn})
    return _CLS


def randomize(net, gen) -> None:
    """Generic (non-degenerate) weights, biases and BN statistics: nothing is zero or one by accident."""
    import torch
    import torch.nn as nn
    with torch.no_grad():
        for m in net.modules():
            if isinstance(m, (nn.Conv1d, nn.Conv2d, nn.Linear)):
                m.weight.copy_((torch.rand(m.weight.shape, generator=gen, dtype=torch.float64) * 1.5 + 0.25) *
                               (torch.randint(0, 2, m.weight.shape, generator=gen) * 2 - 1))
                if m.bias is not None:
                    m.bias.copy_(torch.rand(m.bias.shape, generator=gen, dtype=torch.float64) * 0.8 + 0.3)
            elif isinstance(m, (nn.BatchNorm1d, nn.BatchNorm2d)):
                if m.weight is not None:
                    m.weight.copy_(torch.rand(m.weight.shape, generator=gen, dtype=torch.float64) * 1.0 + 0.5)
                    m.bias.copy_(torch.rand(m.bias.shape, generator=gen, dtype=torch.float64) * 0.8 + 0.3)
                if m.running_mean is not None:
                    m.running_mean.copy_(torch.rand(m.running_mean.shape, generator=gen, dtype=torch.float64) - 0.5)
                    m.running_var.copy_(torch.rand(m.running_var.shape, generator=gen, dtype=torch.float64) + 0.5)


def build_user_model(arch: Dict[str, Any], fold: bool, seed: int):
    """The model object the USER would write (float64, generic weights).  Returns (model, inputs tuple)."""
    import torch
    arch = norm_iarch(arch)
    torch.set_default_dtype(torch.float64)
    gen = torch.Generator().manual_seed(seed)
    cl = _classes()
    body = cl["ImportNet2" if arch["two"] == "sep" else "ImportNet"](arch, fold)
    randomize(body, gen)
    shp = input_shape(arch)
    if arch["two"] == "no":
        model = body
        xs = (torch.rand((3,) + shp, generator=gen) * 2 - 0.5,)
    else:
        model = cl["TwoIn"](body, arch["two"])
        if arch["two"] in ("add", "sep"):
            xs = (torch.rand((3,) + shp, generator=gen) * 2 - 0.5, torch.rand((3,) + shp, generator=gen) - 0.3)
        else:
            ca = arch["ca"]
            xs = (torch.rand((3, ca) + shp[1:], generator=gen) * 2 - 0.5,
                  torch.rand((3, shp[0] - ca) + shp[1:], generator=gen) - 0.3)
    return model, xs


def body_prefix(arch) -> str:
    return "" if arch.get("two", "no") == "no" else "body."


# ------------------------------------------------------------------------------------------ projection
REC0 = {"t": "", "dim": 0, "i": 0, "o": 0, "k": 0, "d": 0, "s": 0, "g": 0, "b": False, "p": 0, "pm": "", "eps": 0, "mom": 0,
        "aff": False, "trs": False, "pk": "", "l": 0, "r": 0, "ins": []}


def _rec(**kw) -> Dict[str, Any]:
    r = dict(REC0)
    r.update(kw)
    return r


def _first(v) -> int:
    return int(v[0]) if isinstance(v, (tuple, list)) else int(v)


def module_record(m) -> Dict[str, Any]:
    import torch.nn as nn
    if isinstance(m, (nn.Conv1d, nn.Conv2d)):
        p = m.padding
        pc = 1000 if p == "same" else (0 if p == "valid" else _first(p))
        return _rec(t="conv", dim=1 if isinstance(m, nn.Conv1d) else 2, i=int(m.in_channels), o=int(m.out_channels),
                    k=_first(m.kernel_size), d=_first(m.dilation), s=_first(m.stride), g=int(m.groups),
                    b=m.bias is not None, p=pc, pm=str(m.padding_mode))
    if isinstance(m, nn.Linear):
        return _rec(t="lin", i=int(m.in_features), o=int(m.out_features), b=m.bias is not None)
    if isinstance(m, (nn.BatchNorm1d, nn.BatchNorm2d)):
        return _rec(t="bn", dim=1 if isinstance(m, nn.BatchNorm1d) else 2, o=int(m.num_features),
                    eps=int(round(m.eps * 1e9)), mom=int(round((m.momentum or 0) * 1e6)), aff=bool(m.affine),
                    trs=bool(m.track_running_stats))
    if isinstance(m, nn.ReLU):
        return _rec(t="relu")
    if isinstance(m, nn.Dropout):
        return _rec(t="drop")
    if isinstance(m, (nn.AvgPool1d, nn.AvgPool2d, nn.MaxPool1d, nn.MaxPool2d)):
        return _rec(t="pool", pk="avg" if isinstance(m, (nn.AvgPool1d, nn.AvgPool2d)) else "max",
                    k=_first(m.kernel_size), dim=1 if isinstance(m, (nn.AvgPool1d, nn.MaxPool1d)) else 2)
    if isinstance(m, nn.Flatten):
        return _rec(t="flat")
    if isinstance(m, nn.ConstantPad1d):
        return _rec(t="pad", l=int(m.padding[0]), r=int(m.padding[1]))
    if type(m).__name__ == "SuperNetCombiner":
        return _rec(t="comb", o=int(m.n_branches))
    return _rec(t="other", pk=type(m).__name__[:40])


def project_graph(gm):
    """fx GraphModule -> (sequence of layer records of the LIVE graph in graph order, `ins` = 1-based positions of the
    producers;  number of dead nodes: nodes no path leads from to the output - not part of the architecture)."""
    import torch
    nodes = list(gm.graph.nodes)
    live = set()
    for n in reversed(nodes):
        if n.op == "output" or any(u in live for u in n.users):
            live.add(n)
    pos: Dict[Any, int] = {}
    out: List[Dict[str, Any]] = []
    dead = 0

    def flat_inputs(args) -> List[Any]:
        res = []
        for a in args:
            if isinstance(a, (list, tuple)):
                res.extend(flat_inputs(a))
            elif hasattr(a, "op") and hasattr(a, "target"):
                res.append(a)
        return res
    for n in nodes:
        if n.op == "output":
            continue
        if n not in live and n.op != "placeholder":
            dead += 1
            continue
        if n.op == "placeholder":
            r = _rec(t="in")
        elif n.op == "call_module":
            r = module_record(gm.get_submodule(str(n.target)))
        elif n.op == "call_function":
            if n.target in (operator.add, torch.add):
                r = _rec(t="add")
            elif n.target is torch.cat:
                dm = n.kwargs.get("dim", n.args[1] if len(n.args) > 1 else 0)
                r = _rec(t="cat" if dm == 1 else "catt")
            else:
                r = _rec(t="other", pk=getattr(n.target, "__name__", str(n.target))[:40])
        else:
            r = _rec(t="other", pk=(n.op + ":" + str(n.target))[:40])
        r["ins"] = [pos[a] for a in flat_inputs(n.args) if a in pos]
        out.append(r)
        pos[n] = len(out)
    return out, dead


def trace_plain(model):
    """fx trace of a user model with the leaf policy of the plinio tracers (torch.nn modules except Sequential,
    PIT layers, SuperNet combiners are leaves).  Does not touch the model (no eval())."""
    import torch.fx as fx
    import torch.nn as nn

    class _T(fx.Tracer):
        def is_leaf_module(self, m, qn):
            if type(m).__name__ == "SuperNetCombiner" or type(m).__name__.startswith("PIT"):
                return True
            return m.__module__.startswith("torch.nn") and not isinstance(m, nn.Sequential)
    tr = _T()
    g = tr.trace(model)
    return fx.GraphModule(tr.root, g)


# ------------------------------------------------------------------------------------------ observation helpers
def _rel(y, y0) -> int:
    if tuple(y.shape) != tuple(y0.shape):
        return CAP
    d = float((y.detach() - y0.detach()).abs().max())
    s = 1.0 + float(y0.detach().abs().max())
    v = d / s * 1e12
    if not (v == v) or v >= CAP:       # NaN or huge
        return CAP
    return int(v)


def _sd_same(sd0, sd1) -> Dict[str, bool]:
    import torch
    keys = list(sd0.keys()) == list(sd1.keys())
    vals = all(k in sd1 and sd0[k].shape == sd1[k].shape and torch.equal(sd0[k], sd1[k]) for k in sd0)
    return {"keys": bool(keys), "vals": bool(vals)}


def _bits(t) -> List[int]:
    return [int(v) for v in (t.detach().flatten() > 0.5).tolist()]


def _err(e: Exception) -> str:
    return f"{type(e).__name__}: {str(e)[:120]}"


def _errkind(e: Exception) -> str:
    """Documented rejections of plinio, recognised by their message."""
    s = str(e)
    if "track_running_stats" in s:
        return "trs"
    if "DepthWise" in s or "groupwise" in s:
        return "groups"
    return "other"


def _simple(v):
    if v is None or isinstance(v, (bool, int, float, str)):
        return ("v", v)
    if isinstance(v, (tuple, list)) and all(x is None or isinstance(x, (bool, int, float, str)) for x in v):
        return ("v", tuple(v))
    if callable(v) and hasattr(v, "__name__") and not hasattr(v, "parameters"):
        return ("fn", v.__name__)
    return None


def attr_snapshot(model) -> Dict[str, Any]:
    """Every user-visible simple attribute (numbers, flags, strings, tuples of them, selected methods) of every module of
    the user's model; parameters / buffers are covered by the state_dict comparison, `training` by the mode clauses."""
    snap = {}
    for name, m in model.named_modules():
        for k, v in vars(m).items():
            if k == "training":
                continue
            s = _simple(v)
            if s is not None:
                snap[f"{name}.{k}"] = s
    return snap


def sn_options(model, arch) -> List[Dict[str, Any]]:
    """Per SuperNet block (node order): the options as read from the USER's combiner object."""
    out = []
    pre = body_prefix(arch)
    for idx, n in enumerate(arch["nodes"], start=1):
        if n["op"] == "conv" and n["sn"]:
            c = model.get_submodule(pre + "layers." + lname(idx)).sn_combiner
            a = c.alpha.detach()
            fav = 0 if float((a - a[0]).abs().max()) == 0.0 else int(a.argmax()) + 1
            out.append({"n": idx, "hard": bool(c.hard_softmax), "gum": getattr(c.sample_alpha, "__name__", "") == "sample_alpha_gs",
                        "temp": int(round(float(c.softmax_temperature) * 10)), "fav": fav})
    return out


# rarely used public keywords of the constructors: name used in scenario["kw"] -> what is passed
KEYWORDS = {
    "PIT": ("disc", "full", "notrain", "costd", "exty"),
    "SN": ("full", "costd"),
    "MPS": ("full", "costd", "exty", "pc", "noshare", "hard", "gum", "temp", "nosamp"),
}
# public keywords the harness knows how to exercise (constructor / method -> keyword): everything else that shows up in a
# signature is reported in the evidence as not exercised
EXERCISED = {
    "PIT.__init__": {"model", "cost", "input_example", "input_shape", "autoconvert_layers", "discrete_cost", "full_cost",
                     "exclude_names", "exclude_types", "train_features", "train_rf", "train_dilation", "fold_bn"},
    "PIT.export": {"add_bn"},
    "SuperNet.__init__": {"model", "cost", "input_example", "input_shape", "full_cost"},
    "SuperNet.get_total_icv": set(),
    "MPS.__init__": {"model", "cost", "input_example", "input_shape", "w_search_type", "full_cost", "exclude_names", "exclude_types",
                     "temperature", "gumbel_softmax", "hard_softmax", "disable_sampling", "disable_shared_quantizers"},
    "MPS.nas_parameters_summary": {"post_sampling"},
}


def public_keywords() -> Dict[str, Any]:
    """Keywords of the public constructors / methods of the three wrappers, read from their signatures."""
    import inspect
    from plinio.methods import PIT, MPS, SuperNet
    out: Dict[str, Any] = {}
    for cls in (PIT, SuperNet, MPS):
        for name in ["__init__"] + sorted(n for n in vars(cls) if not n.startswith("_") and callable(getattr(cls, n))):
            try:
                ps = [p for p in inspect.signature(getattr(cls, name)).parameters if p not in ("self", "args", "kwargs")]
            except (TypeError, ValueError):
                continue
            key = f"{cls.__name__}.{name}"
            if ps or key in EXERCISED:
                out[key] = {"keywords": ps, "not_exercised": sorted(set(ps) - EXERCISED.get(key, set()))}
    return out


def _ctor_kwargs(method: str, kws: List[str], arch, excl: List[str]):
    """scenario["kw"] -> constructor keyword arguments; returns (kwargs, exclude_names, names actually used)."""
    import torch.nn as nn
    import plinio.cost as pc
    kw: Dict[str, Any] = {}
    used = []
    for k in kws:
        if k not in KEYWORDS[method]:
            continue
        if k == "disc":
            kw["discrete_cost"] = True
        elif k == "full":
            # (MPS: the default bit-cost specification cannot cost a layer that is excluded from the search - cost raises
            #  KeyError('w_precision'); a limitation of cost evaluation, reported, outside C07)
            if method == "MPS" and any(n["excl"] for n in arch["nodes"]):
                continue
            kw["full_cost"] = True
        elif k == "notrain":
            kw.update({"train_features": False, "train_rf": False, "train_dilation": False})
        elif k == "costd":
            kw["cost"] = {"p": pc.params_bit if method == "MPS" else pc.params, "o": pc.ops_bit if method == "MPS" else pc.ops}
        elif k == "exty":
            # exclude_types=(nn.Linear,) says the same as the names if exactly the plain linear layers are excluded
            lin = [n for n in arch["nodes"] if n["op"] in ("lin", "lin3") and not n["reuse"] and not n["pl"]]
            oth = [n for n in arch["nodes"] if n["op"] == "conv" and n["excl"]]
            if not lin or oth or not all(n["excl"] for n in lin):
                continue
            kw["exclude_types"] = (nn.Linear,)
            excl = []
        elif k == "pc":
            from plinio.methods.mps import MPSType
            kw["w_search_type"] = MPSType.PER_CHANNEL
        elif k == "noshare":
            kw["disable_shared_quantizers"] = True
        elif k == "hard":
            kw["hard_softmax"] = True
        elif k == "gum":
            kw["gumbel_softmax"] = True
        elif k == "temp":
            kw["temperature"] = 0.5
        elif k == "nosamp":
            kw["disable_sampling"] = True
        used.append(k)
    return kw, excl, used


def _flags(w) -> Dict[str, bool]:
    return {"w": bool(w.training), "s": bool(w.seed.training),
            "kids": all(m.training == w.training for m in w.modules())}


def run(sc: Dict[str, Any]) -> Dict[str, Any]:
    import torch
    import torch.nn as nn
    arch = norm_iarch(sc["arch"])
    method, mode, fold, auto = sc["method"], sc["mode"], bool(sc.get("fold", False)), bool(sc.get("auto", True))
    hist = list(sc.get("hist", []))
    tr: Dict[str, Any] = {"arch": arch, "method": method, "mode": mode, "fold": fold, "auto": auto, "hist": hist, "kw": [], "dwe": -1,
                          "user_ok": True, "bn_sens": True, "conv_ok": False, "err": "", "errk": "", "O": [], "OP": [], "dpl": -1, "N": [], "E": [], "masks": [],
                          "snopt0": [], "snopt1": [],
                          "u0": mode == "train", "w1": False, "s1": False, "u1": False, "kids": True,
                          "dw": -1, "du": -1, "sd_keys": True, "sd_vals": True, "attrs_changed": [], "attrs_changed_pl": 0, "attrs_added": 0,
                          "H": [], "dwh": -1, "sd_vals_end": True,
                          "exp_ok": False, "exp_err": "", "de": -1, "de_checked": False, "dead": 0,
                          "w2": False, "s2": False}
    # non-degenerate observations: a network whose output is identically zero on the probe batch (dead final ReLU on a narrow
    # layer) would make every output comparison vacuous: take the next seed
    seed0 = int(sc.get("seed", 0))
    for attempt in range(4):
        model, xs = build_user_model(arch, fold, seed0 + 7919 * attempt)
        with torch.no_grad():
            try:
                if float(copy.deepcopy(model).eval()(*xs).abs().max()) > 0.0:
                    break
            except Exception:
                break
    sc = dict(sc, seed=seed0 + 7919 * attempt)          # the seed actually used (twin, input_shape/example choice)
    tr["seed_used"] = sc["seed"]
    model.train(mode == "train")
    # the harness' own obligation (network = architecture) is checked on a twin without any plinio object in it
    if any(n["pl"] for n in arch["nodes"]):
        twin_arch = copy.deepcopy(arch)
        for n in twin_arch["nodes"]:
            n["pl"] = False
        twin, _ = build_user_model(twin_arch, fold, int(sc.get("seed", 0)))
    else:
        twin = model
    tr["O"], _ = project_graph(trace_plain(copy.deepcopy(twin).eval()))
    try:
        ref = copy.deepcopy(model).eval()
        with torch.no_grad():
            y0 = ref(*xs)                      # recorded BEFORE the conversion, on an independent copy
        tr["OP"], _ = project_graph(trace_plain(ref))
        # does the output depend on the BatchNorm layers at all on this probe batch?  (a dead ReLU downstream makes a lost or
        # doubled BatchNorm unobservable: predictions "the finding must show" are only made where it can)
        pert = copy.deepcopy(ref)
        with torch.no_grad():
            for m_ in pert.modules():
                if isinstance(m_, (nn.BatchNorm1d, nn.BatchNorm2d)) and m_.running_mean is not None:
                    m_.running_mean.add_(0.7)
            tr["bn_sens"] = bool(float((pert(*xs) - y0).abs().max()) > 1e-6 * (1.0 + float(y0.abs().max())))
        if twin is not model:
            with torch.no_grad():
                tr["dpl"] = _rel(y0, twin.eval()(*xs))
    except Exception as e:                     # only possible through a hand-placed PIT layer (the rest is plain torch)
        tr["user_ok"], tr["err"] = False, "the user's model (with hand-placed PIT layers) cannot be traced / evaluated: " + _err(e)
        if not any(n["pl"] for n in arch["nodes"]):
            raise
        return tr
    sd0 = copy.deepcopy(model.state_dict())
    at0 = attr_snapshot(model)
    # modules of the user's model that are (or live inside) PIT layers the user placed: search objects the wrapper is meant to
    # configure (discrete_cost, trainability, fused BatchNorm); their attributes are recorded, not decided
    plmods = tuple(n_ + "." for n_, m_ in model.named_modules() if type(m_).__name__ in ("PITConv1d", "PITConv2d", "PITLinear"))
    tr["snopt0"] = sn_options(model, arch)
    tr["u0"] = bool(model.training)
    ex = xs[0] if len(xs) == 1 else tuple(xs)
    pre = body_prefix(arch)
    excl = [pre + "layers." + lname(i) for i, n in enumerate(arch["nodes"], start=1)
            if n["op"] in LAYER_OPS and n["excl"] and not n["reuse"]]
    kw, excl, tr["kw"] = _ctor_kwargs(method, list(sc.get("kw", [])), arch, excl)
    try:
        with warnings.catch_warnings():
            warnings.simplefilter("ignore")
            if method == "PIT":
                from plinio.methods import PIT
                # both ways of describing the input are used (input_shape makes plinio trace with a batch of ONE sample, which
                # a BatchNorm without running statistics cannot process: those networks are described by an example batch)
                batch1_ok = all(n["trs"] or not n["bn"] for n in arch["nodes"])
                if len(xs) == 1 and int(sc.get("seed", 0)) % 2 == 0 and batch1_ok:
                    w = PIT(model, input_shape=tuple(xs[0].shape[1:]), fold_bn=fold, autoconvert_layers=auto,
                            exclude_names=excl, **kw)
                else:
                    w = PIT(model, input_example=ex, fold_bn=fold, autoconvert_layers=auto, exclude_names=excl, **kw)
            elif method == "SN":
                from plinio.methods import SuperNet
                if len(xs) == 1 and int(sc.get("seed", 0)) % 2 == 0 and all(n["trs"] or not n["bn"] for n in arch["nodes"]):
                    w = SuperNet(model, input_shape=tuple(xs[0].shape[1:]), **kw)
                else:
                    w = SuperNet(model, input_example=ex, **kw)
            else:
                from plinio.methods import MPS
                if len(xs) == 1 and int(sc.get("seed", 0)) % 2 == 0 and all(n["trs"] or not n["bn"] for n in arch["nodes"]):
                    w = MPS(model, input_shape=tuple(xs[0].shape[1:]), exclude_names=excl, **kw)
                else:
                    w = MPS(model, input_example=ex, exclude_names=excl, **kw)
        tr["conv_ok"] = True
    except Exception as e:
        tr["err"] = _err(e)
        tr["errk"] = _errkind(e)
        return tr
    # ---- mode flags right after conversion
    tr["w1"], tr["s1"], tr["u1"] = bool(w.training), bool(w.seed.training), bool(model.training)
    tr["kids"] = all(m.training == w.seed.training for m in w.seed.modules())
    # ---- the converted graph (attributes of the searchable layers are read off the layer objects)
    if method in ("PIT", "SN"):
        try:
            tr["N"], _ = project_graph(w.seed)
        except Exception as e:
            tr["N"] = []
    # ---- masks (PIT): every searchable layer fully open
    if method == "PIT":
        from plinio.methods.pit.nn import PITModule
        for name, m in w.seed.named_modules():
            if isinstance(m, PITModule) and isinstance(m, (nn.Conv1d, nn.Conv2d, nn.Linear)):
                tail = name.rsplit(".", 1)[-1]
                rec = {"name": name, "n": int(tail[1:]) if tail[:1] == "n" and tail[1:].isdigit() else 0,
                       "fm": [], "tm": [], "told": [], "ok": True}
                try:
                    rec["fm"] = _bits(m.features_mask)
                    rec["told"] = _bits(m.input_features_calculator.features_mask)
                    if hasattr(m, "time_mask"):
                        rec["tm"] = _bits(m.time_mask)
                except Exception:
                    rec["ok"] = False
                tr["masks"].append(rec)
    # ---- wrapped vs original (recorded before), eval mode (PIT, SuperNet)
    if method in ("PIT", "SN"):
        w.eval()
        try:
            with torch.no_grad():
                tr["dw"] = _rel(w(*xs), y0)
        except Exception as e:
            tr["dw"] = CAP
            tr["err"] = "forward of the wrapped model: " + _err(e)
        w.train(tr["w1"])
        w.seed.train(tr["s1"])
    # ---- the caller's object: parameters / buffers, simple attributes, options of SuperNet blocks, eval outputs
    same = _sd_same(sd0, model.state_dict())
    tr["sd_keys"], tr["sd_vals"] = same["keys"], same["vals"]
    at1 = attr_snapshot(model)
    chg = sorted(k for k in at0 if k in at1 and at0[k] != at1[k]) + sorted("-" + k for k in at0 if k not in at1)
    tr["attrs_changed"] = [k for k in chg if not k.lstrip("-").startswith(plmods)][:8] if plmods else chg[:8]
    tr["attrs_changed_pl"] = len(chg) - len([k for k in chg if not (plmods and k.lstrip("-").startswith(plmods))])
    tr["attrs_added"] = len([k for k in at1 if k not in at0])
    tr["snopt1"] = sn_options(model, arch)
    uflags = {n_: m.training for n_, m in model.named_modules()}
    try:
        with torch.no_grad():
            tr["du"] = _rel(model.eval()(*xs), y0)
    except Exception as e:
        tr["du"] = CAP
    for n_, m in model.named_modules():
        m.training = uflags[n_]
    w.train(tr["w1"])
    w.seed.train(tr["s1"])
    # ---- the mode history the user performs between import and the final observation
    for a in hist:
        st = {"a": a, "ok": True, "err": ""}
        try:
            with warnings.catch_warnings():
                warnings.simplefilter("ignore")
                if a == "train":
                    w.train()
                elif a == "eval":
                    w.eval()
                elif a == "export":
                    w.export()
                elif a == "export_nobn":             # PIT: the rarely used public argument of export()
                    w.export(add_bn=False)
                elif a == "summary":
                    w.summary()
                elif a == "cost":
                    float(w.get_cost("p")) if "costd" in tr["kw"] else float(w.cost)
                elif a == "icv":                     # SuperNet
                    float(w.get_total_icv())
                elif a == "nassum":                  # MPS
                    w.alpha_summary()
                    w.nas_parameters_summary(post_sampling=False)
                elif a == "forward":
                    if w.training:
                        raise tlc.MachineryError("history: forward is only performed in eval mode (a training-mode forward "
                                                 "updates BatchNorm statistics by design)")
                    with torch.no_grad():
                        w(*xs)
                else:
                    raise tlc.MachineryError("unknown history action " + a)
        except tlc.MachineryError:
            raise
        except Exception as e:
            st["ok"], st["err"] = False, _err(e)
        st.update(_flags(w))
        tr["H"].append(st)
    # after ANY history: if the user's last word was eval(), the wrapper - as it is, no further eval() call - still computes
    # the original function; and the object passed in still has its parameters
    if method in ("PIT", "SN") and not w.training:
        try:
            with torch.no_grad():
                tr["dwh"] = _rel(w(*xs), y0)
        except Exception as e:
            tr["dwh"] = CAP
    tr["sd_vals_end"] = _sd_same(sd0, model.state_dict())["vals"]
    # ---- export
    if method in ("PIT", "SN"):
        try:
            with warnings.catch_warnings():
                warnings.simplefilter("ignore")
                e = w.export()
            tr["exp_ok"] = True
            tr["E"], tr["dead"] = project_graph(e)
            tr["w2"], tr["s2"] = bool(w.training), bool(w.seed.training)
            # numeric side observation (prediction only): if no BatchNorm had to be re-created, the export computes
            # the original function (re-created BatchNorms are fresh by design, so nothing is compared then)
            if method == "PIT" and not any(r["t"] == "bn" for r in tr["E"]):
                try:
                    with torch.no_grad():
                        tr["de"] = _rel(e.eval()(*xs), y0)
                    tr["de_checked"] = True
                except Exception as ex2:
                    tr["de"] = CAP
                    tr["de_checked"] = True
        except Exception as e2:
            tr["exp_err"] = _err(e2)
        # ... and when the user finally calls eval(), the wrapper still computes the original function
        try:
            w.eval()
            with torch.no_grad():
                tr["dwe"] = _rel(w(*xs), y0)
        except Exception as e3:
            tr["dwe"] = CAP
    return tr


# ------------------------------------------------------------------------------------------ parallel execution
def _init_worker():
    import torch
    torch.set_num_threads(1)


def _run_one(sc):
    from .core import use_repo
    use_repo()
    try:
        return run(sc)
    except Exception:
        import json
        import traceback
        raise tlc.MachineryError("harness crashed on scenario " + json.dumps(sc, default=str)[:3000] + "\n"
                                 + traceback.format_exc(limit=8)) from None


def run_scenarios(scs: List[Dict[str, Any]], procs: int = 0) -> List[Dict[str, Any]]:
    if not scs:
        return []
    procs = procs or min(8, max(1, (os.cpu_count() or 4) - 2))
    if len(scs) < 8 or procs == 1:
        _init_worker()
        return [_run_one(s) for s in scs]
    import multiprocessing as mp
    ctx = mp.get_context("fork")
    with ProcessPoolExecutor(max_workers=procs, mp_context=ctx, initializer=_init_worker) as ex:
        return list(ex.map(_run_one, scs, chunksize=max(1, len(scs) // (procs * 8))))
