"""C15 - cost-function lookup depends on the layer, not on registration order.

spec -> code : every reachable state (registration history) of CostLookupMC is dumped by TLC
               and replayed on a real plinio.cost.CostSpec, all 16 queries per history.
code -> spec : the recorded results are validated by TLC (CostLookupTrace) against RefLookup;
               random interleavings of registrations and lookups and every built-in cost
               specification are validated the same way.
"""
from __future__ import annotations

import itertools
import random
import tempfile

from ..core import Run, use_repo
from .. import tlc

TYPES = ["A", "B"]
CONSTR = ["dw", "k3", "usr"]


def _real_env():
    use_repo()
    import torch.nn as nn
    from plinio.cost import CostSpec
    from plinio.cost.pattern import conv_dw_constraint, conv_3_constraint
    from plinio.cost.cost_spec import cost_spec_zero_fn, cost_spec_fail_fn

    import functools

    def usr_constraint(spec):
        return bool(spec.get("usr_flag", False))

    def _usr_with(spec, key):
        return bool(spec.get(key, False))

    class _UsrCallable:
        def __call__(self, spec):
            return bool(spec.get("usr_flag", False))

        def method(self, spec):
            return bool(spec.get("usr_flag", False))

    # the user's constraint may be any callable: function, lambda, functools.partial, callable object, bound method
    USR_KINDS = [usr_constraint, (lambda spec: bool(spec.get("usr_flag", False))),
                 functools.partial(_usr_with, key="usr_flag"), _UsrCallable(), _UsrCallable().method]

    class SubConv2d(nn.Conv2d):       # a user's layer type derived from a registered one (type "D" below "A")
        pass

    types = {"A": nn.Conv2d, "B": nn.Linear, "C": nn.Conv1d, "D": SubConv2d}
    constr0 = {"U": None, "dw": conv_dw_constraint, "k3": conv_3_constraint, "usr": usr_constraint}

    def layer_specs(sat, ty="A"):
        """Several layer descriptions that satisfy exactly the constraints in `sat` by the DOCUMENTED meaning of the
        built-in constraints (depthwise: in = out = groups; 3x3: all kernel dims 3) - including the edge cases
        in_channels = groups != out_channels (1-channel input, grouped convs)."""
        if "dw" in sat:
            chans = [(6, 6, 6), (1, 1, 1), (16, 16, 16)]
        else:
            chans = [(6, 8, 1), (1, 16, 1), (4, 8, 4), (8, 4, 4), (3, 3, 1), (6, 6, 2)]
        if ty == "C":      # Conv1d: one-element kernel tuples
            kers = [(3,)] if "k3" in sat else [(5,), (1,), (2,)]
        else:
            kers = [(3, 3)] if "k3" in sat else [(5, 3), (3, 5), (1, 1)]
        return [{"in_channels": ci, "out_channels": co, "groups": g, "kernel_size": k, "usr_flag": "usr" in sat}
                for (ci, co, g) in chans for k in kers]

    def execute(dflt, events, usr_kind=0):
        """events: list of ('reg', ty, p) / ('get', ty, sat). Returns the trace."""
        constr = dict(constr0)
        constr["usr"] = USR_KINDS[usr_kind % len(USR_KINDS)]
        cs = CostSpec(shared=True, default_behavior=dflt)
        fns = {}
        out = []
        for ev in events:
            if ev[0] == "reg":
                _, ty, p = ev[:3]
                df = len(ev) > 3 and bool(ev[3])     # associate the spec's own default function object

                def fn(spec, _tag=(ty, p)):
                    return _tag
                if df:
                    cs[(types[ty], constr[p])] = cs.default
                else:
                    fns[id(fn)] = (ty, p, fn)
                    cs[(types[ty], constr[p])] = fn
                out.append({"a": "reg", "ty": ty, "p": p, "df": df})
            else:
                _, ty, sat = ev[:3]
                cands = layer_specs(sat, ty)
                sp = cands[ev[3] % len(cands)] if len(ev) > 3 else cands[0]
                try:
                    f = cs[(types[ty], sp)]
                    if id(f) in fns:
                        rty, rp, _ = fns[id(f)]
                        res = ["fn", rp] if rty == ty else ["wrongtype", rty, rp]
                    elif f is cost_spec_zero_fn:
                        z = f(sp)
                        res = ["zero"] if float(z) == 0.0 else ["zero-nonzero"]
                    elif f is cost_spec_fail_fn:
                        try:
                            f(sp)
                            res = ["fail-noraise"]
                        except KeyError:
                            res = ["fail"]
                    else:
                        res = ["unknownfn"]
                except KeyError as e:
                    res = ["conflict"] if "conflict" in str(e).lower() else ["keyerror", str(e)[:40]]
                out.append({"a": "get", "ty": ty, "res": res,
                            "d": {"cin": sp["in_channels"], "cout": sp["out_channels"], "groups": sp["groups"],
                                  "k": list(sp["kernel_size"]), "usr": bool(sp["usr_flag"])}})
        return {"dflt": dflt, "ev": out}

    return execute


ALL_QUERIES = [(ty, list(s)) for ty in TYPES for r in range(4) for s in itertools.combinations(CONSTR, r)]


def _builtin_traces():
    """Every built-in cost specification: reconstruct its registration history (projection of the
    real object) and look up every layer class; validated against RefLookup like everything else."""
    use_repo()
    import torch.nn as nn
    import plinio.cost as pc
    from plinio.cost import CostSpec
    from plinio.cost.pattern import conv_dw_constraint, conv_3_constraint
    from plinio.cost.cost_spec import cost_spec_zero_fn, cost_spec_fail_fn
    cname = {None: "U", conv_dw_constraint: "dw", conv_3_constraint: "k3"}
    traces, scen = [], []
    for name in sorted(dir(pc)):
        cs = getattr(pc, name)
        if not isinstance(cs, CostSpec):
            continue
        dflt = "zero" if cs.default is cost_spec_zero_fn else "fail"
        for lt in (nn.Conv1d, nn.Conv2d, nn.Linear):
            entries = cs.data.get(lt, [])
            if any(c not in cname for c, _ in entries):
                continue
            ev = [{"a": "reg", "ty": "A", "p": cname[c]} for c, _ in entries]
            fn_of = {id(f): cname[c] for c, f in entries}
            # real torch layers, incl. the edge cases in_channels = groups != out_channels
            if lt is nn.Linear:
                layers = [nn.Linear(6, 8), nn.Linear(3, 1), nn.Linear(1, 4)]
            else:
                nd = 1 if lt is nn.Conv1d else 2
                layers = [lt(ci, co, k, groups=g) for (ci, co, g) in
                          [(6, 8, 1), (6, 6, 6), (1, 16, 1), (4, 8, 4), (8, 4, 4), (1, 1, 1), (6, 6, 2)]
                          for k in ([3, 5, 1] if nd == 1 else [3, 5, (3, 5), 1])]
            for ly in layers:
                sp = vars(ly)
                try:
                    f = cs[(lt, sp)]
                    if id(f) in fn_of:
                        res = ["fn", fn_of[id(f)]]
                    elif f is cost_spec_zero_fn:
                        res = ["zero"]
                    elif f is cost_spec_fail_fn:
                        res = ["fail"]
                    else:
                        res = ["unknownfn"]
                except KeyError as e:
                    res = ["conflict"] if "conflict" in str(e).lower() else ["keyerror"]
                if lt is nn.Linear:
                    d = {"cin": ly.in_features, "cout": ly.out_features, "groups": 0, "k": [1], "usr": False}
                else:
                    d = {"cin": ly.in_channels, "cout": ly.out_channels, "groups": ly.groups,
                         "k": [int(v) for v in ly.kernel_size], "usr": False}
                ev.append({"a": "get", "ty": "A", "res": res, "d": d})
            traces.append({"dflt": dflt, "ev": ev})
            scen.append({"kind": "builtin", "spec": name, "layer": lt.__name__, "n_reg": len(entries)})
    return traces, scen


def run(tier: str, seed: int, replay=None) -> int:
    R = Run("C15", tier, seed, level="model_checking")
    R.rule = ("scenario = (default behaviour, registration history, lookups); histories are all reachable states of "
              "CostLookupMC (sequences without repetition over 2 layer types x {U,dw,k3,usr}), each queried with all "
              "2x8 layer descriptions; plus seeded random interleavings of registrations and lookups and every built-in "
              "CostSpec. Non-trivial = at least two registrations of the queried history.")
    R.assumptions = ["which constraints a logged layer description (cin, cout, groups, kernel) satisfies is decided by TLC (CostLookup!RefSat: depthwise = in = out = groups, 3x3 = all kernel dims 3), not by the harness",
                     "re-registering the same (type, constraint) pair twice is outside the property's quantifier and not generated"]
    execute = _real_env()

    if replay:
        import json
        sc = json.load(open(replay))["scenario"]
        tr = execute(sc["dflt"], [tuple(e) for e in sc["events"]], sc.get("usr_kind", 0))
        R.validate("CostLookupTrace", "CostLookupTrace", [tr], [sc])
        return R.finish()

    # 1. design level: exhaustive model check of the (current) implementation model vs reference
    cfg = "CostLookupMC_quick" if tier == "quick" else "CostLookupMC_thorough"
    dot = tempfile.mktemp(prefix="c15-", suffix=".dot", dir=tlc.scratch())
    res = R.design("CostLookupMC", cfg, dump_dot=dot, coverage=True, require_cov=["CostLookupMC!Register"])
    # sanity (non-vacuity of the invariants): the transcription of the PINNED lookup must violate them
    R.design("CostLookupMC", "CostLookupMC_pinned", expect_ok=False)
    nodes, edges, init = tlc.parse_dot(dot + ".dot" if not dot.endswith(".dot") else dot)
    if len(nodes) != res.distinct:
        raise tlc.MachineryError(f"dump has {len(nodes)} states, TLC reported {res.distinct}")

    # 2. spec -> code: replay every reachable history on the real CostSpec
    traces, scen = [], []
    for st in nodes.values():
        h = len(traces)
        events = [("reg", ty, p) for ty, p in st["reg"]] + \
                 [("get", ty, sat, h + j) for ty, sat in ALL_QUERIES for j in (0, 7)]
        traces.append(execute(st["dflt"], events, h))
        scen.append({"kind": "state", "dflt": st["dflt"], "events": [list(e) for e in events], "n_reg": len(st["reg"]),
                     "usr_kind": h % 5})
    R.sample({"scenario": {"dflt": scen[-1]["dflt"], "registrations": [e for e in scen[-1]["events"] if e[0] == "reg"]},
              "observed": traces[-1]["ev"][-3:]})

    # 2b. identity / derived types: every history of CostLookupIdMC (types A, D < A, B; registrations that associate the
    #     spec's own default function object), all queries per history
    R.design("CostLookupIdMC", "CostLookupIdMC_sentinel", expect_ok=False)     # sanity: default object as 'no match' marker
    R.design("CostLookupIdMC", "CostLookupIdMC_mergebase", expect_ok=False)    # sanity: base-type lists merged into the lookup
    dot2 = tempfile.mktemp(prefix="c15id-", suffix=".dot", dir=tlc.scratch())
    res2 = R.design("CostLookupIdMC", "CostLookupIdMC_quick" if tier == "quick" else "CostLookupIdMC_fixed", dump_dot=dot2)
    nodes2, _, _ = tlc.parse_dot(dot2 + ".dot" if not dot2.endswith(".dot") else dot2)
    if len(nodes2) != res2.distinct:
        raise tlc.MachineryError(f"dump has {len(nodes2)} states, TLC reported {res2.distinct}")
    q_id = [(ty, list(s_)) for ty in ("A", "D", "B") for r_ in range(4) for s_ in itertools.combinations(CONSTR, r_)]
    for st in nodes2.values():
        if not st["reg"]:
            continue
        h = len(traces)
        dset = {tuple(x) for x in st["dreg"]}
        events = [("reg", ty, p, (ty, p) in dset) for ty, p in st["reg"]] + [("get", ty, sat, h) for ty, sat in q_id]
        traces.append(execute(st["dflt"], events, h))
        scen.append({"kind": "state-id", "dflt": st["dflt"], "events": [list(e) for e in events], "n_reg": len(st["reg"]),
                     "usr_kind": h % 5})

    # 3. code -> spec: random interleavings (lookups between registrations must not disturb anything)
    rng = random.Random(seed)
    n_rand = 400 if tier == "quick" else 6000
    pairs = [(ty, p) for ty in TYPES + ["C", "D"] for p in ["U"] + CONSTR]
    queries3 = ALL_QUERIES + [(t_, list(s_)) for t_ in ("C", "D") for r_ in range(4) for s_ in itertools.combinations(CONSTR, r_)]
    for _ in range(n_rand):
        k = rng.randint(1, 8)
        regs = rng.sample(pairs, k)
        events = []
        for r in regs:
            events.append(("reg",) + r + (rng.random() < 0.15,))
            for _ in range(rng.randint(0, 3)):
                ty, sat = rng.choice(queries3)
                events.append(("get", ty, sat, rng.randrange(1000)))
        dflt = rng.choice(["zero", "fail"])
        uk = rng.randrange(5)
        traces.append(execute(dflt, events, uk))
        scen.append({"kind": "random", "dflt": dflt, "events": [list(e) for e in events], "n_reg": k, "usr_kind": uk})
    R.sample({"scenario": scen[-1], "observed": traces[-1]["ev"][:6]})

    bt, bs = _builtin_traces()
    R.extra["builtin_specs_checked"] = len(bt)
    R.validate("CostLookupTrace", "CostLookupTrace", traces, scen, nontrivial=lambda s: s["n_reg"] >= 2, label="replay+random")
    R.validate("CostLookupTrace", "CostLookupTrace", bt, bs, nontrivial=lambda s: s["n_reg"] >= 2, label="builtin specs")
    R.exhaustive = True
    return R.finish()
