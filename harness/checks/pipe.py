"""PIPE - system-level check: the documented PLiNIO optimisation pipeline applied to one network, stage after stage
   seed -> PIT -> export() -> [PIT -> export()] -> MPS (per layer / per channel incl. 0 bit) -> export() -> integerize_arch.

Not one of the 20 listed properties: it composes C01 / C04 / C07 (PIT), C02 / C05 (MPS) and C14 (integer backends) along
the hand-overs between the stages (every stage consumes the OBJECT the previous stage returned).

design level : specs/PipelineMC.tla - TLC grows every architecture of a small grammar and explores every pipeline
               (alive sets x time-mask patterns x fold_bn x rounds x precision selections x backend); invariants
               (i) hand-over well-formedness / domain closure, (ii) alignment of every export, (iii) cost chain,
               (iv) summary chain.  An expected-to-fail configuration (no Supported() guard) shows they are not vacuous.
spec -> code : every completed pipeline of the dumps (quick: a stratified sample) is executed for real, end to end.
code -> spec : each execution is ONE multi-event trace (one event per stage, with the architecture of the stage output
               projected back from the torch modules into a FeatGraph record) validated stepwise by TLC
               (specs/PipelineTrace.tla recomputes ExportArch / costs / precisions with the same operators);
               seeded random pipelines beyond the bounds; corrupted copies of accepted traces must be rejected.
"""
from __future__ import annotations

import json
import random
from typing import Any, Dict, List

from ..core import Run, load_known, use_repo
from .. import tlc
from .. import pipe_gen

STAGE_PROPS = {"C01", "C02", "C04", "C05", "C07", "C08", "C09", "C14"}

PLAN = {
    "quick": {
        # (config, replay limit, label)
        "design": [("PipelineMC_quick2d", 90, "2-D: PIT (fold on/off) -> MPS per layer -> MATCH / MAUPITI"),
                   ("PipelineMC_quick1d", 60, "1-D: two PIT rounds with time masks -> MPS per layer"),
                   ("PipelineMC_quickpc", 20, "2-D: PIT -> MPS per channel incl. 0 bit")],
        "sanity": ["PipelineMC_asis"],
        "n_random": 70, "max_nodes": 8, "n_corrupt": 24, "procs": 8, "tlc_workers": 8,
    },
    "thorough": {
        "design": [("PipelineMC_quick2d", 0, "2-D: PIT (fold on/off) -> MPS per layer -> MATCH / MAUPITI; EVERY completed pipeline is executed"),
                   ("PipelineMC_quickpc", 0, "2-D: PIT -> MPS per channel incl. 0 bit; EVERY completed pipeline is executed"),
                   ("PipelineMC_thorough2d", 800, "2-D, 3 body nodes, width 3: PIT -> MPS per layer -> MATCH / MAUPITI"),
                   ("PipelineMC_thorough2dw", 800, "2-D, 2 body nodes, widths {2,3}, bias on/off, fold on/off, 3 tuple configurations -> MATCH / MAUPITI"),
                   ("PipelineMC_thorough1d", 800, "1-D, kernels {3,5}, BatchNorm, pooling: every (cut, level) time mask -> MPS per layer"),
                   ("PipelineMC_thorough1d2", 600, "1-D, kernels {2,3}, concatenation: two PIT rounds with every time mask -> MPS per layer"),
                   ("PipelineMC_thoroughpc", 300, "2-D, 3 body nodes: PIT -> MPS per channel incl. 0 bit"),
                   ("PipelineMC_thoroughcat", 400, "2-D PIT only, two rounds, channel concatenations, widths {2,3}")],
        "sanity": ["PipelineMC_asis"],
        "n_random": 1200, "max_nodes": 10, "n_corrupt": 120, "procs": 8, "tlc_workers": 8,
    },
}


def _key(sc):
    return {k: v for k, v in sc.items() if not k.startswith("_")}


def run(tier: str, seed: int, replay=None) -> int:
    R = Run("PIPE", tier, seed, level="model_checking")
    # the pipeline composes the stage properties: their open findings apply here too (matched by the same scenario predicates)
    for f in load_known().get("findings", []):
        if set(f.get("properties", [])) & (STAGE_PROPS | {"PIPE"}):
            R.known_open[f["id"]] = f
    R.rule = ("scenario = (seed architecture, fold_bn, masks of PIT round 1 [and 2], MPS candidate tuples + selection, backend); "
              "design level: every pipeline of PipelineMC (architectures grown from a small grammar + classifier head x alive sets x "
              "(cut, level) time masks x selections x backend); executed: a stratified sample (quick) / all up to the per-config limit "
              "(thorough) of the completed pipelines of the dumps + seeded random pipelines beyond the bounds. Non-trivial = PIT pruned "
              "something and (if MPS ran) some winner differs from the initial arg-max.")
    R.assumptions = [
        "PIT stages in float64 (tolerance 1e-9 (1 + max|y|)); the exported network is cast to float32 for the MPS / integer stages (the cast itself is checked to 1e-4 relative as a machinery clause)",
        "re-created BatchNorms are given the sliced statistics of the BatchNorm they replace (C01) before the network is handed on",
        "MPS import is not function preserving (it quantises, PACT clips negatives): nothing is claimed between the PIT export and the MPS model; MPS export is compared bit-for-bit in float32",
        "integer stage: per-layer level difference <= 1 + exact bound (Fraction arithmetic, as C14), final layer against the real-valued logits; only Conv2d / Linear networks (the backends' layer maps); 1-D pipelines end after MPS export",
        "export() of a per-channel MPS search is documented as not available (README of MPS): such pipelines end after the search (counted)",
        "pipelines whose exported network leaves the grammar of the next stage (concatenations into MPS) end there (counted); layer reuse and excluded layers are not generated (stage checks C09 / C07 cover them)",
        "the projection torch module -> architecture record (harness/pipe_gen.project) is trusted; it is validated on the seed network of every pipeline (projection = scenario architecture)",
    ]
    use_repo()
    plan = PLAN[tier]
    procs, workers = plan["procs"], plan["tlc_workers"]

    if replay:
        sc = _key(json.load(open(replay))["scenario"])
        tr = pipe_gen.run_scenarios([sc], procs=1)
        R.validate("PipelineTrace", "PipelineTrace", tr, [sc], key=_key)
        return R.finish()

    rng = random.Random(seed)
    scs: List[Dict[str, Any]] = []
    replay_info = []
    first = True
    # ---- 1. design level + dump of every completed pipeline
    for cfg, limit, label in plan["design"]:
        kw: Dict[str, Any] = {"workers": workers}
        if first:
            kw.update({"coverage": True, "require_cov": ["PipelineMC!Grow", "PipelineMC!Seal", "PipelineMC!PitSearch", "PipelineMC!PitExport",
                                                          "PipelineMC!MpsSearch", "PipelineMC!MpsExport", "PipelineMC!Integerize", "PipelineMC!Finish"]})
            first = False
        # (limit 0: every completed pipeline; otherwise a uniform pre-sample of 6 x limit, then stratified by shape / options)
        done, n_done, res = pipe_gen.dump_done_states("PipelineMC", cfg, R, keep=6 * limit, rng=rng, **kw)
        cand = [pipe_gen.scenario_from_state(st, seed * 100000 + len(scs) + j) for j, st in enumerate(done)]
        del done
        chosen = pipe_gen.stratified(cand, limit, rng)
        del cand
        for sc in chosen:
            sc["src"] = cfg
        scs += chosen
        replay_info.append({"cfg": cfg, "what": label, "states": res.distinct, "completed_pipelines": n_done, "executed": len(chosen)})
    # ---- 2. non-vacuity: without the Supported() guard the hand-over invariants must break
    for cfg in plan["sanity"]:
        R.design("PipelineMC", cfg, expect_ok=False, workers=workers)
    # ---- 3. seeded random pipelines beyond the bounds
    for j in range(plan["n_random"]):
        scs.append(pipe_gen.random_scenario(rng, seed * 100000 + 50000 + j, plan["max_nodes"]))
    # ---- findings that are not listed (yet) are not re-reported: the stage that carries their scenario predicate is not run
    gated: Dict[str, int] = {}
    if "F70" not in R.known_open:
        for sc in scs:
            if sc.get("int") and any(n["op"] == "add" for n in sc["arch"]["nodes"]):
                sc["int"] = None
                gated["F70: integer stage of networks with a residual add"] = gated.get("F70: integer stage of networks with a residual add", 0) + 1
    if "F71" not in R.known_open:
        for sc in scs:
            if sc.get("int") and any(n["op"] == "pool" and n.get("kind", "avg") == "avg" for n in sc["arch"]["nodes"]):
                sc["int"] = None
                gated["F71: integer stage of networks with an average pooling"] = gated.get("F71: integer stage of networks with an average pooling", 0) + 1
    R.extra["not_executed_unlisted_findings"] = gated
    # ---- 4. execute for real, end to end; one multi-event trace per pipeline
    traces = pipe_gen.run_scenarios(scs, procs=procs)
    for sc, tr in zip(scs, traces):
        sc["_nt"] = pipe_gen.nontrivial(tr)
    reached: Dict[str, int] = {}
    for tr in traces:
        k = pipe_gen.stages_reached(tr)
        reached[k] = reached.get(k, 0) + 1
    R.extra["replay"] = replay_info
    R.extra["pipelines_by_source"] = {s: sum(1 for sc in scs if sc["src"] == s) for s in sorted({sc["src"] for sc in scs})}
    R.extra["pipelines_by_stages_executed"] = reached
    R.extra["events_validated"] = sum(len(t["ev"]) for t in traces)
    R.extra["per_channel_export_raised_documented"] = sum(1 for t in traces for e in t["ev"] if e["k"] == "mpsx" and t["plan"]["wt"] == "pc" and not e["ok"])
    R.extra["integerize_attempted"] = sum(1 for t in traces for e in t["ev"] if e["k"] == "int")
    R.extra["integerize_completed"] = sum(1 for t in traces for e in t["ev"] if e["k"] == "int" and e["stage"] == "done")
    full = [i for i, t in enumerate(traces) if t["ev"][-1]["k"] == "int" and t["ev"][-1]["stage"] == "done"]
    if full:
        t = traces[full[0]]
        R.sample({"scenario": {k: scs[full[0]][k] for k in ("arch", "fold", "r1", "r2", "mps", "int", "seed")},
                  "observed": [{"stage": e["k"], **{k: e[k] for k in ("diff", "numel", "bit_identical", "cost", "W", "backend", "logit_e6") if k in e}}
                               for e in t["ev"]]})
    vs = R.validate("PipelineTrace", "PipelineTrace", traces, scs, nontrivial=lambda s: s["_nt"], key=_key,
                    label="completed pipelines of PipelineMC + seeded random pipelines, one multi-event trace each", workers=workers)
    # ---- 5. sensitivity of the trace specification: corrupted copies of accepted traces must be rejected
    # (pipelines replayed from the model checker: every stage they reach is inside the domain of that stage by construction,
    #  so every event is judged; a random pipeline may continue for real where the specification stops claiming)
    ok_idx = [i for i, v in enumerate(vs) if v == "ok" and scs[i]["src"].startswith("PipelineMC_") and len(traces[i]["ev"]) >= 3
              and traces[i]["ev"][2]["k"] == "pitx" and traces[i]["ev"][2]["ok"]]
    crng = random.Random(seed + 77)
    pick = sorted(crng.sample(ok_idx, min(len(ok_idx), plan["n_corrupt"])))
    if pick:
        cor = [pipe_gen.corrupt(traces[i], crng) for i in pick]
        cv, _ = tlc.validate_traces("PipelineTrace", "PipelineTrace", [c for c, _ in cor], workers=workers)
        missed = [k for (c, k), v in zip(cor, cv) if v == "ok" or v.startswith("drift:")]
        R.extra["corrupted_traces_rejected"] = f"{len(cor) - len(missed)}/{len(cor)}"
        R.extra["corrupted_fields"] = sorted({k for _, k in cor})
        if missed:
            raise tlc.MachineryError(f"sensitivity self-test: corrupted traces accepted by PipelineTrace (fields: {missed})")
    R.exhaustive = False
    return R.finish()
