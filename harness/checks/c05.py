"""C05 - MPS cost equals the exact bit-cost of the selected precision assignment.

design     : MPSLifeMC (TLC, exhaustive): architectures x precision tuples x winners (per layer) and x every
             channel -> precision map (per channel, with and without the pruning precision 0).  Invariants:
             InvCostExact - the transcription of MPSConv2d/MPSLinear.get_cost with one-hot coefficients (sum over the
             candidate pairs of mean(theta) x cost_fn(shown features)) equals the exact cost of the assignment (one
             layer of n_j channels per precision class, effective input features from the reference dataflow
             FeatGraph!ActM, cost formulas of CostFormulas) for params_bit, ops_bit, mpic_latency, ne16_latency, outside
             the signature of F05; InvSpecKeys - a cost function is shown the effective in/out features under the
             PyTorch names of its layer type; InvPruneLowers.  Expected-to-fail runs: without the F05 guard, and with
             the pinned MPSLinear.get_modified_vars (F04).
spec->code : selected states rebuilt as real MPS models (harness/mps_gen.py), winners written into the coefficients,
             one forward pass in eval mode or in training mode with hard sampling, then get_cost(name) for every
             metric and for a probing CostSpec that records the spec dictionaries it is shown.
code->spec : TLC (MPSLifeTrace) recomputes the exact cost from the logged architecture and the precisions that
             summary() reports, and compares; the probe records are compared with the effective feature counts.
Tolerance  : costs are logged x100 (rounded); |obs - 100*exact| <= 1 + exact/1000 (float32 accumulation: 1e-5 relative);
             MPIC (rational LUT): |10*obs - milli| <= 10 + 3*layers + milli/50000; probe values x1000, +-1.
"""
from __future__ import annotations

from .. import mps_gen

RULE = ("scenario = (2-D grammar architecture, candidate tuples, per-layer or per-channel weight search, winner per quantiser "
        "(per channel), temperature, eval or hard-sampling training mode, metrics params_bit / ops_bit / mpic_latency / "
        "ne16_latency where the metric is defined, probing cost specification). Scenarios are the selected states of the "
        "MPSLifeMC configurations (samples stratified by architecture shape, see coverage.replay) plus seeded random "
        "architectures. Non-trivial = some quantiser's winner differs from its initial arg-max (the largest precision).")
ASSUMPTIONS = [
    "the reference is the assignment summary() reports (its agreement with the coefficients is C02 / C10)",
    "hard-sampling mode = training mode with hard_softmax and no Gumbel noise (with noise the sampled one-hot is random and "
    "need not be the assignment summary() reports); eval mode with gumbel on or off",
    "a metric is required only where it is defined for EVERY candidate pair of a layer (plinio evaluates the cost function on all "
    "pairs): mpic activations/weights in {2,4,8}/{0,2,4,8}; ne16 all activation candidates 8 bit, 3x3 / 1x1 kernels",
    "per-channel (pruning) scenarios of the exhaustive configs: no searchable layer shares a sharing component with the network "
    "input, one width per component, the network ends in a layer; mpic / ne16 are evaluated in per-layer scenarios only",
    "cost_reduction_fn is the default torch.sum; full_cost = False",
]


def run(tier: str, seed: int, replay=None) -> int:
    q = tier == "quick"
    plan = {
        "rule": RULE, "assumptions": ASSUMPTIONS,
        "design": ([("MPSLifeMC_arch_quick", 270, 3, "arch"), ("MPSLifeMC_tuples_quick", 225, 1, "tuples"),
                    ("MPSLifeMC_ne16_quick", 200, 2, "ne16"), ("MPSLifeMC_pc_quick", 540, 60, "perchannel")] if q else
                   [("MPSLifeMC_arch_quick", 0, 0, "arch"), ("MPSLifeMC_arch_thorough", 1500, 3, "arch4"),
                    ("MPSLifeMC_tuples_thorough", 2000, 2, "tuples"), ("MPSLifeMC_ne16_quick", 2000, 2, "ne16"),
                    ("MPSLifeMC_few_thorough", 1200, 3, "few"), ("MPSLifeMC_pc_quick", 4500, 500, "perchannel"),
                    ("MPSLifeMC_pc_thorough", 5400, 200, "perchannel3")]),
        "sanity": ["MPSLifeMC_nokf05", "MPSLifeMC_pinned"],
        "n_random": 70 if q else 700, "random_sels": 2 if q else 3, "max_nodes": 9 if q else 12, "p_pc": 0.5,
        "procs": 8, "tlc_workers": 8,
    }
    return mps_gen.run_check("C05", tier, seed, replay, plan)
