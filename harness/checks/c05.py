"""C05 - MPS cost equals the exact bit-cost of the selected precision assignment.

design     : MPSLifeMC (TLC, exhaustive): architectures x precision tuples x winners (per layer) and x every
             channel -> precision map (per channel, with and without the pruning precision 0).  Invariants:
             InvCostExact - the transcription of MPSConv2d/MPSLinear.get_cost with one-hot coefficients (sum over the
             candidate pairs of mean(theta) x cost_fn(shown features)) equals the exact cost of the assignment (one
             layer of n_j channels per precision class, effective input features from the reference dataflow
             FeatGraph!ActM, cost formulas of CostFormulas) for params_bit, ops_bit, mpic_latency, ne16_latency, outside
             the signature of F05; InvSpecKeys - a cost function is shown the effective in/out features under the
             PyTorch names of its layer type; InvPruneLowers.  Expected-to-fail runs: without the F05 guard, and with
             the pinned MPSLinear.get_modified_vars (F04).
             Call histories (MaxHist): forward passes in eval / hard / hard-Gumbel mode, loads of other coefficients
             without a forward pass, export / summary / update_softmax_options; invariants InvCostTheta (in EVERY state
             whose theta is one-hot the cost is the exact cost of the assignment theta encodes), InvFreshIsSummary (after
             an arg-max forward pass that assignment is summary()'s), InvFreshDef (theta state = function of the history).
             1-D grammar (MPSConv1d), a layer object invoked at two call sites (InvPerInvocation: ops_bit charges every
             call site with its own output shape, params_bit the object once).
spec->code : selected states rebuilt as real MPS models (harness/mps_gen.py), winners written into the coefficients,
             the history executed (default: one forward pass in eval mode, in training mode with hard sampling, or in
             training mode with hard Gumbel sampling), then get_cost(name) for every metric in a shuffled order and
             again in the reverse order, and for a probing CostSpec that records the spec dictionaries it is shown.
code->spec : TLC (MPSLifeTrace) recomputes the exact cost from the logged architecture and the assignment the SAMPLED
             coefficients encode (arg-max of theta_alpha, logged with a one-hot bit), requires that assignment to equal
             summary()'s whenever the history ends "fresh" (MPSLife!ThetaState), and compares; order independence;
             the probe records are compared with the effective feature counts.
             Histories also contain: mode switches without a forward pass, forward passes in the CURRENT mode with autograd
             enabled or under no_grad (the claim does not depend on the autograd mode), coefficient writes by
             load_state_dict / in-place copy_ / .data assignment while staying in the mode, SGD steps on the weights only
             (theta stays fresh) / on all parameters (theta stale).  30% of the models are traced with an input_example of
             batch 2..5: the exact cost does not depend on it (InvBatchIndependent: no cost function reads out_shape[0]).
             Conv options as in C02 (stride changes the output shape the per-invocation metrics are charged for).
Purity     : frame clause C05.frame - every tensor of model.state_dict() (parameters, theta_alpha, temperature, the constants /
             masks registered by the features calculators), the value every input features calculator reports and the plain
             layer attributes are bit-identical before and after get_cost() (checked around the first read, the second read
             and the probe read); cost read twice gives the same value (C05.order); a cost that is not finite or >= 2^31/100
             is a VIOLATION (C05.cost ... not representable), never a harness error; any exception of get_cost is logged.
Two objects : history action fork (deepcopy; original perturbed; history continues on the copy; all clauses on the copy),
             loadT (load_state_dict of another temperature).  Sanity variant ForkImpl = "shared" must fail.
Claims     : eval mode / hard_softmax training (plain sampler): cost = exact cost of summary()'s assignment.
             hard Gumbel training: theta is a one-hot of a RANDOM candidate: cost = exact cost of the sampled assignment
             (read from theta_alpha); equality with summary() is NOT claimed.  Coefficients replaced without a forward
             pass (load_state_dict): theta is stale, cost = exact cost of the assignment sampled before; after the next
             forward pass in eval / hard mode the cost is exact for summary() again, whatever preceded.  A model that never
             ran a hard-sampling forward pass holds a SOFT theta (the conversion samples the new modules in training
             mode): nothing is claimed.  full_cost=True: without fixed layers the cost is unchanged; with fixed
             (excluded) conv / linear layers every bit metric raises KeyError (finding F65).
Tolerance  : costs are logged x100 (rounded); |obs - 100*exact| <= 1 + exact/1000 (float32 accumulation: 1e-5 relative);
             MPIC (rational LUT): |10*obs - milli| <= 10 + 3*layers + milli/50000; probe values x1000, +-1.
"""
from __future__ import annotations

from .. import mps_gen

RULE = ("scenario = (2-D grammar architecture, candidate tuples, per-layer or per-channel weight search, winner per quantiser "
        "(per channel), temperature, eval or hard-sampling training mode, metrics params_bit / ops_bit / mpic_latency / "
        "ne16_latency where the metric is defined, probing cost specification). Scenarios are the selected states of the "
        "MPSLifeMC configurations (samples stratified by architecture shape, see coverage.replay) plus seeded random "
        "architectures. Non-trivial = some quantiser's winner differs from its initial arg-max (the largest precision).")
ASSUMPTIONS = [
    "the reference is the assignment summary() reports (its agreement with the coefficients is C02 / C10)",
    "hard-sampling modes: training with hard_softmax and the plain sampler (cost = exact cost of summary()), training with hard Gumbel "
    "sampling (cost = exact cost of the SAMPLED assignment read from theta_alpha; summary-equality not claimed); eval mode with gumbel on or off",
    "stale theta (coefficients replaced without a forward pass): cost = exact cost of the assignment theta still encodes; soft theta "
    "(no hard-sampling forward pass since construction): nothing claimed (counted as trivially accepted)",
    "histories enumerated by TLC are replayed with the state's selection written first and every later `load` drawing new winners per "
    "quantiser object; in per-channel scenarios the history action export is replaced by summary (the per-channel exporter QuantList "
    "is outside C02/C05 and raises for depthwise / Conv1d layers, see report)",
    "weight sharing (a layer object with two call sites) only with per-layer search; 1-D: no BatchNorm after Conv1d, ne16 not applicable",
    "full_cost=True with fixed layers (F65) is replayed only while F65 is listed",
    "no plain conv with exactly one input and one output channel (it satisfies plinio's depthwise pattern: ambiguous cost function, cf. F26)",
    "a metric is required only where it is defined for EVERY candidate pair of a layer (plinio evaluates the cost function on all "
    "pairs): mpic activations/weights in {2,4,8}/{0,2,4,8}; ne16 all activation candidates 8 bit, 3x3 / 1x1 kernels",
    "per-channel (pruning) scenarios of the exhaustive configs: no searchable layer shares a sharing component with the network "
    "input, one width per component, the network ends in a layer; mpic / ne16 are evaluated in per-layer scenarios only",
    "cost_reduction_fn is the default torch.sum; full_cost = False",
]


def run(tier: str, seed: int, replay=None) -> int:
    q = tier == "quick"
    plan = {
        "rule": RULE, "assumptions": ASSUMPTIONS,
        "design": ([("MPSLifeMC_arch_quick", 150, 3, "arch"), ("MPSLifeMC_tuples_quick", 90, 1, "tuples"),
                    ("MPSLifeMC_ne16_quick", 100, 2, "ne16"), ("MPSLifeMC_pc_quick", 260, 40, "perchannel"),
                    ("MPSLifeMC_d1_quick", 90, 3, "arch1d"), ("MPSLifeMC_d1pc_quick", 120, 40, "perchannel1d"),
                    ("MPSLifeMC_reuse_quick", 75, 3, "reuse"), ("MPSLifeMC_hist_quick", 180, 40, "histories"),
                    ("MPSLifeMC_modes_quick", 120, 40, "modes"), ("MPSLifeMC_export_quick", 70, 30, "weightsteps"),
                    ("MPSLifeMC_opts_quick", 60, 3, "convopts"),
                    ("MPSLifeMC_fork_quick", 90, 30, "fork")] if q else
                   [("MPSLifeMC_arch_quick", 0, 0, "arch"), ("MPSLifeMC_arch_thorough", 1500, 3, "arch4"),
                    ("MPSLifeMC_tuples_thorough", 2000, 2, "tuples"), ("MPSLifeMC_ne16_quick", 2000, 2, "ne16"),
                    ("MPSLifeMC_few_thorough", 1200, 3, "few"), ("MPSLifeMC_pc_quick", 4500, 500, "perchannel"),
                    ("MPSLifeMC_pc_thorough", 5400, 200, "perchannel3"), ("MPSLifeMC_d1_quick", 0, 0, "arch1d"),
                    ("MPSLifeMC_d1_thorough", 1200, 3, "arch1d4"), ("MPSLifeMC_d1pc_quick", 1500, 200, "perchannel1d"),
                    ("MPSLifeMC_reuse_thorough", 1500, 3, "reuse"), ("MPSLifeMC_reuse1d_thorough", 600, 3, "reuse1d"),
                    ("MPSLifeMC_hist_thorough", 4000, 120, "histories"), ("MPSLifeMC_histpc_quick", 1500, 300, "histories-pc"),
                    ("MPSLifeMC_modes_thorough", 2500, 150, "modes"), ("MPSLifeMC_export_thorough", 1500, 100, "weightsteps"),
                    ("MPSLifeMC_opts_quick", 0, 0, "convopts"), ("MPSLifeMC_opts1d_quick", 0, 0, "convopts1d"),
                    ("MPSLifeMC_fork_thorough", 1500, 100, "fork")]),
        "sanity": ["MPSLifeMC_nokf05", "MPSLifeMC_pinned", "MPSLifeMC_cachefwd", "MPSLifeMC_sharedfork"],
        "n_random": 50 if q else 700, "random_sels": 2 if q else 3, "max_nodes": 9 if q else 12, "p_pc": 0.5,
        "procs": 8, "tlc_workers": 8,
    }
    return mps_gen.run_check("C05", tier, seed, replay, plan)
