"""C06 - SuperNet cost is the coefficient-weighted mix of branch costs.

design     : SNLifeMC (TLC, exhaustive): networks x winners x (for the life-cycle family) every
             interleaving of SetAlpha / SetHard / SetMode / Forward / Summary up to closure; invariants
             Bounds (min <= cost <= max over every theta vector compatible with the stored sample class,
             theta in units of 1/4), AsisIsRef (transcription of get_cost/_get_single_cost = reference mix
             outside the signature of finding F23), HardIsExport, StoredHot, exactness of the signature;
             an expected-to-fail run without the guard.
spec->code : every dumped state is rebuilt as a real SuperNet and driven along TLC's path; get_cost('params'),
             get_cost('ops') with full_cost off/on are observed before and after a forward pass and, under
             hard selection, after export(), together with theta_alpha (x10^4).
code->spec : TLC (SNLifeTrace) recomputes the mix from the logged theta and from branch / fixed costs that
             the harness measured independently of plinio's cost code (forward hooks: numel x output
             positions per invocation), checks the bounds, and compares the hard-selection cost with the
             same measurement made on the exported network.
Tolerances : exact one-hot sample -> exact equality (integers < 2^24 are exact in float32).  Otherwise, in
             units of 1e-4: 500 (cost logged to 0.1) + sum(branch costs)/2 (theta logged to 1e-4) +
             max cost / 20 (float32 accumulation, 5e-6 relative).
"""
from __future__ import annotations

from .. import sn_gen


def run(tier: str, seed: int, replay=None) -> int:
    q = tier == "quick"
    plan = {
        "rule": ("scenario = (abstract SuperNet as in C03; call history of coefficient updates, option updates, mode "
                 "changes, forward passes, summary(), export() and cost reads for metrics params (shared) and ops "
                 "(per invocation), full_cost off/on). Scenarios are the reachable states of the SNLifeMC configurations "
                 "(structure families x winners; life-cycle family x all interleavings) plus seeded random networks and "
                 "histories. Non-trivial = some block's winner differs from the initial arg-max (branch 0)."),
        "assumptions": [
            "metrics: plinio.cost.params and plinio.cost.ops on Conv2d / Linear layers (groups = 1 or depthwise)",
            "branch and fixed costs are measured by the harness with forward hooks (numel x output positions), not with plinio's cost code",
            "the bound clause is applied when the stored theta is a probability vector (always the case after a forward pass)",
            "10^4 * cost < 2^31: networks whose largest possible cost is >= 200000 are skipped and counted",
            "the harness restores train/eval mode after export()",
        ],
        "design": ([("SNLifeMC_struct_quick", True, 0, "struct"), ("SNLifeMC_reuse_quick", True, 0, "reuse"),
                    ("SNLifeMC_multi_quick", True, 240, "multi"), ("SNLifeMC_life_quick", True, 900, "life"),
                    ("SNLifeMC_names_quick", True, 250, "names"), ("SNLifeMC_fork_quick", True, 300, "fork"),
                    ("SNLifeMC_ref_quick", False, 0, "ref")] if q else
                   [("SNLifeMC_struct_thorough", True, 0, "struct"), ("SNLifeMC_reuse_thorough", True, 0, "reuse"),
                    ("SNLifeMC_multi_thorough", True, 4000, "multi"), ("SNLifeMC_life_thorough", True, 0, "life"),
                    ("SNLifeMC_names_thorough", True, 4000, "names"), ("SNLifeMC_fork_thorough", True, 4000, "fork"), ("SNLifeMC_names_prefixdot", False, 0, "names-prefixdot"),
                    ("SNLifeMC_ref_thorough", False, 0, "ref")]),
        # expected-to-fail (non-vacuity) configurations; the quick tier runs one per mechanism
        "sanity": (["SNLifeMC_pinned_cost", "SNLifeMC_names_prefix", "SNLifeMC_one_nosample", "SNLifeMC_fork_shared"] if q else
                   ["SNLifeMC_pinned_cost", "SNLifeMC_names_prefix", "SNLifeMC_names_sn", "SNLifeMC_names_leafset",
                    "SNLifeMC_one_nosample", "SNLifeMC_fork_shared"]),
        "n_random": 100 if q else 3000,
        "procs": 8,
    }
    return sn_gen.run_check("C06", tier, seed, replay, plan)
