"""C11 - trainability controls do what they say under every sequence of calls.

spec -> code : NasControlMC is explored to closure by TLC for the three kinds of model (PIT / MPS /
               SuperNet); the labelled state graph is dumped and EVERY edge is executed on real models
               (PIT with an input-tied and an output-tied frozen width, a strided Conv1d => frozen beta/gamma,
               and a shared add group; MPS per-layer and per-channel with shared quantisers; SuperNet with two
               blocks) along walks that start from a freshly constructed model.
code -> spec : after every call the harness projects the real object (identity lists of parameters() /
               nas_parameters() / net_parameters(), requires_grad and gradient class of every parameter object
               and of every frozen mask tensor, the PIT getters, temperature / hard flag / behaviourally
               classified sampler of every quantiser and combiner); TLC (NasControlTrace) validates every step
               with the same operators as the state machine.  Seeded random call sequences (multi-option
               updates included) on further models are validated the same way.
per-layer    : the control state is PER OBJECT.  Heterogeneous configurations of NasControlMC (several layers /
               two option blocks, per-layer calls layer.train_<f> / layer.discrete_cost / quantiser.
               update_softmax_options / combiner.softmax_temperature, hard_softmax, train_selection, and per-block
               constructor options of the SuperNetModules) are explored and replayed edge by edge as well: a
               model-level call must be a POINTWISE update (named thing everywhere, everything else as it was in
               that layer).
two objects  : Fork = the model is copied (copy.deepcopy, or a pickle round trip where the wrapper can be pickled) at any
               point of the history; the history continues on the copy and, interleaved, on the original.  Forking
               configurations of NasControlMC are explored and replayed edge by edge; after the fork BOTH objects are
               observed after every call: the addressed one must step like the machine, the other one must not change,
               the copy must start from the original's state, share no object with it and satisfy every invariant
               (partition, named = unnamed iterators, ...) on its own identity lists.
"""
from __future__ import annotations

import copy
import json
import pickle
import random
import re
import tempfile
from collections import deque
import multiprocessing
from concurrent.futures import ProcessPoolExecutor, ThreadPoolExecutor
from typing import Any, Dict, List, Tuple

from ..core import Run, canon, use_repo
from .. import tlc
from ..tlc import MachineryError

FLAG_ATTR = {"features": "train_features", "rf": "train_rf", "dilation": "train_dilation", "dc": "discrete_cost"}
TRAIN_CALL = {"nas": "train_nas_only", "net": "train_net_only", "both": "train_net_and_nas"}
NO_MC = {"none": True}
# abstract layers / blocks of the heterogeneous NasControlMC configurations -> modules of the harness' models
HMAP = {
    ("pit", "tcn"): {"layers": {"A": "seed.c3", "B": "seed.c0", "F1": "seed.c2", "F2": "seed.fc"}, "blocks": {}},
    ("mps", "channel"): {"layers": {}, "blocks": {"1": "seed.c2.w_mps_quantizer"}},
    ("mps", "layer"): {"layers": {}, "blocks": {"1": "seed.c2.w_mps_quantizer"}},
    ("sn", "std"): {"layers": {}, "blocks": {"1": "seed.b1.sn_combiner", "2": "seed.b2.sn_combiner"}},
}


# ----------------------------------------------------------------------------------------------
# real models
# ----------------------------------------------------------------------------------------------
def _env():
    use_repo()
    import torch
    import torch.nn as nn
    torch.set_num_threads(1)
    from plinio.methods import PIT, MPS, SuperNet
    from plinio.methods.mps import MPSType, get_default_qinfo
    from plinio.methods.mps.nn.qtz import MPSBaseQtz, MPSBiasQtz
    from plinio.methods.mps.nn.module import MPSModule
    from plinio.methods.mps.quant.quantizers import DummyQuantizer
    from plinio.methods.supernet import SuperNetModule
    from plinio.methods.supernet.nn.combiner import SuperNetCombiner
    from plinio.methods.pit.nn.module import PITModule
    from plinio.methods.pit.nn.features_masker import PITFeaturesMasker, PITFrozenFeaturesMasker
    from plinio.methods.pit.nn.timestep_masker import PITTimestepMasker, PITFrozenTimestepMasker
    from plinio.methods.pit.nn.dilation_masker import PITDilationMasker, PITFrozenDilationMasker

    # ---------------------------------------------------------------- seed networks
    class PitTcn(nn.Module):
        """1-D net: width tied to the input (cin + x), shared add group (c0, c1 with a fused BN), strided
        Conv1d (frozen rf / dilation masks), output-tied head."""
        shape = (3, 8)

        def __init__(self):
            super().__init__()
            self.cin = nn.Conv1d(3, 3, 3, padding='same')
            self.c0 = nn.Conv1d(3, 4, 3, padding='same')
            self.c1 = nn.Conv1d(3, 4, 3, padding='same')
            self.bn1 = nn.BatchNorm1d(4)
            self.c2 = nn.Conv1d(4, 5, 5, stride=2, padding=2)
            self.c3 = nn.Conv1d(5, 4, 3, padding='same')
            self.fc = nn.Linear(4 * 4, 2)

        def forward(self, x):
            r = torch.relu(self.cin(x) + x)
            a = self.c0(r)
            b = torch.relu(self.bn1(self.c1(r)))
            y = torch.relu(self.c2(a + b))
            y = torch.relu(self.c3(y))
            return self.fc(y.flatten(1))

    class PitCnn2d(nn.Module):
        """2-D net: shared add group, fused BN, output-tied head (no time masks)."""
        shape = (3, 6, 6)

        def __init__(self):
            super().__init__()
            self.c0 = nn.Conv2d(3, 4, 3, padding=1)
            self.bn0 = nn.BatchNorm2d(4)
            self.c1 = nn.Conv2d(3, 4, 3, padding=1)
            self.c2 = nn.Conv2d(4, 6, 3, padding=1)
            self.pool = nn.AdaptiveAvgPool2d(1)
            self.fc1 = nn.Linear(6, 5)
            self.fc2 = nn.Linear(5, 2)

        def forward(self, x):
            y = torch.relu(self.bn0(self.c0(x))) + torch.relu(self.c1(x))
            y = torch.relu(self.c2(y))
            y = self.pool(y).flatten(1)
            return self.fc2(torch.relu(self.fc1(y)))

    class PitReuse(nn.Module):
        """Weight sharing: `blk` is applied twice and its LAST application is the network output, so its output
        features are tied to the output whatever call site the conversion meets first."""
        shape = (3, 8)

        def __init__(self):
            super().__init__()
            self.c0 = nn.Conv1d(3, 4, 3, padding='same')
            self.blk = nn.Conv1d(4, 4, 3, padding='same')

        def forward(self, x):
            y = torch.relu(self.c0(x))
            y = torch.relu(self.blk(y))
            return self.blk(y)

    class PitTwoHeads(nn.Module):
        """Two network outputs returned as a LIST: both heads are tied to the output, whatever container holds them."""
        shape = (3, 8)

        def __init__(self):
            super().__init__()
            self.c0 = nn.Conv1d(3, 4, 3, padding='same')
            self.head_a = nn.Conv1d(4, 3, 3, padding='same')
            self.head_b = nn.Conv1d(4, 2, 1)

        def forward(self, x):
            f = torch.relu(self.c0(x))
            return [self.head_a(f), self.head_b(f)]

    # masks that the METHOD must freeze by construction, stated from the architecture of the seed networks above
    # (independent of the masker class the conversion chose): widths tied to the network input / output, receptive
    # field and dilation of strided convolutions
    MUST_FREEZE = {
        "tcn": {"alpha": ["seed.cin", "seed.fc"], "beta": ["seed.c2"], "gamma": ["seed.c2"]},
        "tcn_foldbn": {"alpha": ["seed.cin", "seed.fc"], "beta": ["seed.c2"], "gamma": ["seed.c2"]},
        "cnn2d": {"alpha": ["seed.fc2"]},
        "reuse": {"alpha": ["seed.blk"]},
        "heads": {"alpha": ["seed.head_a", "seed.head_b"]},
    }

    class MpsCnn(nn.Module):
        shape = (3, 4, 4)

        def __init__(self):
            super().__init__()
            self.c0 = nn.Conv2d(3, 4, 3, padding=1)
            self.c1 = nn.Conv2d(3, 4, 3, padding=1)
            self.bn = nn.BatchNorm2d(4)
            self.c2 = nn.Conv2d(4, 4, 3, padding=1)
            self.fc = nn.Linear(4 * 4 * 4, 2)

        def forward(self, x):
            a = torch.relu(self.c0(x))
            b = torch.relu(self.bn(self.c1(x)))
            y = torch.relu(self.c2(a + b))
            return self.fc(y.flatten(1))

    class SnNet(nn.Module):
        shape = (3, 4, 4)

        def __init__(self, gumbel, hard):
            super().__init__()
            gumbel = list(gumbel) if isinstance(gumbel, (list, tuple)) else [gumbel, gumbel]
            hard = list(hard) if isinstance(hard, (list, tuple)) else [hard, hard]
            self.b1 = SuperNetModule([
                nn.Conv2d(3, 3, 3, padding='same'),
                nn.Sequential(nn.Conv2d(3, 3, 3, padding='same'), nn.ReLU(), nn.Conv2d(3, 3, 1)),
                nn.Identity()], gumbel_softmax=gumbel[0], hard_softmax=hard[0])
            self.mid = nn.Conv2d(3, 4, 3, padding=1)
            self.b2 = SuperNetModule([
                nn.Conv2d(4, 4, 3, padding='same'),
                nn.Conv2d(4, 4, 5, padding='same')], gumbel_softmax=gumbel[1], hard_softmax=hard[1])
            self.fc = nn.Linear(4 * 4 * 4, 2)

        def forward(self, x):
            y = torch.relu(self.b1(x))
            y = torch.relu(self.mid(y))
            y = torch.relu(self.b2(y))
            return self.fc(y.flatten(1))

    def repo_model(name):
        """Seed networks of the repository's own unit tests (thorough tier)."""
        if name == "tcresnet14":
            from unit_test.models import TCResNet14
            cfg = {"input_channels": 6, "output_size": 12, "num_channels": [24, 36, 36, 48, 48, 72, 72],
                   "kernel_size": 9, "dropout": 0.5, "grad_clip": -1, "use_bias": True, "use_dilation": False,
                   "avg_pool": True}
            return TCResNet14(cfg), (6, 50)
        if name == "simplenn2d":
            from unit_test.models import SimpleNN2D
            return SimpleNN2D(), (3, 40, 40)
        raise MachineryError(f"unknown repo model {name}")

    # ---------------------------------------------------------------- construction
    def build(kind: str, variant: str, init: Dict[str, Any], wseed: int):
        """kind/variant/init -> (wrapper, input tensor).  `init` are the constructor's control arguments."""
        torch.manual_seed(1000 + wseed)
        if kind == "pit":
            if variant == "tcn":
                net, shape = PitTcn(), PitTcn.shape
            elif variant == "cnn2d":
                net, shape = PitCnn2d(), PitCnn2d.shape
            elif variant == "tcn_foldbn":
                net, shape = PitTcn(), PitTcn.shape
            elif variant == "reuse":
                net, shape = PitReuse(), PitReuse.shape
            elif variant == "heads":
                net, shape = PitTwoHeads(), PitTwoHeads.shape
            else:
                net, shape = repo_model(variant)
            m = PIT(net, input_shape=shape, train_features=init["features"], train_rf=init["rf"],
                    train_dilation=init["dilation"], discrete_cost=init["dc"],
                    fold_bn=(variant == "tcn_foldbn"))
            m._verif_must = MUST_FREEZE.get(variant, {})
        elif kind == "mps":
            if variant in ("layer", "channel", "channel0"):
                net, shape = MpsCnn(), MpsCnn.shape
            else:
                net, shape = repo_model(variant.split(":")[0])
            wt = MPSType.PER_LAYER if variant == "layer" else MPSType.PER_CHANNEL
            wp = (0, 2, 4, 8) if variant.endswith("0") else (2, 4, 8)
            m = MPS(net, input_shape=shape, w_search_type=wt, qinfo=get_default_qinfo(wp, (2, 4, 8)),
                    hard_softmax=init["hard"], gumbel_softmax=init["gumbel"], disable_sampling=init["disable"])
        elif kind == "sn":
            net, shape = SnNet(init["gumbel"], init["hard"]), SnNet.shape
            m = SuperNet(net, input_shape=shape)
        else:
            raise MachineryError(f"kind {kind}")
        g = torch.Generator().manual_seed(77 + wseed)
        x = torch.randn((2,) + tuple(shape), generator=g)
        return m, x

    # ---------------------------------------------------------------- projection
    class Projector:
        """Structural view of one wrapper, built WITHOUT the nas/net reporting functions under test."""

        def __init__(self, kind, model, x, hmap=None, parent=None):
            self.kind, self.model, self.x = kind, model, x
            self.hmap = hmap                   # None: class-level machine; else abstract layer/block -> module name
            # identity registry, SHARED by the projectors of an original and its copy
            self.ids: Dict[int, int] = parent.ids if parent is not None else {}
            self.keep: List[Any] = parent.keep if parent is not None else []   # keeps every object alive (no id() reuse)
            self.parent = parent
            # (owner module, attribute, class, owning layers (1-based), owning quantiser (1-based, 0 none))
            self.slots: List[Tuple[Any, str, str, List[int], int]] = []
            self.layers: List[Tuple[str, Any]] = []       # PIT layers (name, module)
            self.quant: List[Any] = []
            self.qnames: List[str] = []
            self.live: List[bool] = []
            self._classify()
            if parent is not None:     # a copy: same structure, do not disturb it with a probing forward pass
                self.live = list(parent.live)
                if len(self.live) != len(self.quant):
                    raise MachineryError("C11: the copy has another number of quantisers than the original")
            else:
                self._liveness()
            self._mc_names()

        def layer_index(self, name: str) -> int:
            for i, (n, _) in enumerate(self.layers):
                if n == name:
                    return i + 1
            raise MachineryError(f"C11: no PIT layer {name}")

        def quant_index(self, name: str) -> int:
            if name not in self.qnames:
                raise MachineryError(f"C11: no quantiser/combiner {name}")
            return self.qnames.index(name) + 1

        def layer_flags(self) -> List[Tuple[str, List[str]]]:
            """per-layer switches that exist: (layer name, [flag])"""
            return [(n, [f for f, a in FLAG_ATTR.items() if hasattr(l, a)]) for n, l in self.layers]

        def _mc_names(self):
            """Which object / block of the NasControlMC configuration being replayed a slot / quantiser realises."""
            self.mo, self.mb = [], []
            hm = self.hmap
            lay = {L: self.layer_index(n) for L, n in (hm["layers"].items() if hm else [])}
            blk = {int(b): self.quant_index(n) for b, n in (hm["blocks"].items() if hm else [])}
            for _, _, cls, own, q in self.slots:
                if hm is None or self.kind == "mps":
                    self.mo.append(cls)
                elif cls in ("w", "bn", "bnfold"):
                    self.mo.append("w")
                elif self.kind == "sn":
                    self.mo.append(f"snalpha_{q}" if cls == "snalpha" else "")
                else:
                    names = [f"{cls}_{L}" for L, i in sorted(lay.items()) if i in own]
                    self.mo.append(names[0] if names else "")
            for k, live in enumerate(self.live):
                if not live:
                    self.mb.append(0)
                elif hm is None:
                    self.mb.append(1)
                elif self.kind == "mps":
                    self.mb.append(1 if blk.get(1) == k + 1 else 2)
                else:
                    inv = {v: b for b, v in blk.items()}
                    self.mb.append(inv.get(k + 1, 0))

        def oid(self, t) -> int:
            k = id(t)
            if k not in self.ids:
                self.ids[k] = len(self.ids) + 1
                self.keep.append(t)
            return self.ids[k]

        def _classify(self):
            m = self.model
            seen = set()

            def add(owner, attr, cls, own=(), q=0):
                t = getattr(owner, attr)
                if id(t) in seen:
                    return
                seen.add(id(t))
                self.slots.append((owner, attr, cls, sorted(own), q))

            mods = list(m.named_modules())
            if self.kind == "pit":
                self.layers = [(n, l) for n, l in mods if isinstance(l, PITModule) and hasattr(l, "out_features_masker")]
                owners: Dict[int, List[int]] = {}
                for i, (_, l) in enumerate(self.layers):
                    for a in ("out_features_masker", "timestep_masker", "dilation_masker"):
                        mk = getattr(l, a, None)
                        if mk is not None:
                            owners.setdefault(id(mk), []).append(i + 1)
                must_d = getattr(m, "_verif_must", {}) or {}

                def must(kind_, own_):     # frozen by construction according to the architecture (not to the code)
                    return any(self.layers[i - 1][0] in must_d.get(kind_, ()) for i in own_)
                for _, l in mods:
                    own = owners.get(id(l), [])
                    if isinstance(l, PITFeaturesMasker):
                        cls = "alphaF" if (isinstance(l, PITFrozenFeaturesMasker) or must("alpha", own)) else \
                            ("alphaS" if len(own) > 1 else "alpha")
                        add(l, "alpha", cls, own)
                    elif isinstance(l, PITTimestepMasker):
                        add(l, "beta", "betaF" if (isinstance(l, PITFrozenTimestepMasker) or must("beta", own))
                            else "beta", own)
                    elif isinstance(l, PITDilationMasker):
                        add(l, "gamma", "gammaF" if (isinstance(l, PITFrozenDilationMasker) or must("gamma", own))
                            else "gamma", own)
                # the discrete_cost switch of every layer is an object of its own (class "dc")
                for i, (_, l) in enumerate(self.layers):
                    if hasattr(l, "discrete_cost"):
                        self.slots.append((l, "discrete_cost", "dc", [i + 1], 0))
            elif self.kind == "mps":
                owners = {}
                for _, l in mods:
                    if isinstance(l, MPSModule):
                        for a in ("out_mps_quantizer", "w_mps_quantizer"):
                            q = getattr(l, a, None)
                            if isinstance(q, MPSBaseQtz):
                                owners[id(q)] = owners.get(id(q), 0) + 1
                for qn, q in mods:
                    if isinstance(q, MPSBaseQtz):
                        self.quant.append(q)
                        self.qnames.append(qn)
                        dummy = all(isinstance(f, DummyQuantizer) for f in q.qtz_funcs)
                        add(q, "alpha", "qdummy" if dummy else ("qalphaS" if owners.get(id(q), 0) > 1 else "qalpha"),
                            (), len(self.quant))
                qmods = [q for _, q in mods if isinstance(q, (MPSBaseQtz, MPSBiasQtz))]
                for q in qmods:
                    for _, sub in q.named_modules():
                        for pn, _ in sub.named_parameters(recurse=False):
                            add(sub, pn, "qclip")
            else:
                for cn, c in mods:
                    if isinstance(c, SuperNetCombiner):
                        self.quant.append(c)
                        self.qnames.append(cn)
                        add(c, "alpha", "snalpha", (), len(self.quant))
            # everything else that is an nn.Parameter: network weights
            folded = {id(l.bn) for _, l in mods if getattr(l, "fold_bn", False) and getattr(l, "bn", None) is not None}
            for _, l in mods:
                for pn, _ in l.named_parameters(recurse=False):
                    cls = "w"
                    if self.kind == "pit" and isinstance(l, nn.modules.batchnorm._BatchNorm):
                        cls = "bnfold" if id(l) in folded else "bn"
                    add(l, pn, cls)

        def _liveness(self):
            """A quantiser/combiner is 'live' if the forward pass executes it and it has >1 alternatives."""
            called = set()
            hooks = [q.register_forward_hook(lambda mod, i, o: called.add(id(mod)) or None) for q in self.quant]
            was = [(mod, mod.training) for mod in self.model.modules()]
            rng = torch.get_rng_state()
            with torch.no_grad():
                self.model.eval()
                self.model(self.x)
            for mod, tr in was:
                mod.training = tr
            torch.set_rng_state(rng)
            for h in hooks:
                h.remove()
            self.live = [id(q) in called and int(q.alpha.shape[0]) > 1 for q in self.quant]

        def sampler(self, q) -> str:
            """Classify the sampling routine by what it does (soft, training mode): 'none' leaves theta_alpha
            untouched, 'gs' depends on the random stream, 'sm' does not."""
            theta, hard, training = q.theta_alpha, q.hard_softmax, q.training
            rng = torch.get_rng_state()
            try:
                q.hard_softmax = False
                q.training = True
                res = []
                with torch.no_grad():
                    for s in (11, 12):
                        sentinel = torch.full_like(theta.detach(), -7.0)
                        q.theta_alpha = sentinel
                        torch.manual_seed(s)
                        q.sample_alpha()
                        res.append(q.theta_alpha.detach().clone())
                if all(bool((r == -7.0).all()) for r in res):
                    return "none"
                return "sm" if torch.equal(res[0], res[1]) else "gs"
            finally:
                q.theta_alpha = theta
                q.hard_softmax = hard
                q.training = training
                torch.set_rng_state(rng)

        def observe(self) -> Dict[str, Any]:
            m = self.model
            o: Dict[str, Any] = {
                "all": [self.oid(p) for p in m.parameters()],
                "nas": [self.oid(p) for p in m.nas_parameters()],
                "net": [self.oid(p) for p in m.net_parameters()],
                "nnas": [self.oid(p) for _, p in m.named_nas_parameters()],
                "nnet": [self.oid(p) for _, p in m.named_net_parameters()],
            }
            ps = []
            for (owner, attr, cls, own, qi), mo in zip(self.slots, self.mo):
                t = getattr(owner, attr)
                if cls == "dc":     # a layer's discrete_cost switch: "rg" carries its value
                    ps.append({"id": self.oid(owner), "cls": cls, "par": False, "rg": bool(t), "grad": "none",
                               "own": own, "q": qi, "mo": mo})
                    continue
                if t.grad is None:
                    g = "none"
                else:
                    g = "zero" if bool((t.grad == 0).all()) else "nz"
                ps.append({"id": self.oid(t), "cls": cls, "par": isinstance(t, nn.Parameter),
                           "rg": bool(t.requires_grad), "grad": g, "own": own, "q": qi, "mo": mo})
            o["p"] = ps
            if self.kind == "pit":
                o["flags"] = {f: bool(getattr(m, a)) for f, a in FLAG_ATTR.items()}
            else:
                o["flags"] = {f: True for f in FLAG_ATTR}
            qs = []
            for q, live, mb in zip(self.quant, self.live, self.mb):
                temp = q.temperature if self.kind == "mps" else q.softmax_temperature
                qs.append({"temp": int(round(float(temp) * 1000)), "hard": bool(q.hard_softmax),
                           "sampler": self.sampler(q), "live": bool(live), "mb": mb})
            o["q"] = qs
            # the projection itself must be complete: every nn.Parameter has a slot
            if {x["id"] for x in ps if x["par"]} != set(o["all"]):
                raise MachineryError("C11 projection: parameters() and the structural slots disagree")
            return o

        def clear_grads(self):
            for owner, attr, cls, _, _ in self.slots:
                if cls != "dc":
                    getattr(owner, attr).grad = None

        # ------------------------------------------------------------ calls
        def resolve(self, act: Dict[str, Any]) -> Dict[str, Any]:
            """scenario call (layers / quantisers by module name) -> logged call (by index)"""
            out = {k: v for k, v in act.items() if k != "o"}
            if act["a"] == "lflag":
                out["l"] = self.layer_index(act["l"])
            elif act["a"] in ("lupd", "lsel"):
                out["b"] = self.quant_index(act["b"])
            return out

        def apply(self, act: Dict[str, Any]):
            """`act` is a resolved call"""
            m = self.model
            a = act["a"]
            if a == "lflag":
                layer = self.layers[act["l"] - 1][1]
                if not hasattr(layer, FLAG_ATTR[act["f"]]):
                    raise MachineryError(f"C11: layer has no switch {act['f']}")
                setattr(layer, FLAG_ATTR[act["f"]], bool(act["v"]))
            elif a == "lsel":
                self.quant[act["b"] - 1].train_selection = bool(act["v"])
            elif a == "lupd":
                q = self.quant[act["b"] - 1]
                if self.kind == "mps":      # the quantiser's own update_softmax_options
                    kw = {}
                    if act["temp"] != 0:
                        kw["temperature"] = act["temp"] / 1000.0
                    if act["hard"] != 2:
                        kw["hard"] = bool(act["hard"])
                    if act["gumbel"] != 2:
                        kw["gumbel"] = bool(act["gumbel"])
                    if act["disable"] != 2:
                        kw["disable_sampling"] = bool(act["disable"])
                    q.update_softmax_options(**kw)
                else:                       # the combiner's public attributes
                    if act["temp"] != 0:
                        q.softmax_temperature = act["temp"] / 1000.0
                    if act["hard"] != 2:
                        q.hard_softmax = bool(act["hard"])
            elif a == "train":
                getattr(m, TRAIN_CALL[act["g"]])()
            elif a == "flag":
                setattr(m, FLAG_ATTR[act["f"]], bool(act["v"]))
            elif a == "sel":
                m.train_selection = bool(act["v"])
            elif a == "upd":
                kw = {}
                if act["temp"] != 0:
                    kw["temperature"] = act["temp"] / 1000.0
                if act["hard"] != 2:
                    kw["hard"] = bool(act["hard"])
                if self.kind == "mps":
                    if act["gumbel"] != 2:
                        kw["gumbel"] = bool(act["gumbel"])
                    if act["disable"] != 2:
                        kw["disable_sampling"] = bool(act["disable"])
                m.update_softmax_options(**kw)
            elif a == "fwdbwd":
                m.train()
                self.clear_grads()
                y = m(self.x)
                ys = list(y.values()) if isinstance(y, dict) else (list(y) if isinstance(y, (list, tuple)) else [y])
                loss = sum(t.pow(2).mean() for t in ys) + m.cost
                if not loss.requires_grad:
                    return "noloss"
                try:
                    loss.backward()
                except RuntimeError as ex:
                    # MPS with sampling disabled re-uses the theta_alpha of an earlier forward whose autograd graph
                    # has been freed; not a C11 matter - recorded and counted (no gradient prediction for the event)
                    if "backward through the graph a second time" in str(ex):
                        return "error"
                    raise
                return "ok"
            else:
                raise MachineryError(f"unknown action {act}")
            return "-"

    def execute(sc: Dict[str, Any]) -> Dict[str, Any]:
        """Run one scenario {kind, variant, init, wseed, acts, mc?} on a fresh model; return the trace."""
        m, x = build(sc["kind"], sc["variant"], sc["init"], sc.get("wseed", 0))
        pr = Projector(sc["kind"], m, x, HMAP[(sc["kind"], sc["variant"])] if sc.get("hetero") else None)
        nq = len(pr.quant)
        gum = sc["init"].get("gumbel", False)
        gum0 = [bool(g) for g in gum] if isinstance(gum, (list, tuple)) else [bool(gum)] * nq
        if len(gum0) != nq:
            raise MachineryError("C11: per-block constructor options do not match the combiners")
        tr = {"kind": sc["kind"], "gum0": gum0, "dis0": [bool(sc["init"].get("disable", False))] * nq,
              "init": dict(pr.observe(), bwd="-"), "ev": []}
        mcs = sc.get("mc") or [NO_MC] * len(sc["acts"])
        prs = {1: pr}
        for act, mc in zip(sc["acts"], mcs):
            tgt = int(act.get("o", 1))
            if act["a"] == "fork":
                if 2 in prs:
                    raise MachineryError("C11: scenario forks twice")
                how = act.get("how", "deepcopy")
                cp, detached = None, False

                def nonleaf(exc):
                    return "graph leaves" in str(exc) or "non-leaf" in str(exc).lower()

                for h in ([how] if how == "deepcopy" else ["pickle", "deepcopy"]):
                    for _ in range(2):
                        try:
                            cp = copy.deepcopy(pr.model) if h == "deepcopy" else pickle.loads(pickle.dumps(pr.model))
                            how = h
                            break
                        except Exception as exc:
                            # after a training-mode forward an MPS quantiser / SuperNet combiner keeps its sampled
                            # theta_alpha, a NON-LEAF tensor, on the module: neither deepcopy nor pickle accept that.
                            # Not a C11 matter (recorded and counted): do what a user has to do - detach those
                            # tensors - and copy again
                            if isinstance(exc, RuntimeError) and nonleaf(exc) and not detached:
                                detached = True
                                for mod in pr.model.modules():
                                    for store in (vars(mod), mod._buffers):
                                        for k, v in list(store.items()):
                                            if isinstance(v, torch.Tensor) and v.grad_fn is not None:
                                                store[k] = v.detach()
                                continue
                            if h == "pickle":   # not every wrapper can be pickled (fx GraphModule of a SuperNet): plain copy
                                break
                            raise
                    if cp is not None:
                        break
                prs[2] = Projector(sc["kind"], cp, x, pr.hmap, parent=pr)
                logged, status, tgt = {"a": "fork", "how": how, "detached": detached}, "-", 2
            else:
                if tgt not in prs:
                    raise MachineryError("C11: scenario addresses a copy before the fork")
                logged = prs[tgt].resolve(act)
                status = prs[tgt].apply(logged)
            o1 = dict(prs[1].observe(), bwd=status if tgt == 1 else "-")
            o2 = dict(prs[2].observe(), bwd=status if tgt == 2 else "-") if 2 in prs else NO_MC
            tr["ev"].append({"act": logged, "o": tgt, "obs": o1, "obs2": o2, "mc": mc})
            for q in prs.values():
                q.clear_grads()
        return tr

    def meta(kind: str, variant: str) -> Dict[str, Any]:
        """names of the per-layer switches / live quantisers of a model variant (for the random generator)"""
        init = {"features": True, "rf": True, "dilation": True, "dc": False, "hard": False, "gumbel": False,
                "disable": False}
        m, x = build(kind, variant, init, 0)
        pr = Projector(kind, m, x)
        return {"layers": [(n, fl) for n, fl in pr.layer_flags() if fl],
                "quants": [n for n, live in zip(pr.qnames, pr.live) if live]}

    execute.meta = meta
    return execute


# ----------------------------------------------------------------------------------------------
# state graph -> covering walks
# ----------------------------------------------------------------------------------------------
def _upd(a: str, o: str, v: int) -> Dict[str, Any]:
    return {"a": a, "temp": v if o == "temp" else 0, "hard": v if o == "hard" else 2,
            "gumbel": v if o == "gumbel" else 2, "disable": v if o == "disable" else 2}


def _parse_label(lab: str, hmap=None) -> Dict[str, Any]:
    """Edge label of the dump -> call of the scenario format (abstract layers / blocks mapped to module names;
    "o" = the object addressed: 1 original, 2 copy)."""
    lab = lab.strip()
    if lab == "Fork":
        return {"a": "fork"}
    m = re.match(r"^(\w+)\((.*)\)$", lab, re.S)
    if not m:
        raise MachineryError(f"edge label {lab!r}")
    name, args = m.group(1), tlc.parse_value("<<" + m.group(2) + ">>")
    i, args = int(args[0]), args[1:]
    if name == "FwdBwd":
        act = {"a": "fwdbwd"}
    elif name == "Train":
        act = {"a": "train", "g": args[0]}
    elif name == "SetFlag":
        act = {"a": "flag", "f": args[0], "v": bool(args[1])}
    elif name == "LFlag":
        act = {"a": "lflag", "l": hmap["layers"][args[0]], "f": args[1], "v": bool(args[2])}
    elif name == "Sel":
        act = {"a": "sel", "v": bool(args[0])}
    elif name == "LSel":
        act = {"a": "lsel", "b": hmap["blocks"][str(args[0])], "v": bool(args[1])}
    elif name == "Upd":
        act = _upd("upd", args[0], args[1])
    elif name == "LUpd":
        act = dict(_upd("lupd", args[1], args[2]), b=hmap["blocks"][str(args[0])])
    else:
        raise MachineryError(f"edge label {lab!r}")
    if i != 1:
        act["o"] = i
    return act


def _covering_walks(nodes, edges, init, maxlen: int, rng: random.Random):
    """Walks from initial states that together traverse every edge of the graph."""
    out: Dict[str, List[int]] = {n: [] for n in sorted(nodes)}
    for k, (s, _, _) in enumerate(edges):
        out[s].append(k)
    for n in sorted(out):
        rng.shuffle(out[n])
    uncovered = set(range(len(edges)))
    pending = {n: deque(out[n]) for n in nodes}

    def next_uncovered(n):
        dq = pending[n]
        while dq and dq[0] not in uncovered:
            dq.popleft()
        return dq[0] if dq else None

    def path_to_uncovered(src):
        prev = {src: None}
        dq = deque([src])
        while dq:
            n = dq.popleft()
            if next_uncovered(n) is not None:
                p = []
                while prev[n] is not None:
                    p.append(prev[n][1])
                    n = prev[n][0]
                return list(reversed(p))
            for k in out[n]:
                d = edges[k][1]
                if d not in prev:
                    prev[d] = (n, k)
                    dq.append(d)
        return None

    walks = []
    inits = sorted(init)
    r = 0
    while uncovered:
        start = inits[r % len(inits)]
        r += 1
        cur, walk = start, []
        while True:
            k = next_uncovered(cur)
            if k is None:
                p = path_to_uncovered(cur)
                if p is None or (walk and len(walk) + len(p) + 1 > maxlen):
                    break
                walk += p
                cur = edges[p[-1]][1] if p else cur
                k = next_uncovered(cur)
            walk.append(k)
            uncovered.discard(k)
            cur = edges[k][1]
            if len(walk) >= maxlen:
                break
        if not walk:
            if r > 4 * len(inits) + len(edges):
                raise MachineryError("edge cover does not make progress")
            continue
        walks.append((start, walk))
    return walks


def _mc_state(st: Dict[str, Any], hetero: bool, call: Dict[str, Any]) -> Dict[str, Any]:
    """state of the object the call addresses (the copy for a fork) in the target state of the edge"""
    ob = st["objs"][(2 if call["a"] == "fork" else int(call.get("o", 1))) - 1]
    mc = {"rg": ob["rg"], "opt": ob["opt"]}
    if not hetero:
        mc["flags"] = ob["flags"]       # getter memory is part of the class-level machine only
    return mc


def _init_args(kind: str, st: Dict[str, Any], hetero: bool) -> Dict[str, Any]:
    """constructor arguments that produce the initial state `st`"""
    st = st["objs"][0]
    if kind == "pit":
        if not hetero:
            return dict(st["flags"])
        rg = st["rg"]
        return {"features": rg.get("alpha_A", True), "rf": rg.get("beta_A", True),
                "dilation": rg.get("gamma_A", True), "dc": rg.get("dc_A", False)}
    opt = st["opt"]
    if kind == "sn" and hetero:         # options PER SuperNetModule
        return {"hard": [o["hard"] for o in opt], "gumbel": [o["gumbel"] for o in opt], "disable": False}
    return {"hard": opt[0]["hard"], "gumbel": opt[0]["gumbel"], "disable": opt[0]["disable"]}


# ----------------------------------------------------------------------------------------------
# random call sequences (code -> spec, outside the exhaustive bounds)
# ----------------------------------------------------------------------------------------------
TEMPS = [125, 250, 500, 1000, 1500, 3000, 8000]


def _random_scenario(kind: str, variant: str, rng: random.Random, length: int, meta: Dict[str, Any]) -> Dict[str, Any]:
    if kind == "pit":
        init = {f: rng.random() < 0.6 for f in FLAG_ATTR}
    elif kind == "mps":
        init = {"hard": rng.random() < 0.3, "gumbel": rng.random() < 0.4, "disable": rng.random() < 0.2}
    else:   # per-block constructor options
        init = {"hard": [rng.random() < 0.4, rng.random() < 0.4], "gumbel": [rng.random() < 0.5, rng.random() < 0.5],
                "disable": False}
    acts = []
    for _ in range(length):
        u = rng.random()
        if u < 0.2:
            acts.append({"a": "train", "g": rng.choice(["nas", "net", "both"])})
        elif u < 0.35:
            acts.append({"a": "fwdbwd"})
        elif kind == "pit":
            if u < 0.6 or not meta["layers"]:
                acts.append({"a": "flag", "f": rng.choice(list(FLAG_ATTR)), "v": rng.random() < 0.5})
            else:       # the switch of ONE layer
                ln, fl = rng.choice(meta["layers"])
                acts.append({"a": "lflag", "l": ln, "f": rng.choice(fl), "v": rng.random() < 0.5})
        elif kind == "sn" and u < 0.45:
            acts.append({"a": "sel", "v": rng.random() < 0.5})
        elif kind == "sn" and u < 0.55:
            acts.append({"a": "lsel", "b": rng.choice(meta["quants"]), "v": rng.random() < 0.5})
        else:
            # one to three options at once, any temperature on a x1000 grid; model-level or ONE quantiser/combiner
            names = ["temp", "hard"] + (["gumbel", "disable"] if kind == "mps" else [])
            chosen = rng.sample(names, rng.choice([1, 1, 1, 2, 3]) if kind == "mps" else rng.choice([1, 1, 2]))
            a = {"a": "upd", "temp": 0, "hard": 2, "gumbel": 2, "disable": 2}
            for nme in chosen:
                a[nme] = rng.choice(TEMPS) if nme == "temp" else rng.randint(0, 1)
            if rng.random() < 0.4 and meta["quants"]:
                a["a"] = "lupd"
                a["b"] = rng.choice(meta["quants"])
            acts.append(a)
    if rng.random() < 0.5:      # copy the model somewhere; afterwards every call goes to the original or to the copy
        k = rng.randint(0, len(acts))
        how = "pickle" if (kind != "sn" and rng.random() < 0.5) else "deepcopy"
        acts = acts[:k] + [{"a": "fork", "how": how}] + [dict(a, o=rng.choice([1, 2])) for a in acts[k:]]
    return {"kind": kind, "variant": variant, "init": init, "wseed": rng.randint(0, 999), "acts": acts,
            "hetero": False, "src": "random"}


def _pairwise_probes(metas) -> List[Dict[str, Any]]:
    """Deterministic family: make ONE switch / option heterogeneous (two layers / quantisers set to opposite values), then
    issue ONE model-level call; for every heterogeneous switch x every model-level call x both orientations.  (The
    thorough tier covers this by closure of the full heterogeneous machines; the quick tier explores the PIT machine
    for two pairs of switches and the MPS machine without `disable`, so the cross pairs are probed here.)"""
    out = []
    la, lb = HMAP[("pit", "tcn")]["layers"]["A"], HMAP[("pit", "tcn")]["layers"]["B"]
    zs = [{"a": "flag", "f": f, "v": v} for f in FLAG_ATTR for v in (False, True)] + \
         [{"a": "train", "g": g} for g in ("nas", "net", "both")]
    for x in FLAG_ATTR:
        for orient in (False, True):
            acts = []
            for z in zs:
                acts += [{"a": "lflag", "l": la, "f": x, "v": orient}, {"a": "lflag", "l": lb, "f": x, "v": not orient}, z]
            out.append({"kind": "pit", "variant": "tcn", "wseed": 0, "acts": acts, "hetero": False, "src": "probe",
                        "init": {"features": True, "rf": True, "dilation": True, "dc": False}})
    q1 = HMAP[("mps", "channel")]["blocks"]["1"]
    q2 = [n for n in metas[("mps", "channel")]["quants"] if n != q1][0]
    vals = {"temp": (500, 2000), "hard": (0, 1), "gumbel": (0, 1), "disable": (0, 1)}
    zs = [_upd("upd", o, v) for o in vals for v in vals[o]]
    for x in vals:
        for orient in (0, 1):
            acts = []
            for z in zs:
                acts += [dict(_upd("lupd", x, vals[x][orient]), b=q1), dict(_upd("lupd", x, vals[x][1 - orient]), b=q2), z]
            out.append({"kind": "mps", "variant": "channel", "wseed": 0, "acts": acts, "hetero": False, "src": "probe",
                        "init": {"hard": False, "gumbel": False, "disable": False}})
    return out


# ----------------------------------------------------------------------------------------------
_EXEC = None        # the scenario executor, inherited by the forked worker processes


def _exec_one(sc):
    return _EXEC(sc)


PIT_PAIRINGS = [("frf", "dildc"), ("fdil", "rfdc"), ("fdc", "rfdil")]


def _graph_configs(tier: str, seed: int):
    """(kind, cfg, hetero, model variants, actions that must be covered)"""
    q = tier == "quick"
    sfx = "quick" if q else "thorough"
    hom = {"pit": ["tcn"], "mps": ["channel"], "sn": ["std"]} if q else \
          {"pit": ["tcn", "cnn2d", "tcn_foldbn"], "mps": ["layer", "channel", "channel0"], "sn": ["std"]}
    out = [("pit", f"NasControlMC_pit_{sfx}", False, hom["pit"], ["SetFlag", "Train"]),
           ("mps", f"NasControlMC_mps_{sfx}", False, hom["mps"], ["Upd", "Train"]),
           ("sn", f"NasControlMC_sn_{sfx}", False, hom["sn"], ["Upd", "Sel", "Train"])]
    if q:   # two pairs of switches per run; the three pairings rotate with the seed
        out += [("pit", f"NasControlMC_pith_{n}_quick", True, ["tcn"], ["SetFlag", "LFlag", "Train"])
                for n in PIT_PAIRINGS[seed % 3]]
    else:
        out += [("pit", "NasControlMC_pith_thorough", True, ["tcn"], ["SetFlag", "LFlag", "Train"])]
    out += [("mps", f"NasControlMC_mpsh_{sfx}", True, ["channel"], ["Upd", "LUpd"]),
            ("sn", f"NasControlMC_snh_opt_{sfx}", True, ["std"], ["Upd", "LUpd"]),
            ("sn", f"NasControlMC_snh_ctl_{sfx}", True, ["std"], ["Sel", "LSel", "Train"])]
    # two objects: the model is copied somewhere in the history
    out += [("pit", f"NasControlMC_pitf_{sfx}", False, ["tcn"], ["Fork", "SetFlag", "Train"]),
            ("mps", f"NasControlMC_mpsf_{sfx}", False, ["channel"], ["Fork", "Upd", "Train"]),
            ("sn", f"NasControlMC_snf_{sfx}", False, ["std"], ["Fork", "Sel", "Train"])]
    return out


def run(tier: str, seed: int, replay=None) -> int:
    R = Run("C11", tier, seed, level="model_checking")
    R.rule = ("scenario = (kind of model, model variant, constructor's control arguments [per SuperNetModule for heterogeneous "
              "SuperNets], sequence of calls over {train_nas_only, train_net_only, train_net_and_nas, train_features/rf/dilation := T/F, "
              "discrete_cost := T/F, train_selection := T/F, update_softmax_options(one option), forward+backward of loss+cost, Fork = copy the "
              "model (deepcopy / pickle round trip) and continue on the copy and on the original} and "
              "their per-layer forms {layer.train_<f> := v, layer.discrete_cost := v, quantiser.update_softmax_options(one option), "
              "combiner.softmax_temperature / hard_softmax / train_selection := v}). The sequences are walks from initial states that "
              "cover EVERY edge of every state graph TLC computes to closure for NasControlMC (class-level machine per kind; "
              "heterogeneous per-layer / per-block machines per kind), executed on real models; plus seeded random sequences "
              "(multi-option and per-layer updates, other temperatures, other models) and a deterministic family of pairwise "
              "heterogeneity probes (one switch/option made heterogeneous, then one model-level call; all combinations). "
              "Non-trivial = non-empty call history.")
    R.assumptions = [
        "a parameter's class (weight / fused-BN affine / free, shared or frozen mask / quantiser alpha / quantiser-internal / "
        "combiner alpha), its owning layers and its owning quantiser are read structurally from the module tree (masker and "
        "quantiser types), not from the nas/net lists under test",
        "'receives a gradient' = .grad is not None and not identically zero after backward of (output^2).mean() + model.cost in "
        "training mode with all grads cleared before; inputs and weights are seeded random (generic)",
        "the sampler of a quantiser/combiner is classified by behaviour (theta_alpha untouched = none, depends on the random "
        "stream = gumbel, else softmax) with hard sampling switched off and restored around the probe; temperature and the hard "
        "flag are read from the public attributes",
        "quantisers the forward pass never executes or that have a single alternative (dummy quantisers) may be skipped by "
        "update_softmax_options; for them only 'unspecified options do not change' is required",
        "per-layer state is produced through the layers' public switches (PIT layer.train_features/train_rf/train_dilation/"
        "discrete_cost, MPS quantiser.update_softmax_options, SuperNetCombiner.softmax_temperature/hard_softmax/train_selection and "
        "the SuperNetModule constructor options); MPS has no per-layer trainability switch, PIT no sampling options",
        "quick tier: the heterogeneous PIT machine is explored for two disjoint pairs of switches (rotating with the seed: seeds "
        "0,1,2 cover all six pairs), the heterogeneous MPS machine without the disable option; thorough: all four switches / options",
        "a model is copied at most once per history (two live objects); copies are made with copy.deepcopy and, for PIT and MPS "
        "wrappers, with a pickle round trip (a SuperNet wrapper cannot be pickled: fx GraphModule; torch.save of any wrapper "
        "fails on a module object) - where pickling raises the harness falls back to deepcopy and logs that",
        "eval-mode forward, export(), summary() and optimiser steps are not part of this property's alphabet (C10/C17/C18)",
    ]
    execute = _env()

    if replay:
        sc = json.load(open(replay))["scenario"]
        tr = execute(sc)
        R.validate("NasControlTrace", "NasControlTrace", [tr], [sc], key=_key)
        return R.finish()

    rng = random.Random(seed)
    scen: List[Dict[str, Any]] = []
    maxlen = 24 if tier == "quick" else 40
    configs = _graph_configs(tier, seed)
    sanity = ["NasControlMC_pit_pinned", "NasControlMC_mps_pinned_kept", "NasControlMC_snh_bcast1",
              "NasControlMC_pitf_idcache"]
    if tier != "quick":
        sanity += ["NasControlMC_pit_pinned_grad", "NasControlMC_mps_pinned", "NasControlMC_mpsh_bcast1",
                   "NasControlMC_snh_homog", "NasControlMC_pith_homog", "NasControlMC_mpsf_idcache_train",
                   "NasControlMC_snf_idcache_iter", "NasControlMC_pitf_nodiverge"]

    # scenarios are independent of each other (fresh model, own seeds): executed by a few single-threaded processes.
    # The workers are forked NOW, before any TLC subprocess exists (a forked worker would inherit the pipes of a running
    # subprocess and keep them open).
    global _EXEC
    _EXEC = execute
    pex = ProcessPoolExecutor(max_workers=4, mp_context=multiprocessing.get_context("fork"))
    if [f.result() for f in [pex.submit(int, k) for k in range(8)]] != list(range(8)):
        raise MachineryError("worker pool")

    # 1. design level (all TLC runs side by side, in the background) + dumps
    tlc.scratch()
    dots = {cfg: tempfile.mktemp(prefix=f"c11-{cfg}-", suffix=".dot", dir=tlc.scratch()) for _, cfg, _, _, _ in configs}

    # TLC itself runs in background threads (plain tlc.run_tlc / tlc.validate_traces); the bookkeeping of the Run
    # (R.design / R.validate: counters, expectations, coverage guards, verdict classification) is done afterwards in
    # this thread on the finished results, through `_with_result`
    def _with_result(name, res, fn):
        orig = getattr(tlc, name)
        setattr(tlc, name, lambda *a, **k: res)
        try:
            return fn()
        finally:
            setattr(tlc, name, orig)

    def design_kw(job):
        cfg, cov = job
        if cov is None:     # sanity (non-vacuity): literal model of the pinned code / broadcast-from-first-block variant /
            return dict(workers=2)                                  # identity-keyed partition ... must FAIL
        return dict(dump_dot=dots[cfg], coverage=True, workers=2)

    def design_book(job, res):
        cfg, cov = job
        if cov is None:
            return _with_result("run_tlc", res, lambda: R.design("NasControlMC", cfg, expect_ok=False, workers=2))
        return _with_result("run_tlc", res, lambda: R.design(
            "NasControlMC", cfg, dump_dot=dots[cfg], coverage=True,
            require_cov=[f"NasControlMC!{a}" for a in cov], workers=2))

    jobs = [(cfg, cov) for _, cfg, _, _, cov in configs] + [(c, None) for c in sanity]
    dex = ThreadPoolExecutor(max_workers=8)
    dfuts = [dex.submit(tlc.run_tlc, "NasControlMC", j[0], **design_kw(j)) for j in jobs]
    traces: List[Dict[str, Any]] = []
    vex = ThreadPoolExecutor(max_workers=3)     # TLC validates finished parts while the next ones are executed
    vfuts = []

    def run_part(part_s):
        part_t = list(pex.map(_exec_one, part_s, chunksize=2))
        scen.extend(part_s)
        traces.extend(part_t)
        vfuts.append((part_s, part_t, vex.submit(tlc.validate_traces, "NasControlTrace", "NasControlTrace", part_t,
                                                 chunk=1000, workers=4)))

    def interleave(xs):     # the first reported violations then show every kind of model
        by_kind = {k: [s for s in xs if s["kind"] == k] for k in ("pit", "mps", "sn")}
        return [by_kind[k][i] for i in range(max(map(len, by_kind.values()))) for k in ("pit", "mps", "sn")
                if i < len(by_kind[k])]

    try:
        # 2. code -> spec (while TLC works on the design configs): random sequences (model-level and per-layer calls
        #    mixed, a copy of the model somewhere) and the pairwise heterogeneity probes
        n_rand = 32 if tier == "quick" else 700
        rl = 14 if tier == "quick" else 30
        rvars = {"pit": ["tcn", "cnn2d", "reuse", "heads"], "mps": ["layer", "channel", "channel0"], "sn": ["std"]}
        if tier != "quick":
            rvars["pit"] += ["tcn_foldbn", "tcresnet14"]
            rvars["mps"] += ["simplenn2d:channel"]
        metas = {(k, v): execute.meta(k, v) for k in rvars for v in rvars[k]}
        free: List[Dict[str, Any]] = []
        for kind in ("pit", "mps", "sn"):
            for i in range(n_rand):
                v = rvars[kind][i % len(rvars[kind])]
                n_here = rl if v not in ("tcresnet14",) else 10
                if v in ("tcresnet14", "simplenn2d:channel") and i >= 60:
                    v = rvars[kind][i % 2]
                free.append(_random_scenario(kind, v, rng, n_here, metas[(kind, v)]))
        probes = _pairwise_probes(metas)
        free = interleave(free + probes)
        fstep = len(free) if tier == "quick" else 300
        for lo in range(0, len(free), fstep):
            run_part(free[lo:lo + fstep])

        # 3. spec -> code: walks covering every edge, on every model variant of the configuration
        results = [design_book(j, f.result()) for j, f in zip(jobs, dfuts)]
        edges_total = 0
        graph_info = {}
        walks_s: List[Dict[str, Any]] = []
        for (kind, cfg, hetero, variants, _), res in zip(configs, results):
            nodes, edges, init = tlc.parse_dot(dots[cfg])
            if len(nodes) != res.distinct or not init:
                raise MachineryError(f"dump of {cfg}: {len(nodes)} states, TLC reported {res.distinct}")
            # canonical order (TLC's node ids and dump order vary from run to run): the walks depend on `seed` only
            cid = {n: canon(st) for n, st in nodes.items()}
            nodes = {cid[n]: st for n, st in nodes.items()}
            edges = sorted((cid[s], cid[d], lab) for s, d, lab in edges)
            init = sorted(cid[n] for n in init)
            if len(nodes) != res.distinct:
                raise MachineryError(f"dump of {cfg}: states are not distinguished by their canonical form")
            graph_info[cfg] = {"states": len(nodes), "edges": len(edges), "initial": len(init), "models": variants}
            for variant in variants:
                hmap = HMAP[(kind, variant)] if hetero else None
                calls = [_parse_label(lab, hmap) for _, _, lab in edges]
                walks = _covering_walks(nodes, edges, init, maxlen, random.Random(seed * 7919 + len(walks_s)))
                covered = set()
                for wi, (start, walk) in enumerate(walks):
                    covered.update(walk)
                    acts = [dict(calls[k]) for k in walk]
                    for a in acts:  # copies are taken by deepcopy and, where the wrapper allows, by a pickle round trip
                        if a["a"] == "fork":
                            a["how"] = "pickle" if (kind != "sn" and wi % 2 == 1) else "deepcopy"
                    walks_s.append({"kind": kind, "variant": variant, "init": _init_args(kind, nodes[start], hetero),
                                    "wseed": seed, "acts": acts, "hetero": hetero,
                                    "mc": [_mc_state(nodes[edges[k][1]], hetero, calls[k]) for k in walk], "src": cfg})
                if len(covered) != len(edges):
                    raise MachineryError(f"{cfg}/{variant}: walks cover {len(covered)} of {len(edges)} edges")
                edges_total += len(edges)
        walks_s = interleave(walks_s)
        nparts = 4 if tier == "quick" else 14
        step = (len(walks_s) + nparts - 1) // nparts
        for lo in range(0, len(walks_s), step):
            run_part(walks_s[lo:lo + step])
        for n, (part_s, part_t, f) in enumerate(vfuts):
            res = f.result()
            _with_result("validate_traces", res, lambda: R.validate(
                "NasControlTrace", "NasControlTrace", part_t, part_s, nontrivial=lambda s: len(s["acts"]) > 0, key=_key,
                label=f"part {n + 1}: {part_s[0]['src']} ...", chunk=1000, workers=4))
    finally:
        dex.shutdown(wait=True)
        vex.shutdown(wait=True)
        pex.shutdown(wait=True)
    n_graph = sum(1 for s in scen if s["src"] not in ("random", "probe"))
    n_het = sum(1 for s in scen if s["hetero"])
    perlayer = ("lflag", "lupd", "lsel")
    forks = [e["act"]["how"] for t in traces for e in t["ev"] if e["act"]["a"] == "fork"]
    R.sample({"scenario": {k: scen[0][k] for k in ("kind", "variant", "init")} | {"acts": scen[0]["acts"][:6]},
              "observed_after_first_call": {"p": traces[0]["ev"][0]["obs"]["p"][:6], "flags": traces[0]["ev"][0]["obs"]["flags"]}})
    j = next(i for i, s in enumerate(scen) if s["kind"] == "mps")
    R.sample({"scenario": {k: scen[j][k] for k in ("kind", "variant", "init")} | {"acts": scen[j]["acts"][:4]},
              "observed_quantisers_after_first_call": traces[j]["ev"][0]["obs"]["q"][:4]})
    j = next(i for i, s in enumerate(scen) if s["kind"] == "sn" and s["hetero"] and isinstance(s["init"]["hard"], list)
             and s["init"]["hard"][0] != s["init"]["hard"][1])
    R.sample({"scenario": {k: scen[j][k] for k in ("kind", "variant", "init")} | {"acts": scen[j]["acts"][:4]},
              "observed_combiners_at_construction": traces[j]["init"]["q"],
              "observed_combiners_after_first_call": traces[j]["ev"][0]["obs"]["q"]})
    R.extra.update({"graphs": graph_info, "edges_replayed_on_real_models": edges_total,
                    "graph_walks": n_graph, "graph_walks_heterogeneous": n_het, "random_sequences": sum(1 for s in scen if s["src"] == "random"),
                    "pairwise_heterogeneity_probes": len(probes),
                    "calls_executed": sum(len(s["acts"]) for s in scen),
                    "forks_executed": {"deepcopy": forks.count("deepcopy"), "pickle_round_trip": forks.count("pickle"),
                                       "copy_raised_on_non_leaf_theta_alpha_until_detached": sum(
                                           1 for t in traces for e in t["ev"] if e["act"].get("detached"))},
                    "calls_on_the_copy": sum(1 for t in traces for e in t["ev"] if e["o"] == 2 and e["act"]["a"] != "fork"),
                    "calls_on_the_original_after_the_fork": sum(
                        1 for t in traces for j, e in enumerate(t["ev"])
                        if e["o"] == 1 and any(f["act"]["a"] == "fork" for f in t["ev"][:j])),
                    "per_layer_calls_executed": sum(1 for s in scen for a in s["acts"] if a["a"] in perlayer),
                    "model_level_calls_in_heterogeneous_state": _count_hetero_calls(traces),
                    "fwdbwd_executed": sum(1 for s in scen for a in s["acts"] if a["a"] == "fwdbwd"),
                    "fwdbwd_without_any_trainable_parameter": sum(1 for t in traces for e in t["ev"] if e["obs"]["bwd"] == "noloss"),
                    "fwdbwd_backward_raised_stale_theta_graph": sum(1 for t in traces for e in t["ev"] if e["obs"]["bwd"] == "error")})
    R.evaluations = sum(len(s["acts"]) for s in scen)      # every executed call is validated stepwise by TLC
    R.exhaustive = True
    return R.finish()


def _count_hetero_calls(traces) -> int:
    """model-level calls issued while the per-layer state differed (same class, different value / blocks with different
    temperature or hard flag): what a 'broadcast from one layer' defect needs in order to show."""
    n = 0
    for t in traces:
        prev = t["init"]
        for e in t["ev"]:
            if e["act"]["a"] in ("train", "flag", "sel", "upd"):
                by_cls: Dict[str, set] = {}
                for x in prev["p"]:
                    by_cls.setdefault(x["cls"], set()).add(x["rg"])
                live = [(q["temp"], q["hard"]) for q in prev["q"] if q["live"]]
                mixed = any(len(v) > 1 for c, v in by_cls.items() if c in ("alpha", "alphaS", "beta", "gamma", "dc", "snalpha"))
                if mixed or len(set(live)) > 1:
                    n += 1
            prev = e["obs"]
    return n


def _key(sc):
    return {k: sc.get(k) for k in ("kind", "variant", "init", "wseed", "acts", "hetero")}
