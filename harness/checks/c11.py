"""C11 - trainability controls do what they say under every sequence of calls.

spec -> code : NasControlMC is explored to closure by TLC for the three kinds of model (PIT / MPS /
               SuperNet); the labelled state graph is dumped and EVERY edge is executed on real models
               (PIT with an input-tied and an output-tied frozen width, a strided Conv1d => frozen beta/gamma,
               and a shared add group; MPS per-layer and per-channel with shared quantisers; SuperNet with two
               blocks) along walks that start from a freshly constructed model.
code -> spec : after every call the harness projects the real object (identity lists of parameters() /
               nas_parameters() / net_parameters(), requires_grad and gradient class of every parameter object
               and of every frozen mask tensor, the PIT getters, temperature / hard flag / behaviourally
               classified sampler of every quantiser and combiner); TLC (NasControlTrace) validates every step
               with the same operators as the state machine.  Seeded random call sequences (multi-option
               updates included) on further models are validated the same way.
"""
from __future__ import annotations

import json
import random
import re
import tempfile
from collections import deque
from typing import Any, Dict, List, Tuple

from ..core import Run, canon, use_repo
from .. import tlc
from ..tlc import MachineryError

FLAG_ATTR = {"features": "train_features", "rf": "train_rf", "dilation": "train_dilation", "dc": "discrete_cost"}
TRAIN_CALL = {"nas": "train_nas_only", "net": "train_net_only", "both": "train_net_and_nas"}
NO_MC = {"none": True}


# ----------------------------------------------------------------------------------------------
# real models
# ----------------------------------------------------------------------------------------------
def _env():
    use_repo()
    import torch
    import torch.nn as nn
    torch.set_num_threads(1)
    from plinio.methods import PIT, MPS, SuperNet
    from plinio.methods.mps import MPSType, get_default_qinfo
    from plinio.methods.mps.nn.qtz import MPSBaseQtz, MPSBiasQtz
    from plinio.methods.mps.nn.module import MPSModule
    from plinio.methods.mps.quant.quantizers import DummyQuantizer
    from plinio.methods.supernet import SuperNetModule
    from plinio.methods.supernet.nn.combiner import SuperNetCombiner
    from plinio.methods.pit.nn.module import PITModule
    from plinio.methods.pit.nn.features_masker import PITFeaturesMasker, PITFrozenFeaturesMasker
    from plinio.methods.pit.nn.timestep_masker import PITTimestepMasker, PITFrozenTimestepMasker
    from plinio.methods.pit.nn.dilation_masker import PITDilationMasker, PITFrozenDilationMasker

    # ---------------------------------------------------------------- seed networks
    class PitTcn(nn.Module):
        """1-D net: width tied to the input (cin + x), shared add group (c0, c1 with a fused BN), strided
        Conv1d (frozen rf / dilation masks), output-tied head."""
        shape = (3, 8)

        def __init__(self):
            super().__init__()
            self.cin = nn.Conv1d(3, 3, 3, padding='same')
            self.c0 = nn.Conv1d(3, 4, 3, padding='same')
            self.c1 = nn.Conv1d(3, 4, 3, padding='same')
            self.bn1 = nn.BatchNorm1d(4)
            self.c2 = nn.Conv1d(4, 5, 5, stride=2, padding=2)
            self.c3 = nn.Conv1d(5, 4, 3, padding='same')
            self.fc = nn.Linear(4 * 4, 2)

        def forward(self, x):
            r = torch.relu(self.cin(x) + x)
            a = self.c0(r)
            b = torch.relu(self.bn1(self.c1(r)))
            y = torch.relu(self.c2(a + b))
            y = torch.relu(self.c3(y))
            return self.fc(y.flatten(1))

    class PitCnn2d(nn.Module):
        """2-D net: shared add group, fused BN, output-tied head (no time masks)."""
        shape = (3, 6, 6)

        def __init__(self):
            super().__init__()
            self.c0 = nn.Conv2d(3, 4, 3, padding=1)
            self.bn0 = nn.BatchNorm2d(4)
            self.c1 = nn.Conv2d(3, 4, 3, padding=1)
            self.c2 = nn.Conv2d(4, 6, 3, padding=1)
            self.pool = nn.AdaptiveAvgPool2d(1)
            self.fc1 = nn.Linear(6, 5)
            self.fc2 = nn.Linear(5, 2)

        def forward(self, x):
            y = torch.relu(self.bn0(self.c0(x))) + torch.relu(self.c1(x))
            y = torch.relu(self.c2(y))
            y = self.pool(y).flatten(1)
            return self.fc2(torch.relu(self.fc1(y)))

    class MpsCnn(nn.Module):
        shape = (3, 4, 4)

        def __init__(self):
            super().__init__()
            self.c0 = nn.Conv2d(3, 4, 3, padding=1)
            self.c1 = nn.Conv2d(3, 4, 3, padding=1)
            self.bn = nn.BatchNorm2d(4)
            self.c2 = nn.Conv2d(4, 4, 3, padding=1)
            self.fc = nn.Linear(4 * 4 * 4, 2)

        def forward(self, x):
            a = torch.relu(self.c0(x))
            b = torch.relu(self.bn(self.c1(x)))
            y = torch.relu(self.c2(a + b))
            return self.fc(y.flatten(1))

    class SnNet(nn.Module):
        shape = (3, 4, 4)

        def __init__(self, gumbel, hard):
            super().__init__()
            self.b1 = SuperNetModule([
                nn.Conv2d(3, 3, 3, padding='same'),
                nn.Sequential(nn.Conv2d(3, 3, 3, padding='same'), nn.ReLU(), nn.Conv2d(3, 3, 1)),
                nn.Identity()], gumbel_softmax=gumbel, hard_softmax=hard)
            self.mid = nn.Conv2d(3, 4, 3, padding=1)
            self.b2 = SuperNetModule([
                nn.Conv2d(4, 4, 3, padding='same'),
                nn.Conv2d(4, 4, 5, padding='same')], gumbel_softmax=gumbel, hard_softmax=hard)
            self.fc = nn.Linear(4 * 4 * 4, 2)

        def forward(self, x):
            y = torch.relu(self.b1(x))
            y = torch.relu(self.mid(y))
            y = torch.relu(self.b2(y))
            return self.fc(y.flatten(1))

    def repo_model(name):
        """Seed networks of the repository's own unit tests (thorough tier)."""
        if name == "tcresnet14":
            from unit_test.models import TCResNet14
            cfg = {"input_channels": 6, "output_size": 12, "num_channels": [24, 36, 36, 48, 48, 72, 72],
                   "kernel_size": 9, "dropout": 0.5, "grad_clip": -1, "use_bias": True, "use_dilation": False,
                   "avg_pool": True}
            return TCResNet14(cfg), (6, 50)
        if name == "simplenn2d":
            from unit_test.models import SimpleNN2D
            return SimpleNN2D(), (3, 40, 40)
        raise MachineryError(f"unknown repo model {name}")

    # ---------------------------------------------------------------- construction
    def build(kind: str, variant: str, init: Dict[str, Any], wseed: int):
        """kind/variant/init -> (wrapper, input tensor).  `init` are the constructor's control arguments."""
        torch.manual_seed(1000 + wseed)
        if kind == "pit":
            if variant == "tcn":
                net, shape = PitTcn(), PitTcn.shape
            elif variant == "cnn2d":
                net, shape = PitCnn2d(), PitCnn2d.shape
            elif variant == "tcn_foldbn":
                net, shape = PitTcn(), PitTcn.shape
            else:
                net, shape = repo_model(variant)
            m = PIT(net, input_shape=shape, train_features=init["features"], train_rf=init["rf"],
                    train_dilation=init["dilation"], discrete_cost=init["dc"],
                    fold_bn=(variant == "tcn_foldbn"))
        elif kind == "mps":
            if variant in ("layer", "channel", "channel0"):
                net, shape = MpsCnn(), MpsCnn.shape
            else:
                net, shape = repo_model(variant.split(":")[0])
            wt = MPSType.PER_LAYER if variant == "layer" else MPSType.PER_CHANNEL
            wp = (0, 2, 4, 8) if variant.endswith("0") else (2, 4, 8)
            m = MPS(net, input_shape=shape, w_search_type=wt, qinfo=get_default_qinfo(wp, (2, 4, 8)),
                    hard_softmax=init["hard"], gumbel_softmax=init["gumbel"], disable_sampling=init["disable"])
        elif kind == "sn":
            net, shape = SnNet(init["gumbel"], init["hard"]), SnNet.shape
            m = SuperNet(net, input_shape=shape)
        else:
            raise MachineryError(f"kind {kind}")
        g = torch.Generator().manual_seed(77 + wseed)
        x = torch.randn((2,) + tuple(shape), generator=g)
        return m, x

    # ---------------------------------------------------------------- projection
    class Projector:
        """Structural view of one wrapper, built WITHOUT the nas/net reporting functions under test."""

        def __init__(self, kind, model, x):
            self.kind, self.model, self.x = kind, model, x
            self.ids: Dict[int, int] = {}
            self.keep: List[Any] = []          # keeps every tensor we gave an id to alive (no id() reuse)
            self.slots: List[Tuple[Any, str, str]] = []   # (owner module, attribute, class)
            self.quant: List[Any] = []
            self.live: List[bool] = []
            self._classify()
            self._liveness()

        def oid(self, t) -> int:
            k = id(t)
            if k not in self.ids:
                self.ids[k] = len(self.ids) + 1
                self.keep.append(t)
            return self.ids[k]

        def _classify(self):
            m = self.model
            seen = set()

            def add(owner, attr, cls):
                t = getattr(owner, attr)
                if id(t) in seen:
                    return
                seen.add(id(t))
                self.slots.append((owner, attr, cls))

            mods = list(m.named_modules())
            if self.kind == "pit":
                owners: Dict[int, int] = {}
                for _, l in mods:
                    if isinstance(l, PITModule) and hasattr(l, "out_features_masker"):
                        owners[id(l.out_features_masker)] = owners.get(id(l.out_features_masker), 0) + 1
                for _, l in mods:
                    if isinstance(l, PITFeaturesMasker):
                        cls = "alphaF" if isinstance(l, PITFrozenFeaturesMasker) else \
                            ("alphaS" if owners.get(id(l), 0) > 1 else "alpha")
                        add(l, "alpha", cls)
                    elif isinstance(l, PITTimestepMasker):
                        add(l, "beta", "betaF" if isinstance(l, PITFrozenTimestepMasker) else "beta")
                    elif isinstance(l, PITDilationMasker):
                        add(l, "gamma", "gammaF" if isinstance(l, PITFrozenDilationMasker) else "gamma")
            elif self.kind == "mps":
                owners = {}
                for _, l in mods:
                    if isinstance(l, MPSModule):
                        for a in ("out_mps_quantizer", "w_mps_quantizer"):
                            q = getattr(l, a, None)
                            if isinstance(q, MPSBaseQtz):
                                owners[id(q)] = owners.get(id(q), 0) + 1
                for _, q in mods:
                    if isinstance(q, MPSBaseQtz):
                        self.quant.append(q)
                        dummy = all(isinstance(f, DummyQuantizer) for f in q.qtz_funcs)
                        add(q, "alpha", "qdummy" if dummy else ("qalphaS" if owners.get(id(q), 0) > 1 else "qalpha"))
                qmods = [q for _, q in mods if isinstance(q, (MPSBaseQtz, MPSBiasQtz))]
                for q in qmods:
                    for _, sub in q.named_modules():
                        for pn, _ in sub.named_parameters(recurse=False):
                            add(sub, pn, "qclip")
            else:
                for _, c in mods:
                    if isinstance(c, SuperNetCombiner):
                        self.quant.append(c)
                        add(c, "alpha", "snalpha")
            # everything else that is an nn.Parameter: network weights
            folded = {id(l.bn) for _, l in mods if getattr(l, "fold_bn", False) and getattr(l, "bn", None) is not None}
            for _, l in mods:
                for pn, _ in l.named_parameters(recurse=False):
                    cls = "w"
                    if self.kind == "pit" and isinstance(l, nn.modules.batchnorm._BatchNorm):
                        cls = "bnfold" if id(l) in folded else "bn"
                    add(l, pn, cls)

        def _liveness(self):
            """A quantiser/combiner is 'live' if the forward pass executes it and it has >1 alternatives."""
            called = set()
            hooks = [q.register_forward_hook(lambda mod, i, o: called.add(id(mod)) or None) for q in self.quant]
            was = [(mod, mod.training) for mod in self.model.modules()]
            rng = torch.get_rng_state()
            with torch.no_grad():
                self.model.eval()
                self.model(self.x)
            for mod, tr in was:
                mod.training = tr
            torch.set_rng_state(rng)
            for h in hooks:
                h.remove()
            self.live = [id(q) in called and int(q.alpha.shape[0]) > 1 for q in self.quant]

        def sampler(self, q) -> str:
            """Classify the sampling routine by what it does (soft, training mode): 'none' leaves theta_alpha
            untouched, 'gs' depends on the random stream, 'sm' does not."""
            theta, hard, training = q.theta_alpha, q.hard_softmax, q.training
            rng = torch.get_rng_state()
            try:
                q.hard_softmax = False
                q.training = True
                res = []
                with torch.no_grad():
                    for s in (11, 12):
                        sentinel = torch.full_like(theta.detach(), -7.0)
                        q.theta_alpha = sentinel
                        torch.manual_seed(s)
                        q.sample_alpha()
                        res.append(q.theta_alpha.detach().clone())
                if all(bool((r == -7.0).all()) for r in res):
                    return "none"
                return "sm" if torch.equal(res[0], res[1]) else "gs"
            finally:
                q.theta_alpha = theta
                q.hard_softmax = hard
                q.training = training
                torch.set_rng_state(rng)

        def observe(self) -> Dict[str, Any]:
            m = self.model
            o: Dict[str, Any] = {
                "all": [self.oid(p) for p in m.parameters()],
                "nas": [self.oid(p) for p in m.nas_parameters()],
                "net": [self.oid(p) for p in m.net_parameters()],
            }
            ps = []
            for owner, attr, cls in self.slots:
                t = getattr(owner, attr)
                if t.grad is None:
                    g = "none"
                else:
                    g = "zero" if bool((t.grad == 0).all()) else "nz"
                ps.append({"id": self.oid(t), "cls": cls, "par": isinstance(t, nn.Parameter),
                           "rg": bool(t.requires_grad), "grad": g})
            o["p"] = ps
            if self.kind == "pit":
                o["flags"] = {f: bool(getattr(m, a)) for f, a in FLAG_ATTR.items()}
                vals = {bool(l.discrete_cost) for _, l in m.named_modules()
                        if isinstance(l, PITModule) and hasattr(l, "discrete_cost")}
                o["ldc"] = "T" if vals == {True} else "F" if vals == {False} else "mixed"
            else:
                o["flags"] = {f: True for f in FLAG_ATTR}
                o["ldc"] = "-"
            qs = []
            for q, live in zip(self.quant, self.live):
                temp = q.temperature if self.kind == "mps" else q.softmax_temperature
                qs.append({"temp": int(round(float(temp) * 1000)), "hard": bool(q.hard_softmax),
                           "sampler": self.sampler(q), "live": bool(live)})
            o["q"] = qs
            # the projection itself must be complete: every nn.Parameter has a slot
            if {x["id"] for x in ps if x["par"]} != set(o["all"]):
                raise MachineryError("C11 projection: parameters() and the structural slots disagree")
            return o

        def clear_grads(self):
            for owner, attr, _ in self.slots:
                getattr(owner, attr).grad = None

        # ------------------------------------------------------------ calls
        def apply(self, act: Dict[str, Any]):
            m = self.model
            a = act["a"]
            if a == "train":
                getattr(m, TRAIN_CALL[act["g"]])()
            elif a == "flag":
                setattr(m, FLAG_ATTR[act["f"]], bool(act["v"]))
            elif a == "sel":
                m.train_selection = bool(act["v"])
            elif a == "upd":
                kw = {}
                if act["temp"] != 0:
                    kw["temperature"] = act["temp"] / 1000.0
                if act["hard"] != 2:
                    kw["hard"] = bool(act["hard"])
                if self.kind == "mps":
                    if act["gumbel"] != 2:
                        kw["gumbel"] = bool(act["gumbel"])
                    if act["disable"] != 2:
                        kw["disable_sampling"] = bool(act["disable"])
                m.update_softmax_options(**kw)
            elif a == "fwdbwd":
                m.train()
                self.clear_grads()
                loss = m(self.x).pow(2).mean() + m.cost
                if not loss.requires_grad:
                    return "noloss"
                try:
                    loss.backward()
                except RuntimeError as ex:
                    # MPS with sampling disabled re-uses the theta_alpha of an earlier forward whose autograd graph
                    # has been freed; not a C11 matter - recorded and counted (no gradient prediction for the event)
                    if "backward through the graph a second time" in str(ex):
                        return "error"
                    raise
                return "ok"
            else:
                raise MachineryError(f"unknown action {act}")
            return "-"

    def execute(sc: Dict[str, Any]) -> Dict[str, Any]:
        """Run one scenario {kind, variant, init, wseed, acts, mc?} on a fresh model; return the trace."""
        m, x = build(sc["kind"], sc["variant"], sc["init"], sc.get("wseed", 0))
        pr = Projector(sc["kind"], m, x)
        tr = {"kind": sc["kind"], "gum0": bool(sc["init"].get("gumbel", False)),
              "dis0": bool(sc["init"].get("disable", False)), "init": dict(pr.observe(), bwd="-"), "ev": []}
        mcs = sc.get("mc") or [NO_MC] * len(sc["acts"])
        for act, mc in zip(sc["acts"], mcs):
            status = pr.apply(act)
            o = pr.observe()
            o["bwd"] = status
            tr["ev"].append({"act": act, "obs": o, "mc": mc})
            pr.clear_grads()
        return tr

    return execute


# ----------------------------------------------------------------------------------------------
# state graph -> covering walks
# ----------------------------------------------------------------------------------------------
def _parse_label(lab: str) -> Dict[str, Any]:
    """Edge label of the dump -> call record of the trace format."""
    lab = lab.strip()
    m = re.match(r"^(\w+)\((.*)\)$", lab, re.S)
    if not m:
        raise MachineryError(f"edge label {lab!r}")
    name, args = m.group(1), tlc.parse_value("<<" + m.group(2) + ">>")
    if name == "Step":
        return dict(args[0])
    if name == "SetFlag":
        return {"a": "flag", "f": args[0], "v": bool(args[1])}
    if name == "Sel":
        return {"a": "sel", "v": bool(args[0])}
    if name == "Upd":
        o, v = args
        return {"a": "upd", "temp": v if o == "temp" else 0, "hard": v if o == "hard" else 2,
                "gumbel": v if o == "gumbel" else 2, "disable": v if o == "disable" else 2}
    raise MachineryError(f"edge label {lab!r}")


def _covering_walks(nodes, edges, init, maxlen: int, rng: random.Random):
    """Walks from initial states that together traverse every edge of the graph."""
    out: Dict[str, List[int]] = {n: [] for n in sorted(nodes)}
    for k, (s, _, _) in enumerate(edges):
        out[s].append(k)
    for n in sorted(out):
        rng.shuffle(out[n])
    uncovered = set(range(len(edges)))
    pending = {n: deque(out[n]) for n in nodes}

    def next_uncovered(n):
        dq = pending[n]
        while dq and dq[0] not in uncovered:
            dq.popleft()
        return dq[0] if dq else None

    def path_to_uncovered(src):
        prev = {src: None}
        dq = deque([src])
        while dq:
            n = dq.popleft()
            if next_uncovered(n) is not None:
                p = []
                while prev[n] is not None:
                    p.append(prev[n][1])
                    n = prev[n][0]
                return list(reversed(p))
            for k in out[n]:
                d = edges[k][1]
                if d not in prev:
                    prev[d] = (n, k)
                    dq.append(d)
        return None

    walks = []
    inits = sorted(init)
    r = 0
    while uncovered:
        start = inits[r % len(inits)]
        r += 1
        cur, walk = start, []
        while True:
            k = next_uncovered(cur)
            if k is None:
                p = path_to_uncovered(cur)
                if p is None or (walk and len(walk) + len(p) + 1 > maxlen):
                    break
                walk += p
                cur = edges[p[-1]][1] if p else cur
                k = next_uncovered(cur)
            walk.append(k)
            uncovered.discard(k)
            cur = edges[k][1]
            if len(walk) >= maxlen:
                break
        if not walk:
            if r > 4 * len(inits) + len(edges):
                raise MachineryError("edge cover does not make progress")
            continue
        walks.append((start, walk))
    return walks


def _mc_state(kind: str, st: Dict[str, Any]) -> Dict[str, Any]:
    return {"rg": st["rg"], "flags": st["flags"], "opt": st["opt"]}


def _init_args(kind: str, st: Dict[str, Any]) -> Dict[str, Any]:
    if kind == "pit":
        return dict(st["flags"])
    return {"hard": st["opt"]["hard"], "gumbel": st["opt"]["gumbel"], "disable": st["opt"]["disable"]}


# ----------------------------------------------------------------------------------------------
# random call sequences (code -> spec, outside the exhaustive bounds)
# ----------------------------------------------------------------------------------------------
def _random_scenario(kind: str, variant: str, rng: random.Random, length: int) -> Dict[str, Any]:
    if kind == "pit":
        init = {f: rng.random() < 0.6 for f in FLAG_ATTR}
    elif kind == "mps":
        init = {"hard": rng.random() < 0.3, "gumbel": rng.random() < 0.4, "disable": rng.random() < 0.2}
    else:
        init = {"hard": rng.random() < 0.3, "gumbel": rng.random() < 0.5, "disable": False}
    acts = []
    for _ in range(length):
        u = rng.random()
        if u < 0.25:
            acts.append({"a": "train", "g": rng.choice(["nas", "net", "both"])})
        elif u < 0.45:
            acts.append({"a": "fwdbwd"})
        elif kind == "pit":
            acts.append({"a": "flag", "f": rng.choice(list(FLAG_ATTR)), "v": rng.random() < 0.5})
        elif kind == "sn" and u < 0.6:
            acts.append({"a": "sel", "v": rng.random() < 0.5})
        else:
            # one to three options at once, any temperature on a x1000 grid
            names = ["temp", "hard"] + (["gumbel", "disable"] if kind == "mps" else [])
            chosen = rng.sample(names, rng.choice([1, 1, 1, 2, 3]) if kind == "mps" else rng.choice([1, 1, 2]))
            a = {"a": "upd", "temp": 0, "hard": 2, "gumbel": 2, "disable": 2}
            for nme in chosen:
                a[nme] = rng.choice([125, 250, 500, 1000, 1500, 3000, 8000]) if nme == "temp" else rng.randint(0, 1)
            acts.append(a)
    return {"kind": kind, "variant": variant, "init": init, "wseed": rng.randint(0, 999), "acts": acts, "src": "random"}


# ----------------------------------------------------------------------------------------------
def run(tier: str, seed: int, replay=None) -> int:
    R = Run("C11", tier, seed, level="model_checking")
    R.rule = ("scenario = (kind of model, model variant, constructor's control arguments, sequence of calls over "
              "{train_nas_only, train_net_only, train_net_and_nas, train_features/rf/dilation := T/F, discrete_cost := T/F, "
              "train_selection := T/F, update_softmax_options(one option), forward+backward of loss+cost}). The sequences are "
              "walks from initial states that cover EVERY edge of the state graph TLC computes to closure for NasControlMC "
              "(per kind), executed on real models; plus seeded random sequences (multi-option updates, other temperatures, "
              "other models). Non-trivial = non-empty call history.")
    R.assumptions = [
        "a parameter's class (weight / fused-BN affine / free, shared or frozen mask / quantiser alpha / quantiser-internal / "
        "combiner alpha) is read structurally from the module tree (masker and quantiser types), not from the nas/net lists under test",
        "'receives a gradient' = .grad is not None and not identically zero after backward of (output^2).mean() + model.cost in "
        "training mode with all grads cleared before; inputs and weights are seeded random (generic)",
        "the sampler of a quantiser/combiner is classified by behaviour (theta_alpha untouched = none, depends on the random "
        "stream = gumbel, else softmax) with hard sampling switched off and restored around the probe; temperature and the hard "
        "flag are read from the public attributes",
        "quantisers the forward pass never executes or that have a single alternative (dummy quantisers) may be skipped by "
        "update_softmax_options; for them only 'unspecified options do not change' is required",
        "eval-mode forward, export(), summary() and optimiser steps are not part of this property's alphabet (C10/C17/C18)",
    ]
    execute = _env()

    if replay:
        sc = json.load(open(replay))["scenario"]
        tr = execute(sc)
        R.validate("NasControlTrace", "NasControlTrace", [tr], [sc], key=_key)
        return R.finish()

    rng = random.Random(seed)
    scen: List[Dict[str, Any]] = []
    sfx = "quick" if tier == "quick" else "thorough"
    maxlen = 24 if tier == "quick" else 40
    variants = {"pit": ["tcn"], "mps": ["layer", "channel"], "sn": ["std"]} if tier == "quick" else \
               {"pit": ["tcn", "cnn2d", "tcn_foldbn"], "mps": ["layer", "channel", "channel0"], "sn": ["std"]}
    cov = {"pit": ["NasControlMC!SetFlag", "NasControlMC!Step"], "mps": ["NasControlMC!Upd", "NasControlMC!Step"],
           "sn": ["NasControlMC!Upd", "NasControlMC!Sel", "NasControlMC!Step"]}
    edges_total = 0
    graph_info = {}
    # 1. design level + dump
    for kind in ("pit", "mps", "sn"):
        dot = tempfile.mktemp(prefix=f"c11-{kind}-", suffix=".dot", dir=tlc.scratch())
        res = R.design("NasControlMC", f"NasControlMC_{kind}_{sfx}", dump_dot=dot, coverage=True,
                       require_cov=cov[kind], workers=4)
        nodes, edges, init = tlc.parse_dot(dot)
        if len(nodes) != res.distinct or not init:
            raise MachineryError(f"dump of {kind}: {len(nodes)} states, TLC reported {res.distinct}")
        # canonical order (TLC's node ids and dump order vary from run to run): the walks depend on `seed` only
        cid = {n: canon(st) for n, st in nodes.items()}
        nodes = {cid[n]: st for n, st in nodes.items()}
        edges = sorted((cid[s], cid[d], lab) for s, d, lab in edges)
        init = sorted(cid[n] for n in init)
        if len(nodes) != res.distinct:
            raise MachineryError(f"dump of {kind}: states are not distinguished by their canonical form")
        calls = [_parse_label(lab) for _, _, lab in edges]
        graph_info[kind] = {"states": len(nodes), "edges": len(edges), "initial": len(init)}
        # 2. spec -> code: walks covering every edge, on every model variant of the kind
        for variant in variants[kind]:
            walks = _covering_walks(nodes, edges, init, maxlen, random.Random(seed * 7919 + len(scen)))
            covered = set()
            for start, walk in walks:
                covered.update(walk)
                scen.append({"kind": kind, "variant": variant, "init": _init_args(kind, nodes[start]), "wseed": seed,
                             "acts": [calls[k] for k in walk],
                             "mc": [_mc_state(kind, nodes[edges[k][1]]) for k in walk], "src": "graph"})
            if len(covered) != len(edges):
                raise MachineryError(f"{kind}/{variant}: walks cover {len(covered)} of {len(edges)} edges")
            edges_total += len(edges)
    # sanity (non-vacuity): the literal model of the pinned code violates the invariants / action property
    R.design("NasControlMC", "NasControlMC_pit_pinned", expect_ok=False, workers=2)
    R.design("NasControlMC", "NasControlMC_pit_pinned_grad", expect_ok=False, workers=2)
    R.design("NasControlMC", "NasControlMC_mps_pinned", expect_ok=False, workers=2)
    R.design("NasControlMC", "NasControlMC_mps_pinned_kept", expect_ok=False, workers=2)

    # 3. code -> spec: random sequences
    n_rand = 40 if tier == "quick" else 700
    rl = 14 if tier == "quick" else 30
    rvars = {"pit": ["tcn", "cnn2d"], "mps": ["layer", "channel", "channel0"], "sn": ["std"]}
    if tier != "quick":
        rvars["pit"] += ["tcn_foldbn", "tcresnet14"]
        rvars["mps"] += ["simplenn2d:channel"]
    for kind in ("pit", "mps", "sn"):
        for i in range(n_rand):
            v = rvars[kind][i % len(rvars[kind])]
            n_here = rl if v not in ("tcresnet14",) else 10
            if v in ("tcresnet14", "simplenn2d:channel") and i >= 60:
                v = rvars[kind][i % 2]
            scen.append(_random_scenario(kind, v, rng, n_here))

    # interleave the kinds (the first reported violations then show every kind of model)
    by_kind = {k: [s for s in scen if s["kind"] == k] for k in ("pit", "mps", "sn")}
    scen = [by_kind[k][i] for i in range(max(map(len, by_kind.values()))) for k in ("pit", "mps", "sn")
            if i < len(by_kind[k])]
    traces = [execute(sc) for sc in scen]
    n_graph = sum(1 for s in scen if s["src"] == "graph")
    R.sample({"scenario": {k: scen[0][k] for k in ("kind", "variant", "init")} | {"acts": scen[0]["acts"][:6]},
              "observed_after_first_call": {"p": traces[0]["ev"][0]["obs"]["p"][:6], "flags": traces[0]["ev"][0]["obs"]["flags"]}})
    j = next(i for i, s in enumerate(scen) if s["kind"] == "mps")
    R.sample({"scenario": {k: scen[j][k] for k in ("kind", "variant", "init")} | {"acts": scen[j]["acts"][:4]},
              "observed_quantisers_after_first_call": traces[j]["ev"][0]["obs"]["q"][:4]})
    R.extra.update({"graphs": graph_info, "edges_replayed_on_real_models": edges_total,
                    "graph_walks": n_graph, "random_sequences": len(scen) - n_graph,
                    "calls_executed": sum(len(s["acts"]) for s in scen),
                    "fwdbwd_executed": sum(1 for s in scen for a in s["acts"] if a["a"] == "fwdbwd"),
                    "fwdbwd_without_any_trainable_parameter": sum(1 for t in traces for e in t["ev"] if e["obs"]["bwd"] == "noloss"),
                    "fwdbwd_backward_raised_stale_theta_graph": sum(1 for t in traces for e in t["ev"] if e["obs"]["bwd"] == "error")})
    R.validate("NasControlTrace", "NasControlTrace", traces, scen, nontrivial=lambda s: len(s["acts"]) > 0,
               key=_key, label="graph walks + random sequences", chunk=400, workers=8)
    R.evaluations = sum(len(s["acts"]) for s in scen)      # every executed call is validated stepwise by TLC
    R.exhaustive = True
    return R.finish()


def _key(sc):
    return {k: sc[k] for k in ("kind", "variant", "init", "wseed", "acts")}
