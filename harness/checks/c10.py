"""C10 - what is evaluated, what is reported and what is exported are the same choice.

design       : SelectionMC (state machine of one decision point: options, mode, coefficients, theta class; forward
               passes with grad enabled and under torch.no_grad(); writes to alpha by in-place copy_, assignment to
               .data, optimizer step and load_state_dict of a checkpoint taken in another state; freezing and
               unfreezing alpha by train_selection / train_net_only / train_nas_only / train_net_and_nas) is model-checked to
               closure for MPS (pinned and repaired `update_softmax_options`) and SuperNet (as implemented with the
               named deviation, reference semantics) and - expected to fail - for defective variants: the combiner
               without the deviation admitted, summary() that re-samples, and an inference-time short cut that keeps a
               cached theta_alpha across writes to alpha (flag-based, alpha._version-based, for MPS and SuperNet), and
               a forward pass that re-samples only while alpha is trainable.
spec -> code : TLC dumps the reachable graphs; a covering walk executes EVERY edge on real MPSPerLayerQtz,
               MPSPerChannelQtz, SuperNetCombiner objects and on small whole MPS / SuperNet models
               (summary() and export() included).
code -> spec : everything the real objects did (flags, alpha x10^4, theta_alpha x10^6, reported and exported
               candidates) is logged and validated by TLC (SelectionTrace): property clauses on the observed
               values, prediction clauses against the Selection model stepped over each call.  Seeded random
               drivers (vectors of length 1..8, matrices up to 8x16, gaps >= 0.05, T in [0.05, 20]) are validated
               the same way.

The verdict is total: an exception raised by the library (constructor, call, reading its state) ends the trace with the
clause C10.raises; a theta_alpha that does not have the shape of alpha is C10.shape; coefficients / a temperature the
harness did not write are C10.domain; an unreadable sampler falls back on the requested options with a drift line.  The
objects are built by their PUBLIC constructors with every combination of the sampler flags, by keyword and positionally,
and the options given there define the regime of the claims until the first option update.  Per-channel coefficient
matrices include the SQUARE ones (2x2, 3x3, 4x4: as many channels as precisions), on bare quantisers and in whole models.

Known findings reproduced here (signatures in Selection.tla / SelectionTrace.tla): F41 (SuperNetCombiner ignores eval
mode when hard_softmax=False), F42 (SuperNetCombiner.summary() re-samples; with Gumbel noise in training the reported
arg-max need not be the exported branch).  Which options select the sampler of an MPS quantiser is property C11
(F08); C10 conditions on the sampler in force and is checked under both the pinned and the repaired semantics.
"""
from __future__ import annotations

import json
import os
import random
import re
import tempfile
from collections import deque
from typing import Any, Dict, List, Optional, Tuple

from ..core import Run, use_repo
from .. import tlc
from ..tlc import MachineryError

# proposed ids of the two SuperNet findings this check reproduces (see SelectionTrace.tla)
F_SN_EVAL_SOFT = "F41"
F_SN_SUMMARY = "F42"

TEMP_BANDS = {"lo": (500, 2000), "mid": (5000, 20000), "hi": (100000, 200000), "any": (500, 200000)}   # T x 10^4
SORTED_PREC = [2, 3, 4, 5, 6, 7, 8, 16]
SAMPLER_NAMES = {"sample_alpha_sm": "sm", "sample_alpha_gs": "gs", "sample_alpha_none": "none"}

P: Dict[str, Any] = {}          # plinio / torch symbols, filled by _setup()


def _setup() -> None:
    if P:
        return
    use_repo()
    import torch
    import torch.nn as nn
    from plinio.methods import MPS, SuperNet
    from plinio.methods.mps import get_default_qinfo, MPSType
    from plinio.methods.mps.nn import MPSModule
    from plinio.methods.mps.nn.qtz import MPSPerLayerQtz, MPSPerChannelQtz, MPSBaseQtz
    from plinio.methods.mps.quant.quantizers import PACTAct, MinMaxWeight
    from plinio.methods.supernet import SuperNetModule
    from plinio.methods.supernet.nn.combiner import SuperNetCombiner
    torch.set_num_threads(1)        # tiny tensors; the machine is shared
    P.update(locals())


# ----------------------------------------------------------------------------------------------
# projections: real tensors -> integers
# ----------------------------------------------------------------------------------------------
def _cols(t, scale: float) -> List[List[int]]:
    """tensor of shape (N,) or (N, C) -> one integer vector per channel."""
    torch = P["torch"]
    t = t.detach()
    if t.dim() == 0:
        t = t.reshape(1)
    if t.dim() == 1:
        t = t.unsqueeze(1)
    if t.dim() > 2:
        t = t.reshape(t.shape[0], -1)
    # integers below 2^31 for TLC: NaN -> -2^30 (the exact non-negativity bit is then false), +-inf / huge -> +-2^30
    v = torch.nan_to_num(t.double().t() * scale, nan=-float(1 << 30), posinf=float(1 << 30), neginf=-float(1 << 30))
    return torch.round(v.clamp(-float(1 << 30), float(1 << 30))).long().tolist()


def _sampler(obj) -> str:
    """the sampler in force, read off the bound method; "?" if it is none of the three (the trace specification
    then falls back on the options requested so far and says so in a drift line)"""
    name = getattr(getattr(obj, "sample_alpha", None), "__name__", None)
    return SAMPLER_NAMES.get(name, "?")


def _obs_qtz(q) -> Dict[str, Any]:
    th = q.theta_alpha
    return {"tr": bool(q.training), "hd": bool(q.hard_softmax), "sp": _sampler(q),
            "t4": int(round(float(q.temperature) * 1e4)),
            "al": _cols(q.alpha, 1e4), "th": _cols(th, 1e6), "nn": bool((th.detach() >= 0).all()),
            "sl": bool(q.alpha.requires_grad)}


def _obs_comb(c) -> Dict[str, Any]:
    th = c.theta_alpha
    return {"tr": bool(c.training), "hd": bool(c.hard_softmax), "sp": _sampler(c),
            "t4": int(round(float(c.softmax_temperature) * 1e4)),
            "al": _cols(c.alpha, 1e4), "th": _cols(th, 1e6), "nn": bool((th.detach() >= 0).all()),
            "sl": bool(c.alpha.requires_grad)}


def _target(obj, mat: List[List[int]]):
    """mat: one integer vector (alpha x 10^4) per channel -> tensor shaped like obj.alpha."""
    torch = P["torch"]
    t = torch.tensor(mat, dtype=torch.float64).t() / 1e4       # (N, C)
    if obj.alpha.dim() == 1:
        if t.shape[1] != 1:
            raise MachineryError("alpha matrix given to a per-layer decision point")
        t = t[:, 0]
    if tuple(t.shape) != tuple(obj.alpha.shape):
        raise MachineryError(f"coefficients of shape {tuple(t.shape)} for a decision point of shape {tuple(obj.alpha.shape)}")
    return t.to(obj.alpha.dtype)


def _write_alpha(objs: List[Any], mats: List[List[List[int]]], wk: str = "copy") -> None:
    """Write new coefficients into the decision points, the way `wk` says:
    copy  : with torch.no_grad(): alpha.copy_(new)            (what load_state_dict does per tensor)
    data  : alpha.data = new                                  (alpha._version does not change)
    optim : one SGD step (lr 1) with the gradient alpha - new (an optimizer step)"""
    torch = P["torch"]
    tg = [_target(o, m) for o, m in zip(objs, mats)]
    if wk == "copy":
        with torch.no_grad():
            for o, t in zip(objs, tg):
                o.alpha.copy_(t)
    elif wk == "data":
        for o, t in zip(objs, tg):
            o.alpha.data = t.clone()
    elif wk == "optim":
        params = [o.alpha for o in objs]
        for p_ in params:
            if not p_.requires_grad:
                raise MachineryError("optimizer step on coefficients that do not require grad")
        opt = torch.optim.SGD(params, lr=1.0)
        for p_, t in zip(params, tg):
            p_.grad = (p_.detach() - t)
        opt.step()
        for p_ in params:
            p_.grad = None
    else:
        raise MachineryError(f"unknown way of writing alpha: {wk}")


def _set_alpha(obj, mat: List[List[int]]) -> None:
    _write_alpha([obj], [mat], "copy")


def _grad_ctx(g: bool):
    torch = P["torch"]
    return torch.enable_grad() if g else torch.no_grad()


CKPT_OPTS = {  # how the donor produces the theta_alpha stored in the checkpoint: (training, hard, gumbel)
    "onehot": (False, False, False), "soft": (True, False, False), "probF": (True, False, True), "probT": (True, True, True)}


# ----------------------------------------------------------------------------------------------
# drivers: one real object (or model) each; uniform interface
# ----------------------------------------------------------------------------------------------
class BareMPS:
    """A single MPSPerLayerQtz / MPSPerChannelQtz."""
    def __init__(self, cfg, init, gen):
        torch = P["torch"]
        self.cfg = cfg
        self.gen = gen
        n, c = len(cfg["prec"]), cfg["C"]
        if cfg["qtz"] == "pact":
            self.quant, self.kw = P["PACTAct"], {}
            self.x = lambda: torch.rand(2, 3, 2, 2, generator=gen) * 4
        else:
            self.quant, self.kw = P["MinMaxWeight"], {"cout": c}
            self.x = lambda: torch.randn(c, 3, generator=gen)
        self.cls = P["MPSPerChannelQtz"] if cfg["form"] == "channel" else P["MPSPerLayerQtz"]
        # the PUBLIC constructor with all sampler options, by keyword or positionally (in the order of the class's own
        # signature, so that only a constructor that passes them on wrongly is blamed, not a re-ordered signature)
        opts = {"softmax_temperature": init["t4"] / 1e4, "hard_softmax": init["hd"], "gumbel_softmax": init["gum"],
                "disable_sampling": init["dis"]}
        if cfg.get("ctor", "kw") == "pos":
            import inspect
            names = [p_ for p_ in inspect.signature(self.cls.__init__).parameters if p_ != "self"]
            given = {"precision": tuple(cfg["prec"]), "quantizer": self.quant, "quantizer_kwargs": dict(self.kw), **opts}
            if set(names) == set(given):
                self.q = self.cls(*[given[n_] for n_ in names])
            else:                                   # other parameter names: let the keyword call speak
                self.q = self.cls(tuple(cfg["prec"]), self.quant, dict(self.kw), **opts)
        else:
            self.q = self.cls(tuple(cfg["prec"]), self.quant, dict(self.kw), **opts)
        self.dp = [{"k": "mps", "ctor": "bare"}]
        self.shape = [(n, c if cfg["form"] == "channel" else 1)]
        self.q.alpha.requires_grad = bool(init.get("sel", True))
        self.init_v = {"hd": init["hd"], "gum": init["gum"], "dis": init["dis"], "t4": init["t4"], "smp": True,
                       "sel": bool(init.get("sel", True))}
        self.donor = None

    def observe(self):
        return [_obs_qtz(self.q)]

    def _load(self, v):
        """load_state_dict of a checkpoint taken from ANOTHER object of the same type in another state."""
        import copy
        if self.donor is None:
            self.donor = self.cls(tuple(self.cfg["prec"]), self.quant, dict(self.kw))
        dn = self.donor
        tr, hd, gum = CKPT_OPTS[v["ck"]]
        dn.update_softmax_options(temperature=v["t4"] / 1e4, hard=hd, gumbel=gum, disable_sampling=False)
        _set_alpha(dn, v["al"][0])
        dn.train(tr)
        dn(self.x())
        sd = copy.deepcopy(dn.state_dict())
        self.q.load_state_dict(sd)
        o = _obs_qtz(dn)
        return {"al": [o["al"]], "th": [o["th"]], "t4": [o["t4"]]}

    def step(self, a, v):
        q = self.q
        vlog = None
        if a == "temp":
            q.update_softmax_options(temperature=v / 1e4)
        elif a == "hard":
            q.update_softmax_options(hard=v)
        elif a == "gumbel":
            q.update_softmax_options(gumbel=v)
        elif a == "disable":
            q.update_softmax_options(disable_sampling=v)
        elif a == "train":
            q.train()
        elif a == "eval":
            q.eval()
        elif a == "fwd":
            with _grad_ctx(bool(v)):
                q(self.x())
        elif a == "alpha":
            _write_alpha([q], v["al"], v["wk"])
        elif a == "load":
            vlog = self._load(v)
        elif a == "freeze" and v in ("freeze_attr", "unfreeze_attr"):
            q.alpha.requires_grad = (v == "unfreeze_attr")
        else:
            raise MachineryError(f"BareMPS: action {a} {v!r} not applicable")
        return [], [[]], vlog


class BareSN:
    """A single SuperNetCombiner (options are set the way SuperNet.update_softmax_options sets them; the
    coefficients are made trainable the way SuperNet.__init__ does)."""
    def __init__(self, cfg, init, gen):
        self.cfg = cfg
        self.gen = gen
        self.n = cfg["N"]
        if cfg.get("ctor", "kw") == "pos":
            self.c = P["SuperNetCombiner"](self.n, init["gum"], init["hd"])
        else:
            self.c = P["SuperNetCombiner"](n_branches=self.n, gumbel_softmax=init["gum"], hard_softmax=init["hd"])
        self.c.train_selection = bool(init.get("sel", True))     # (a combiner is built frozen; SuperNet.__init__ unfreezes it)
        self.c.softmax_temperature = init["t4"] / 1e4
        _set_alpha(self.c, init["alpha0"][0])
        self.dp = [{"k": "sn", "ctor": "bare"}]
        self.shape = [(self.n, 1)]
        self.init_v = {"hd": init["hd"], "gum": init["gum"], "dis": False, "t4": init["t4"], "smp": False,
                       "sel": bool(init.get("sel", True))}
        self.donor = None

    def observe(self):
        return [_obs_comb(self.c)]

    def _load(self, v):
        import copy
        if self.donor is None:
            self.donor = P["SuperNetCombiner"](self.n, False, False)
        dn = self.donor
        dn.softmax_temperature = v["t4"] / 1e4
        _set_alpha(dn, v["al"][0])
        sd = copy.deepcopy(dn.state_dict())        # a combiner registers alpha only
        self.c.load_state_dict(sd)
        o = _obs_comb(dn)
        return {"al": [o["al"]], "th": [[]], "t4": [o["t4"]]}

    def step(self, a, v):
        torch = P["torch"]
        c = self.c
        rep, rv, vlog = [], [[]], None
        if a == "temp":
            c.softmax_temperature = v / 1e4
        elif a == "hard":
            c.hard_softmax = v
        elif a == "train":
            c.train()
        elif a == "eval":
            c.eval()
        elif a == "fwd":
            with _grad_ctx(bool(v)):
                c([torch.rand(2, 3, generator=self.gen) for _ in range(self.n)])
        elif a == "alpha":
            _write_alpha([c], v["al"], v["wk"])
        elif a == "load":
            vlog = self._load(v)
        elif a == "freeze" and v in ("freeze_attr", "unfreeze_attr"):
            c.train_selection = (v == "unfreeze_attr")
        elif a == "summary":
            s = c.summary()["supernet_branches"]
            rv = [[int(round(float(s[f"branch_{i}"]["alpha"]) * 1e6)) if f"branch_{i}" in s else -1
                   for i in range(max(self.n, len(s)))]]
        elif a == "export":
            rep = [{"dp": 1, "slot": "best_layer_index", "idx": [int(c.best_layer_index()) + 1]}]
        else:
            raise MachineryError(f"BareSN: action {a} not applicable")
        return rep, rv, vlog


def _mps_net():
    torch, nn = P["torch"], P["nn"]

    class Net(nn.Module):
        def __init__(self):
            super().__init__()
            self.c1 = nn.Conv2d(3, 4, 3, padding=1)
            self.r = nn.ReLU()
            self.c2 = nn.Conv2d(4, 3, 3, padding=1)
            self.fc = nn.Linear(3 * 4 * 4, 5)

        def forward(self, x):
            x = self.r(self.c1(x))
            x = self.r(self.c2(x))
            return self.fc(torch.flatten(x, 1))
    return Net()


class ModelMPS:
    """MPS(Net): decision points = the distinct out / weight quantisers of the MPS layers."""
    def __init__(self, cfg, init, gen):
        torch = P["torch"]
        self.cfg = cfg
        self.gen = gen
        torch.default_generator.manual_seed(cfg.get("wseed", 0))
        wt = P["MPSType"].PER_CHANNEL if cfg["w"] == "channel" else P["MPSType"].PER_LAYER
        self.m = P["MPS"](_mps_net(), input_shape=(3, 4, 4), w_search_type=wt,
                          qinfo=P["get_default_qinfo"](tuple(cfg["w_prec"]), tuple(cfg["a_prec"])),
                          temperature=init["t4"] / 1e4, gumbel_softmax=init["gum"], hard_softmax=init["hd"],
                          disable_sampling=init["dis"])
        self.m.train()
        self.layers = [(ln, layer) for ln, _, layer in self.m._unique_leaf_modules if isinstance(layer, P["MPSModule"])]
        self.q: List[Any] = []
        for _, layer in self.layers:
            for attr in ("out_mps_quantizer", "w_mps_quantizer"):
                qq = getattr(layer, attr, None)
                if isinstance(qq, P["MPSBaseQtz"]) and all(qq is not x for x in self.q):
                    self.q.append(qq)
        self.dp = [{"k": "mps", "ctor": "model"} for _ in self.q]
        self.shape = [(q.alpha.shape[0], q.alpha.shape[1] if q.alpha.dim() == 2 else 1) for q in self.q]
        self.prec = [[int(p) for p in q.precision.tolist()] for q in self.q]
        self.init_v = {"hd": init["hd"], "gum": init["gum"], "dis": init["dis"], "t4": init["t4"], "smp": False, "sel": True}
        self.skipped_slots = 0
        self.export_left_eval = 0
        self.donor = None

    def _load(self, v):
        """load_state_dict of a checkpoint of ANOTHER instance of the same model, taken in another state."""
        import copy
        torch = P["torch"]
        if self.donor is None:
            self.donor = ModelMPS(self.cfg, {"hd": False, "gum": False, "dis": False, "t4": 10000}, self.gen)
        dn = self.donor
        tr, hd, gum = CKPT_OPTS[v["ck"]]
        dn.m.update_softmax_options(temperature=v["t4"] / 1e4, hard=hd, gumbel=gum, disable_sampling=False)
        _write_alpha(dn.q, v["al"], "copy")
        dn.m.train(tr)
        dn.m(torch.rand(2, 3, 4, 4, generator=self.gen))
        sd = copy.deepcopy(dn.m.state_dict())
        self.m.load_state_dict(sd)
        obs = dn.observe()
        return {"al": [o["al"] for o in obs], "th": [o["th"] for o in obs], "t4": [o["t4"] for o in obs]}

    def _dp_of(self, q) -> int:
        for i, x in enumerate(self.q):
            if x is q:
                return i + 1
        return 0

    def observe(self):
        return [_obs_qtz(q) for q in self.q]

    def _idx(self, d: int, value) -> List[int]:
        """reported / materialised precision value(s) -> 1-based candidate index per channel (0 = not a candidate)."""
        vals = list(value) if isinstance(value, (list, tuple)) else [value]
        pr = self.prec[d - 1]
        return [pr.index(int(x)) + 1 if int(x) in pr else 0 for x in vals]

    def _summary(self):
        rep = []
        s = self.m.summary()
        for ln, layer in self.layers:
            ent = s.get(ln, {})
            for slot, attr in (("in", "in_mps_quantizer"), ("out", "out_mps_quantizer"), ("w", "w_mps_quantizer")):
                key = slot + "_precision"
                q = getattr(layer, attr, None)
                d = self._dp_of(q) if q is not None else 0
                if key not in ent:
                    continue
                if d == 0:
                    self.skipped_slots += 1        # placeholder quantiser of the network input
                    continue
                rep.append({"dp": d, "slot": f"{ln}.{slot}", "idx": self._idx(d, ent[key])})
        return rep

    def _export(self):
        torch = P["torch"]
        was = bool(self.q[0].training)
        e = self.m.export()
        if bool(self.q[0].training) != was:
            self.export_left_eval += 1          # side effect on the mode: property C18 (F16), neutralised here
            self.m.train(was)
        rep = []
        for ln, layer in self.layers:
            try:
                sub = e.get_submodule(ln)
            except AttributeError:
                rep.append({"dp": self._dp_of(layer.out_mps_quantizer), "slot": f"{ln}.missing", "idx": [0]})
                continue
            parts = list(sub) if isinstance(sub, P["nn"].ModuleList) else [sub]
            per_channel_w = hasattr(layer, "w_mps_quantizer") and layer.w_mps_quantizer.alpha.dim() == 2
            wmap: Dict[int, int] = {}
            for k, part in enumerate(parts):
                for slot, attr, src in (("in", "in_quantizer", "in_mps_quantizer"), ("out", "out_quantizer", "out_mps_quantizer")):
                    if not hasattr(part, attr) or getattr(layer, src, None) is None:
                        continue
                    d = self._dp_of(getattr(layer, src))
                    if d == 0:
                        continue
                    rep.append({"dp": d, "slot": f"{ln}[{k}].{slot}", "idx": self._idx(d, getattr(part, attr).precision)})
                if hasattr(part, "w_quantizer") and hasattr(layer, "w_mps_quantizer"):
                    d = self._dp_of(layer.w_mps_quantizer)
                    if not per_channel_w:
                        rep.append({"dp": d, "slot": f"{ln}[{k}].w", "idx": self._idx(d, part.w_quantizer.precision)})
                    else:
                        # which channels of the searched layer ended up in this part: match weight rows
                        full = layer.weight.detach().reshape(layer.weight.shape[0], -1)
                        rows = part.weight.detach().reshape(part.weight.shape[0], -1)
                        for r in range(rows.shape[0]):
                            hit = [c for c in range(full.shape[0]) if torch.equal(full[c], rows[r])]
                            if len(hit) == 1 and hit[0] not in wmap:
                                wmap[hit[0]] = self._idx(d, part.w_quantizer.precision)[0]
            if per_channel_w:
                d = self._dp_of(layer.w_mps_quantizer)
                rep.append({"dp": d, "slot": f"{ln}.w", "idx": [wmap.get(c, 0) for c in range(layer.weight.shape[0])]})
        return rep

    def step(self, a, v):
        torch = P["torch"]
        m = self.m
        rep: List[Any] = []
        vlog = None
        if a == "temp":
            m.update_softmax_options(temperature=v / 1e4)
        elif a == "hard":
            m.update_softmax_options(hard=v)
        elif a == "gumbel":
            m.update_softmax_options(gumbel=v)
        elif a == "disable":
            m.update_softmax_options(disable_sampling=v)
        elif a == "train":
            m.train()
        elif a == "eval":
            m.eval()
        elif a == "fwd":
            with _grad_ctx(bool(v)):
                m(torch.rand(2, 3, 4, 4, generator=self.gen))
        elif a == "alpha":
            _write_alpha(self.q, v["al"], v["wk"])
        elif a == "load":
            vlog = self._load(v)
        elif a == "freeze" and v in ("net_only", "nas_only", "net_and_nas"):
            getattr(m, "train_" + v)()               # DNAS.train_net_only / train_nas_only / train_net_and_nas
        elif a == "summary":
            rep = self._summary()
        elif a == "export":
            rep = self._export()
        else:
            raise MachineryError(f"ModelMPS: action {a} not applicable")
        return rep, [[] for _ in self.q], vlog


def _sn_net(blocks: List[int], gum: bool, hd: bool, pos: bool = False):
    nn, SNM = P["nn"], P["SuperNetModule"]

    def branches(n, variant):
        pool = [lambda: nn.Conv2d(3, 3, 1),
                lambda: nn.Conv2d(3, 3, 3, padding=1),
                lambda: nn.Sequential(nn.Conv2d(3, 3, 3, padding=1), nn.ReLU(), nn.Conv2d(3, 3, 1)),
                lambda: nn.Identity(),
                lambda: nn.Conv2d(3, 3, 5, padding=2),
                lambda: nn.Sequential(nn.Conv2d(3, 3, 1), nn.BatchNorm2d(3)),
                lambda: nn.AvgPool2d(3, 1, 1),
                lambda: nn.Conv2d(3, 3, 3, padding=1, groups=3)]
        pool = pool[variant:] + pool[:variant]
        return [f() for f in pool[:n]]

    class Net(nn.Module):
        def __init__(self):
            super().__init__()
            self.blk = nn.ModuleList([SNM(branches(n, 3 * i), gum, hd) if pos else
                                      SNM(branches(n, 3 * i), gumbel_softmax=gum, hard_softmax=hd)
                                      for i, n in enumerate(blocks)])
            self.head = nn.Conv2d(3, 2, 1)

        def forward(self, x):
            for b in self.blk:
                x = b(x)
            return self.head(x)
    return Net()


class ModelSN:
    """SuperNet(Net) with one SuperNetModule per entry of cfg['blocks'] (number of branches)."""
    def __init__(self, cfg, init, gen):
        torch = P["torch"]
        self.cfg = cfg
        self.gen = gen
        torch.default_generator.manual_seed(cfg.get("wseed", 0))
        self.m = P["SuperNet"](_sn_net(cfg["blocks"], init["gum"], init["hd"], cfg.get("ctor", "kw") == "pos"),
                                 input_shape=(3, 4, 4))
        self.m.update_softmax_options(temperature=init["t4"] / 1e4)
        self.m.train()
        self.names = [n for n, _, l in self.m._unique_leaf_modules if isinstance(l, P["SuperNetCombiner"])]
        self.c = [l for _, _, l in self.m._unique_leaf_modules if isinstance(l, P["SuperNetCombiner"])]
        if len(self.c) != len(cfg["blocks"]):
            raise MachineryError("ModelSN: combiners not found")
        for c, mat in zip(self.c, init["alpha0"]):
            _set_alpha(c, mat)
        self.dp = [{"k": "sn", "ctor": "model"} for _ in self.c]
        self.shape = [(c.n_branches, 1) for c in self.c]
        self.init_v = {"hd": init["hd"], "gum": init["gum"], "dis": False, "t4": init["t4"], "smp": False, "sel": True}
        self.export_left_eval = 0
        self.donor = None

    def observe(self):
        return [_obs_comb(c) for c in self.c]

    def _load(self, v):
        """load_state_dict of a checkpoint of ANOTHER instance of the same SuperNet (alpha is the only
        architectural tensor a combiner registers)."""
        import copy
        if self.donor is None:
            self.donor = ModelSN(self.cfg, {"hd": False, "gum": False, "dis": False, "t4": 10000, "alpha0": v["al"]}, self.gen)
        dn = self.donor
        dn.m.update_softmax_options(temperature=v["t4"] / 1e4)
        _write_alpha(dn.c, v["al"], "copy")
        sd = copy.deepcopy(dn.m.state_dict())
        self.m.load_state_dict(sd)
        obs = dn.observe()
        return {"al": [o["al"] for o in obs], "th": [[] for _ in obs], "t4": [o["t4"] for o in obs]}

    def step(self, a, v):
        torch = P["torch"]
        m = self.m
        rep: List[Any] = []
        rv: List[Any] = [[] for _ in self.c]
        vlog = None
        if a == "temp":
            m.update_softmax_options(temperature=v / 1e4)
        elif a == "hard":
            m.update_softmax_options(hard=v)
        elif a == "train":
            m.train()
        elif a == "eval":
            m.eval()
        elif a == "fwd":
            with _grad_ctx(bool(v)):
                m(torch.rand(2, 3, 4, 4, generator=self.gen))
        elif a == "alpha":
            _write_alpha(self.c, v["al"], v["wk"])
        elif a == "load":
            vlog = self._load(v)
        elif a == "freeze" and v in ("net_only", "nas_only", "net_and_nas"):
            getattr(m, "train_" + v)()
        elif a == "freeze" and v in ("freeze_attr", "unfreeze_attr"):
            m.train_selection = (v == "unfreeze_attr")
        elif a == "summary":
            s = m.summary()
            rv = []
            for name, c in zip(self.names, self.c):
                br = s.get(name, {}).get("supernet_branches", {})
                rv.append([int(round(float(br[f"branch_{i}"]["alpha"]) * 1e6)) if f"branch_{i}" in br else -1
                           for i in range(max(c.n_branches, len(br)))])
        elif a == "export":
            was = bool(self.c[0].training)
            e = m.export()
            if bool(self.c[0].training) != was:
                self.export_left_eval += 1      # side effect on the mode: property C18 (F16), neutralised here
                m.train(was)
            targets = [str(n.target) for n in e.graph.nodes if n.op == "call_module"]
            for d, name in enumerate(self.names):
                prefix = name[: -len("sn_combiner")] + "sn_branches."
                alive = sorted({int(t[len(prefix):].split(".")[0]) + 1 for t in targets if t.startswith(prefix)})
                if any(t == name for t in targets):
                    alive = [0] + alive          # the combiner itself survived
                rep.append({"dp": d + 1, "slot": name[: -len(".sn_combiner")], "idx": alive})
        else:
            raise MachineryError(f"ModelSN: action {a} not applicable")
        return rep, rv, vlog


DRIVERS = {"bare_mps": BareMPS, "bare_sn": BareSN, "model_mps": ModelMPS, "model_sn": ModelSN}


# ----------------------------------------------------------------------------------------------
# scenario execution (also used by --replay)
# ----------------------------------------------------------------------------------------------
def _check_written(t4: Optional[int], mats: Optional[List[List[List[int]]]]) -> None:
    """what the HARNESS writes must lie in the property's domain (a harness bug otherwise); what the object then
    holds is judged by the trace specification (clause C10.domain)"""
    if t4 is not None and not (500 <= t4 <= 200000):
        raise MachineryError(f"harness generated a temperature outside [0.05, 20]: {t4}")
    for mat in mats or []:
        for col in mat:
            srt = sorted(col)
            if any(b - a < 499 for a, b in zip(srt, srt[1:])):
                raise MachineryError(f"harness generated coefficients with a gap below 0.05: {col}")


def _errtext(ex: BaseException) -> str:
    txt = f"{type(ex).__name__}: {ex}"
    txt = "".join(ch if 32 <= ord(ch) < 127 and ch not in '"\\' else " " for ch in txt)
    return " ".join(txt.split())[:300]


def execute(sc: Dict[str, Any], open_ids: List[str]) -> Tuple[Dict[str, Any], Any]:
    """Run one scenario on a fresh real object; return (trace, driver).  TOTAL: an exception raised by the library
    (constructor, call, or while its state is read) ends the trace with an event that carries the exception text -
    the trace specification turns it into the clause C10.raises; only harness errors (MachineryError) propagate."""
    _setup()
    torch = P["torch"]
    torch.default_generator.manual_seed(sc["tseed"])          # Gumbel noise (CPU generator only)
    gen = torch.Generator().manual_seed(sc["tseed"] + 1)
    ini = sc["init"]
    _check_written(ini["t4"], ini.get("alpha0"))
    kind = "sn" if sc["driver"] in ("bare_sn", "model_sn") else "mps"
    requested = {"hd": ini["hd"], "gum": ini["gum"], "dis": ini.get("dis", False) and kind == "mps", "t4": ini["t4"],
                 "smp": sc["driver"] == "bare_mps", "sel": bool(ini.get("sel", True))}
    try:
        drv = DRIVERS[sc["driver"]](sc["cfg"], ini, gen)
        obs = drv.observe()
    except MachineryError:
        raise
    except Exception as ex:                                   # noqa: the library failed to build / be read
        dp = [{"k": kind, "ctor": "bare" if sc["driver"].startswith("bare") else "model"}]
        return {"open": list(open_ids), "dp": dp,
                "ev": [{"a": "init", "v": requested, "o": [], "rep": [], "rv": [], "err": _errtext(ex)}]}, None
    ev = [{"a": "init", "v": drv.init_v, "o": obs, "rep": [], "rv": [[] for _ in drv.dp], "err": ""}]
    for a, v in sc["steps"]:
        if a in ("alpha", "load"):
            if [(len(m[0]), len(m)) for m in v["al"]] != [tuple(x) for x in drv.shape]:
                raise MachineryError(f"scenario coefficients {[(len(m[0]), len(m)) for m in v['al']]} do not fit the decision points {drv.shape}")
            _check_written(v.get("t4"), v["al"])
        elif a == "temp":
            _check_written(v, None)
        err, rep, rv, vlog = "", [], [[] for _ in drv.dp], None
        try:
            rep, rv, vlog = drv.step(a, v)
            obs = drv.observe()
        except MachineryError:
            raise
        except Exception as ex:                               # noqa: the library raised
            err = _errtext(ex)
        if a in ("temp", "hard", "gumbel", "disable", "freeze"):
            lv = v
        elif a == "fwd":
            lv = bool(v)                                   # grad mode
        elif a == "alpha":
            lv = {"wk": v["wk"], "al": v["al"]}            # how, and what, was written
        elif a == "load" and vlog is not None:
            lv = vlog                                      # the checkpoint: alpha, theta_alpha, temperature per decision point
        else:
            lv = 0
        ev.append({"a": a, "v": lv, "o": obs, "rep": rep if not err else [], "rv": rv if not err else [[] for _ in drv.dp],
                   "err": err})
        if err:
            break
    return {"open": list(open_ids), "dp": drv.dp, "ev": ev}, drv


def _winner_changes(trace: Dict[str, Any]) -> bool:
    """non-trivial = at some event the arg-max of some coefficient vector differs from the initial one."""
    first = [[max(range(len(col)), key=col.__getitem__) for col in o["al"]] for o in trace["ev"][0]["o"]]
    for e in trace["ev"][1:]:
        now = [[max(range(len(col)), key=col.__getitem__) for col in o["al"]] for o in e["o"]]
        if now != first:
            return True
    return False


# ----------------------------------------------------------------------------------------------
# abstract -> concrete
# ----------------------------------------------------------------------------------------------
def _temp(rng: random.Random, cls: str) -> int:
    if cls == "any":
        return _rand_temp(rng)           # the whole supported range, end points included
    lo, hi = TEMP_BANDS[cls]
    r = rng.random()
    return lo if r < 0.25 else hi if r < 0.5 else rng.randint(lo, hi)


def _alpha_from_ranking(rng: random.Random, r: List[int]) -> List[int]:
    """integer coefficients (x 10^4) realising ranking r (r[i] = position of candidate i, larger = bigger)."""
    n = len(r)
    level = [rng.randint(-20000, 20000)]
    for _ in range(n - 1):
        level.append(level[-1] + (500 if rng.random() < 0.3 else rng.randint(500, 10000)))
    return [level[r[i] - 1] for i in range(n)]


def _ranking_for(rng: random.Random, rk: List[List[int]], d: int, c: int, n_d: int, c_d: int) -> List[int]:
    if len(rk) == c_d and len(rk[0]) == n_d and len(rk) > 1:
        return list(rk[c])                                    # per-channel enumeration: the matrix itself
    r = rk[0]
    if len(r) == n_d:
        k = (d + c) % n_d
        return [r[(i + k) % n_d] for i in range(n_d)]         # rotated so that decision points / channels differ
    p = list(range(1, n_d + 1))
    rng.shuffle(p)
    return p


def _alpha_step(rng: random.Random, rk: List[List[int]], shape: List[Tuple[int, int]]) -> List[List[List[int]]]:
    return [[_alpha_from_ranking(rng, _ranking_for(rng, rk, d, c, n_d, c_d)) for c in range(c_d)]
            for d, (n_d, c_d) in enumerate(shape)]


LABEL = re.compile(r"^(\w+)(?:\((.*)\))?$", re.S)


def _parse_label(lab: str) -> Tuple[str, List[Any]]:
    m = LABEL.match(lab.strip())
    if not m:
        raise MachineryError(f"cannot parse action label {lab!r}")
    name, arg = m.group(1), m.group(2)
    args = list(tlc.parse_value("<<" + arg + ">>")) if arg is not None else []
    table = {"UpdTemp": "temp", "UpdHard": "hard", "UpdGumbel": "gumbel", "UpdDisable": "disable", "ModeTrain": "train",
             "ModeEval": "eval", "Forward": "fwd", "SetAlpha": "alpha", "Load": "load", "SetSel": "freeze", "Summarize": "summary",
             "Export": "export"}
    if name not in table:
        raise MachineryError(f"unknown action {name}")
    return table[name], args


# ----------------------------------------------------------------------------------------------
# covering walk over a dumped graph: every (applicable) edge is executed at least once
# ----------------------------------------------------------------------------------------------
def cover(nodes, edges, init, applicable, seg_len: int, rng: random.Random, stats: Optional[Dict[str, int]] = None):
    """Return segments [(init_node, [edge index, ...])] whose union contains every applicable edge of the subgraph
    that the applicable edges span from the initial states (= the whole graph when every action is applicable)."""
    reach = set(init)
    dq0 = deque(init)
    adj: Dict[str, List[str]] = {u: [] for u in nodes}
    for u, v, lab in edges:
        if applicable(lab):
            adj[u].append(v)
    while dq0:
        u = dq0.popleft()
        for v in adj[u]:
            if v not in reach:
                reach.add(v)
                dq0.append(v)
    out: Dict[str, List[int]] = {u: [] for u in nodes}
    for i, (u, v, lab) in enumerate(edges):
        if applicable(lab) and u in reach:
            out[u].append(i)
    if stats is not None:
        stats.update({"states_in_graph": len(nodes), "edges_in_graph": len(edges), "states_walked": len(reach),
                      "edges_to_cover": sum(len(x) for x in out.values())})
    for u in out:
        rng.shuffle(out[u])
    succ: Dict[str, Dict[str, int]] = {u: {} for u in nodes}
    for u in out:
        for i in out[u]:
            v = edges[i][1]
            if v != u and v not in succ[u]:
                succ[u][v] = i
    visited = [False] * len(edges)
    ptr = {u: 0 for u in nodes}
    remaining = sum(len(x) for x in out.values())

    def next_unvisited(u):
        lst = out[u]
        while ptr[u] < len(lst) and visited[lst[ptr[u]]]:
            ptr[u] += 1
        return lst[ptr[u]] if ptr[u] < len(lst) else None

    def path_to_work(src):
        if next_unvisited(src) is not None:
            return []
        prev: Dict[str, Tuple[str, int]] = {src: ("", -1)}
        dq = deque([src])
        while dq:
            u = dq.popleft()
            for v, ei in succ[u].items():
                if v in prev:
                    continue
                prev[v] = (u, ei)
                if next_unvisited(v) is not None:
                    path = []
                    x = v
                    while x != src:
                        px, pe = prev[x]
                        path.append(pe)
                        x = px
                    return path[::-1]
                dq.append(v)
        return None

    segments = []

    def run_segment(start, must_work: bool):
        nonlocal remaining
        seg: List[int] = []
        cur = start
        first = True
        while True:
            path = path_to_work(cur)
            if path is None:
                break
            if not first and len(seg) + len(path) + 1 > seg_len:
                break
            first = False
            for ei in path:
                seg.append(ei)
                cur = edges[ei][1]
            ei = next_unvisited(cur)
            visited[ei] = True
            remaining -= 1
            seg.append(ei)
            cur = edges[ei][1]
            if len(seg) >= seg_len:
                break
        if seg or not must_work:
            segments.append((start, seg))
        return bool(seg)

    for s in init:                       # every initial state (constructor combination) is built at least once
        run_segment(s, must_work=False)
    def nearest_start():
        """the initial state with the shortest path to a state that still has an unvisited edge"""
        dist = {u: 0 for u in init}
        root = {u: u for u in init}
        dq = deque(init)
        while dq:
            u = dq.popleft()
            if next_unvisited(u) is not None:
                return root[u]
            for v in succ[u]:
                if v not in dist:
                    dist[v] = dist[u] + 1
                    root[v] = root[u]
                    dq.append(v)
        return None

    while remaining > 0:
        start = nearest_start()
        if start is None or not run_segment(start, must_work=True):
            raise MachineryError(f"covering walk: {remaining} edges unreachable from the initial states")
    return segments


JOBS: List[Dict[str, Any]] = []      # per covering walk: what was walked (goes into the evidence file)


def scenarios_from_graph(nodes, edges, init, driver: str, cfg_of, applicable, seg_len: int, rng: random.Random,
                         init_alpha_any: bool = False, what: str = "") -> List[Dict[str, Any]]:
    """Concretise the covering walk into executable scenarios (one per segment)."""
    _setup()
    out = []
    stats: Dict[str, Any] = {"walk": what, "driver": driver}
    segs = cover(nodes, edges, init, applicable, seg_len, rng, stats)
    stats["edge_executions"] = sum(len(seg) for _, seg in segs)
    stats["scenarios"] = len(segs)
    JOBS.append(stats)
    for start, seg in segs:
        st = nodes[start]["st"]
        cfg = cfg_of(st)
        shape = cfg["_shape"]
        ini = {"hd": st["hard"], "gum": st["gum"], "dis": st["dis"], "t4": _temp(rng, st["temp"]), "sel": bool(st["sel"])}
        steps: List[Any] = []
        rk0 = [list(r) for r in st["rank"]]
        if driver in ("bare_sn", "model_sn"):
            ini["alpha0"] = _alpha_step(rng, rk0, shape)
        elif init_alpha_any and any(r != sorted(r) for r in rk0):
            steps.append(["alpha", {"wk": "copy", "al": _alpha_step(rng, rk0, shape)}])   # (identity = what the constructor left)
        for ei in seg:
            a, args = _parse_label(edges[ei][2])
            if a == "temp":
                steps.append([a, _temp(rng, args[0])])
            elif a in ("hard", "gumbel", "disable", "fwd"):
                steps.append([a, bool(args[0])])
            elif a == "freeze":
                steps.append([a, args[0]])
            elif a == "alpha":
                steps.append([a, {"wk": args[1], "al": _alpha_step(rng, [list(r) for r in args[0]], shape)}])
            elif a == "load":
                steps.append([a, {"ck": args[1], "al": _alpha_step(rng, [list(r) for r in args[0]], shape),
                                  "t4": _temp(rng, args[2])}])
            else:
                steps.append([a, 0])
        cfg = dict(cfg)
        cfg["ctor"] = "pos" if len(out) % 2 else "kw"          # public constructors by keyword and positionally, alternately
        out.append({"kind": "graph", "driver": driver, "cfg": {k: v for k, v in cfg.items() if not k.startswith("_")},
                    "init": ini, "steps": steps, "tseed": rng.randrange(1 << 30), "edges": len(seg)})
    return out


# ----------------------------------------------------------------------------------------------
# random drivers (far outside the exhaustive bounds)
# ----------------------------------------------------------------------------------------------
def _rand_temp(rng: random.Random) -> int:
    r = rng.random()
    if r < 0.15:
        return 500
    if r < 0.3:
        return 200000
    return min(200000, max(500, int(round(10 ** rng.uniform(2.69897, 5.30103)))))   # log-uniform in [0.05, 20] (x 10^4)


def _rand_alpha(rng: random.Random, shape: List[Tuple[int, int]]) -> List[List[List[int]]]:
    res = []
    for n, c in shape:
        mat = []
        for _ in range(c):
            p = list(range(1, n + 1))
            rng.shuffle(p)
            mat.append(_alpha_from_ranking(rng, p))
        res.append(mat)
    return res


def random_scenario(rng: random.Random, driver: str) -> Dict[str, Any]:
    _setup()
    ini = {"hd": rng.random() < 0.5, "gum": rng.random() < 0.5, "dis": rng.random() < 0.2, "t4": _rand_temp(rng)}
    if driver == "bare_mps":
        n = rng.randint(1, 8)
        form = rng.choice(["layer", "channel"])
        c = rng.choice([1, 2, 3, 4, 5, 8, 16]) if form == "channel" else 1
        if form == "channel" and rng.random() < 0.4:
            c = n                                   # SQUARE coefficient matrix: as many channels as precisions
        # alpha at construction = precision / max precision: gaps >= 1/16 > 0.05 for any choice from this pool
        prec = rng.sample(SORTED_PREC + ([0] if form == "channel" else []), n)
        if max(prec) == 0:
            prec[0] = 4
        cfg = {"form": form, "prec": prec, "C": c if form == "channel" else 3,
               "qtz": "minmax" if form == "channel" else rng.choice(["pact", "minmax"]), "ctor": rng.choice(["kw", "pos"])}
        shape = [(n, c if form == "channel" else 1)]
        acts = ["temp", "hard", "gumbel", "disable", "train", "eval", "eval", "fwd", "fwd", "fwd", "alpha", "alpha", "load",
                "freeze", "freeze"]
        hows = ["freeze_attr", "unfreeze_attr"]
        ini["sel"] = rng.random() < 0.7
    elif driver == "bare_sn":
        n = rng.randint(1, 8)
        cfg = {"N": n, "ctor": rng.choice(["kw", "pos"])}
        shape = [(n, 1)]
        ini["dis"] = False
        ini["alpha0"] = _rand_alpha(rng, shape)
        acts = ["temp", "hard", "train", "eval", "eval", "fwd", "fwd", "fwd", "alpha", "alpha", "load", "summary", "export",
                "freeze", "freeze"]
        hows = ["freeze_attr", "unfreeze_attr"]
        ini["sel"] = rng.random() < 0.5
    elif driver == "model_mps":
        w = rng.choice(["layer", "channel"])
        a_prec = rng.choice([[2, 4, 8], [4, 8], [8], [2, 4, 6, 8], [8, 4, 2]])
        w_prec = rng.choice([[2, 4, 8], [4, 8], [2, 4, 6, 8], [8, 2, 4], [2, 3, 4, 5, 6, 7, 8]])
        cfg = {"w": w, "a_prec": a_prec, "w_prec": w_prec, "wseed": rng.randrange(1000)}
        chans = {"c1": 4, "c2": 3, "fc": 5}
        na, nw = len(a_prec), len(w_prec)
        # decision points in layer order: input.out, c1.out, c1.w, c2.out, c2.w, fc.out (dummy), fc.w
        shape = [(na, 1), (na, 1), (nw, chans["c1"] if w == "channel" else 1), (na, 1),
                 (nw, chans["c2"] if w == "channel" else 1), (1, 1), (nw, chans["fc"] if w == "channel" else 1)]
        acts = ["temp", "hard", "gumbel", "disable", "train", "eval", "eval", "fwd", "fwd", "alpha", "alpha", "load",
                "summary", "export", "freeze", "freeze"]
        hows = ["net_only", "net_only", "nas_only", "net_and_nas"]
        ini["sel"] = True
    elif driver == "model_sn":
        blocks = [rng.randint(1, 8) for _ in range(rng.randint(1, 3))]
        cfg = {"blocks": blocks, "wseed": rng.randrange(1000), "ctor": rng.choice(["kw", "pos"])}
        shape = [(n, 1) for n in blocks]
        ini["dis"] = False
        ini["alpha0"] = _rand_alpha(rng, shape)
        acts = ["temp", "hard", "train", "eval", "eval", "fwd", "fwd", "alpha", "alpha", "load", "summary", "export",
                "freeze", "freeze"]
        hows = ["net_only", "freeze_attr", "nas_only", "net_and_nas", "unfreeze_attr"]
        ini["sel"] = True
    else:
        raise MachineryError(driver)
    steps: List[Any] = []
    sel = ini["sel"]
    for _ in range(rng.randint(4, 24)):
        a = rng.choice(acts)
        if a == "freeze":
            how = rng.choice(hows)
            sel = how not in ("freeze_attr", "net_only")
            steps.append([a, how])
        elif a == "temp":
            steps.append([a, _rand_temp(rng)])
        elif a in ("hard", "gumbel", "disable"):
            steps.append([a, rng.random() < 0.5])
        elif a == "fwd":
            steps.append([a, rng.random() < 0.5])                      # grad enabled / torch.no_grad()
        elif a == "alpha":
            steps.append([a, {"wk": rng.choice(["copy", "data", "optim"] if sel else ["copy", "data"]),   # frozen: no optimizer
                              "al": _rand_alpha(rng, shape)}])
        elif a == "load":
            steps.append([a, {"ck": rng.choice(["onehot", "soft", "probF", "probT"]), "al": _rand_alpha(rng, shape),
                              "t4": _rand_temp(rng)}])
        else:
            steps.append([a, 0])
    return {"kind": "random", "driver": driver, "cfg": cfg, "init": ini, "steps": steps, "tseed": rng.randrange(1 << 30),
            "_shape": shape}


def pinned_scenarios() -> List[Dict[str, Any]]:
    """Deterministic histories that every run executes (independent of the seed): the coefficients are frozen,
    then something that must change the sample happens (option update, write to alpha, checkpoint), then a
    forward pass - for every sampler kind and hard flag at construction, on every kind of object / model."""
    _setup()
    rng = random.Random(20260926)
    out = []

    def al(shape, k):          # coefficients whose winner is candidate (k mod N) + 1 in every vector
        return [[_alpha_from_ranking(rng, [((i - k - 1) % n) + 1 for i in range(n)]) for _ in range(c)] for n, c in shape]

    targets = [("bare_mps", {"form": "layer", "prec": [2, 4, 8], "C": 3, "qtz": "pact"}, [(3, 1)], ["freeze_attr"]),
               ("bare_mps", {"form": "channel", "prec": [2, 4, 8], "C": 3, "qtz": "minmax"}, [(3, 3)], ["freeze_attr"]),
               ("bare_sn", {"N": 3}, [(3, 1)], ["freeze_attr"]),
               ("model_mps", {"w": "layer", "a_prec": [2, 4, 8], "w_prec": [2, 4, 8]},
                [(3, 1)] * 5 + [(1, 1), (3, 1)], ["net_only"]),
               ("model_mps", {"w": "channel", "a_prec": [4, 8], "w_prec": [2, 4, 8]},
                [(2, 1), (2, 1), (3, 4), (2, 1), (3, 3), (1, 1), (3, 5)], ["net_only"]),
               ("model_sn", {"blocks": [3, 2]}, [(3, 1), (2, 1)], ["net_only", "freeze_attr"])]
    for driver, cfg, shape, hows in targets:
        for gum in (False, True):
            for hd in (False, True):
                for how in hows:
                    changes = [[["hard", not hd]], [["temp", 500]],
                               [["alpha", {"wk": "copy", "al": al(shape, 0)}]], [["alpha", {"wk": "data", "al": al(shape, 1)}]],
                               [["load", {"ck": "soft", "al": al(shape, 0), "t4": 20000}]]]
                    for ch in changes:
                        ini = {"hd": hd, "gum": gum, "dis": False, "t4": 10000, "sel": True}
                        if driver in ("bare_sn", "model_sn"):
                            ini["alpha0"] = al(shape, 2)
                        steps = [["alpha", {"wk": "copy", "al": al(shape, 2)}], ["fwd", True], ["freeze", how]] + ch + \
                                [["fwd", True], ["eval", 0], ["fwd", True], ["fwd", False], ["summary", 0], ["export", 0]]
                        if driver == "bare_mps":
                            steps = [x for x in steps if x[0] not in ("summary", "export")]
                        out.append({"kind": "pinned", "driver": driver, "cfg": cfg, "init": ini, "steps": steps,
                                    "tseed": 7 + len(out)})

    # SQUARE per-channel coefficient matrices (as many channels as precisions: shapes coincide with the transpose):
    # every assignment of winners to channels for 2x2, 3x3, 4x4, through eval mode, hard and soft training,
    # built by the public constructor by keyword and positionally with hard != gumbel among the options
    import itertools

    def mat(win, n):           # one vector per channel, channel c won by candidate win[c] (1-based)
        return [[_alpha_from_ranking(rng, [((i - w) % n) + 1 for i in range(n)]) for w in win]]
    k = 0
    for n, prec in ((2, [4, 8]), (3, [2, 4, 8]), (4, [2, 4, 6, 8])):
        for win in itertools.product(range(1, n + 1), repeat=n):
            other = tuple(((w % n) + 1) for w in win[::-1])
            hd, gum = [(False, False), (True, False), (False, True), (True, True)][k % 4]
            steps = [["alpha", {"wk": "copy", "al": mat(win, n)}], ["fwd", True], ["eval", 0], ["fwd", True], ["fwd", False],
                     ["train", 0], ["hard", True], ["fwd", True], ["alpha", {"wk": "data", "al": mat(other, n)}],
                     ["fwd", True], ["eval", 0], ["fwd", False]]
            out.append({"kind": "pinned", "driver": "bare_mps",
                        "cfg": {"form": "channel", "prec": prec, "C": n, "qtz": "minmax", "ctor": "pos" if k % 2 else "kw"},
                        "init": {"hd": hd, "gum": gum, "dis": False, "t4": [10000, 500, 200000][k % 3], "sel": True},
                        "steps": steps, "tseed": 1000 + k})
            k += 1
    # ... and inside whole models: c2 has 3 output channels (square with 3 weight precisions), c1 has 4 (square with 4)
    chans = (4, 3, 5)
    for w_prec in ([2, 4, 8], [2, 4, 6, 8]):
        nw = len(w_prec)
        shape = [(2, 1), (2, 1), (nw, chans[0]), (2, 1), (nw, chans[1]), (1, 1), (nw, chans[2])]
        for r in range(6):
            def al_m(shift):
                return [[_alpha_from_ranking(rng, [((i - (c * (r + 1) + d + shift)) % n) + 1 for i in range(n)])
                         for c in range(cc)] for d, (n, cc) in enumerate(shape)]
            hd, gum = [(False, False), (True, False), (False, True)][r % 3]
            steps = [["alpha", {"wk": "copy", "al": al_m(0)}], ["fwd", True], ["summary", 0], ["export", 0], ["eval", 0],
                     ["fwd", False], ["alpha", {"wk": "copy", "al": al_m(1)}], ["fwd", True], ["summary", 0], ["export", 0],
                     ["train", 0], ["hard", True], ["fwd", True]]
            out.append({"kind": "pinned", "driver": "model_mps",
                        "cfg": {"w": "channel", "a_prec": [4, 8], "w_prec": w_prec, "wseed": r},
                        "init": {"hd": hd, "gum": gum, "dis": False, "t4": 10000, "sel": True},
                        "steps": steps, "tseed": 2000 + 10 * nw + r})
    return out


# ----------------------------------------------------------------------------------------------
def _probe_optimpl() -> str:
    """Which update_softmax_options semantics does the tree under test have (pinned / repaired F08)?"""
    _setup()
    q = P["MPSPerLayerQtz"]((2, 4, 8), P["PACTAct"], {}, gumbel_softmax=True)
    q.update_softmax_options(temperature=1.0)
    return "fixed" if _sampler(q) == "gs" else "pinned"


class _Prefetch:
    """The design configurations are independent TLC processes: start them concurrently, then hand each result to
    core.Run.design when the check asks for that configuration (expectations and bookkeeping stay in core)."""
    def __init__(self, jobs: List[Tuple[str, Dict[str, Any]]], parallel: int = 6):
        self.jobs = jobs
        self.parallel = parallel
        self.fut: Dict[str, Any] = {}
        self.dots: Dict[str, str] = {}

    def __enter__(self):
        from concurrent.futures import ThreadPoolExecutor
        tlc.scratch()
        self.orig = tlc.run_tlc
        self.ex = ThreadPoolExecutor(max_workers=self.parallel)
        for cfg, kw in self.jobs:
            kw = dict(kw)
            if kw.pop("graph", False):
                self.dots[cfg] = tempfile.mktemp(prefix="c10-", suffix=".dot", dir=tlc.scratch())
                kw.update(dump_dot=self.dots[cfg], coverage=True)
            self.fut[cfg] = self.ex.submit(self.orig, "SelectionMC", cfg, **kw)

        def served(module, cfg, **kw):
            f = self.fut.pop(cfg, None) if module == "SelectionMC" else None
            return f.result() if f is not None else self.orig(module, cfg, **kw)
        tlc.run_tlc = served
        return self

    def __exit__(self, *exc):
        tlc.run_tlc = self.orig
        self.ex.shutdown(wait=True, cancel_futures=True)
        return False


PRE: Optional[_Prefetch] = None


def _graph(R: Run, cfg: str, require: List[str], workers: int = 2):
    dot = PRE.dots[cfg] if PRE is not None and cfg in PRE.dots else \
        tempfile.mktemp(prefix="c10-", suffix=".dot", dir=tlc.scratch())
    res = R.design("SelectionMC", cfg, dump_dot=dot, coverage=True, workers=workers)
    # vacuity guard: TLC reports <distinct new states>:<states generated> per action; an action that is never
    # enabled generates nothing (new-distinct may legitimately be 0 when other actions found the states first)
    for a in require:
        c = res.coverage.get(f"SelectionMC!{a}")
        if c is None or c[1] == 0:
            raise MachineryError(f"vacuity guard: action {a} never taken in SelectionMC/{cfg}")
    nodes, edges, init = tlc.parse_dot(dot)
    if len(nodes) != res.distinct:
        raise MachineryError(f"{cfg}: dump has {len(nodes)} states, TLC reported {res.distinct}")
    # TLC's dump order depends on worker scheduling: renumber canonically so that a seed fixes the scenarios
    from ..core import canon
    key = {nid: canon(st) for nid, st in nodes.items()}
    order = sorted(nodes, key=key.__getitem__)
    new = {nid: f"s{k}" for k, nid in enumerate(order)}
    nodes2 = {new[nid]: nodes[nid] for nid in order}
    edges2 = sorted({(new[u], new[v], lab) for u, v, lab in edges}, key=lambda e: (int(e[0][1:]), e[2], int(e[1][1:])))
    init2 = sorted({new[x] for x in init}, key=lambda x: int(x[1:]))
    return nodes2, edges2, init2


def run(tier: str, seed: int, replay: Optional[str] = None) -> int:
    R = Run("C10", tier, seed, level="model_checking")
    _setup()
    open_ids = sorted(R.known_open)
    R.rule = ("scenario = (object or model, constructor options, concrete call sequence with temperatures, grad modes, "
              "ways of writing alpha, checkpoints and coefficient matrices); graph scenarios are the segments of a covering walk over the reachable graphs of SelectionMC "
              "(every edge executed on the real objects), random scenarios are seeded call sequences on objects with "
              "1..8 candidates and up to 16 channels and on whole models. Non-trivial = at some event the arg-max of a "
              "coefficient vector differs from the one the object was constructed with.")
    R.assumptions = [
        "coefficients are drawn with pairwise gaps >= 0.05 and temperatures in [0.05, 20] (the property's quantifier); "
        "one-hot is decided to 2e-6 per entry, sums to 1.6e-5 (theta logged x10^6)",
        "the sampler options in force are those given to the public constructor (all of them are given there) until the first "
        "option update; afterwards the sampler in force is read from the object's bound `sample_alpha` method - which options an "
        "update selects is property C11 (F08)",
        "constructors are called by keyword and, alternately, positionally in the order of the class's own signature",
        "theta_alpha is claimed only after a sampling step (forward pass, quantiser constructor); a quantiser constructed "
        "with disable_sampling=True holds all-ones until a checkpoint is loaded - outside the claim ('keep the saved coefficients')",
        "export() is followed by restoring the training flag it may clear (that side effect is property C18)",
        "writes to alpha: copy_ under no_grad, assignment to alpha.data, one SGD step (lr 1) with the gradient alpha - new; "
        "load_state_dict loads the (deep-copied) state_dict of a second object / model of the same type and architecture that "
        "was driven to the state the edge names (coefficients, theta_alpha class via mode / options, temperature); "
        "trainability of alpha is a state dimension: alpha.requires_grad is logged for every decision point; a bare quantiser "
        "is frozen by alpha.requires_grad = False, a combiner by train_selection, models by train_net_only() / train_nas_only() / "
        "train_net_and_nas() (SuperNet also by train_selection); in the graphs without the freeze action a bare SuperNetCombiner "
        "gets train_selection=True as SuperNet.__init__ does; an optimizer step is only taken while alpha is trainable",
        "per-channel export is identified by matching weight rows of the exported parts with the searched layer",
    ]
    R.exhaustive = False

    if replay:
        sc = json.load(open(replay))["scenario"]
        tr, _ = execute(sc, open_ids)
        vs = R.validate("SelectionTrace", "SelectionTrace", [tr], [sc], nontrivial=lambda s: True, env=TLC_ENV)
        _extra_known(R, vs)
        return R.finish()

    import time
    T0 = time.time()
    timing: Dict[str, float] = {}
    R.extra["timing_s"] = timing
    rng = random.Random(seed * 7919 + 10)
    thorough = tier != "quick"
    optimpl = _probe_optimpl()
    R.extra["update_softmax_options_semantics_detected"] = optimpl

    # ------------------------------------------------------------------ 1. design level
    sfx = "thorough" if thorough else "quick"
    other = "fixed" if optimpl == "pinned" else "pinned"
    all_mps = ["UpdTemp", "UpdHard", "UpdGumbel", "UpdDisable", "ModeTrain", "ModeEval", "Forward", "SetAlpha", "Load",
               "Summarize", "Export"]
    all_sn = ["UpdTemp", "UpdHard", "ModeTrain", "ModeEval", "Forward", "SetAlpha", "Load", "Summarize", "Export"]
    mod_mps = all_mps if thorough else [a for a in all_mps if a not in ("UpdTemp", "UpdDisable")]
    broken = {"ForwardSamples", "OneHotAtArgmax", "SoftKeepsWinner", "GumbelTraining"}
    SANITY = (("SelectionMC_sn_nokf", {"OneHotAtArgmax"}), ("SelectionMC_sn_sumsamples", {"ReportIsArgmax"}),
              ("SelectionMC_mps_skipflag", {"OneHotAtArgmax"}), ("SelectionMC_mps_skipver", {"OneHotAtArgmax"}),
              ("SelectionMC_sn_skipflag", {"OneHotAtArgmax", "ForwardSamples"}),
              ("SelectionMC_sn_trainonly", broken), ("SelectionMC_mps_trainonly", broken))
    graphs = [f"SelectionMC_mps_{optimpl}_{sfx}", f"SelectionMC_sn_{sfx}",
              *([f"SelectionMC_pc_{optimpl}_{sfx}"] if thorough else []),
              f"SelectionMC_pcw_{optimpl}_{sfx}", f"SelectionMC_mpsmodel_{optimpl}_{sfx}", f"SelectionMC_snmodel_{sfx}",
              *([] if thorough else [f"SelectionMC_sq3_{optimpl}_quick"]),
              f"SelectionMC_mpsfrz_{optimpl}_{sfx}", f"SelectionMC_mmfrz_{optimpl}_{sfx}", f"SelectionMC_snfrz_{sfx}",
              f"SelectionMC_smfrz_{sfx}"] + \
             ([f"SelectionMC_mps_{optimpl}_thorough3", "SelectionMC_sn_thorough3"] if thorough else [])
    plain = [f"SelectionMC_mps_{other}_{sfx}", f"SelectionMC_sn_ref_{sfx}"] + [c for c, _ in SANITY]
    global PRE
    with _Prefetch([(c, {"graph": True, "workers": 2}) for c in graphs] + [(c, {"workers": 2}) for c in plain]) as PRE:
        G: Dict[str, Any] = {}
        G["mps"] = _graph(R, f"SelectionMC_mps_{optimpl}_{sfx}", all_mps)
        # C10 conditions its claims on the sampler in force, so it must hold under both option semantics
        R.design("SelectionMC", f"SelectionMC_mps_{other}_{sfx}", workers=2)
        G["sn"] = _graph(R, f"SelectionMC_sn_{sfx}", all_sn)
        R.design("SelectionMC", f"SelectionMC_sn_ref_{sfx}", workers=2)
        # sanity / non-vacuity: defective variants must violate the clause they are about.
        #  sn_nokf       : the combiner AS IMPLEMENTED without admitting the named deviation (eval mode is not hard)
        #  sn_sumsamples : summary() re-samples (the pinned code, repaired in the tree)
        #  *_skipflag / mps_skipver : an inference-time short cut (eval mode + torch.no_grad()) that keeps a cached
        #                  theta_alpha across writes to alpha
        #  *_trainonly   : the forward pass re-samples only while alpha is trainable
        for cfg, clauses in SANITY:
            bad = R.design("SelectionMC", cfg, expect_ok=False, workers=2)
            got = {v["name"] for v in bad.violations}
            if not (got & clauses):
                raise MachineryError(f"sanity config {cfg} violated {sorted(got)}, expected one of {sorted(clauses)}")
        # per-channel enumeration: every ranking matrix x every constructor option x mode, one forward pass per grad mode
        # (quick: replaced by the square 3x3 enumeration below, the 2x2 pcw graph, which has every constructor option,
        #  and the pinned square histories)
        if thorough:
            G["pc"] = _graph(R, f"SelectionMC_pc_{optimpl}_{sfx}", ["ModeTrain", "ModeEval", "Forward"])
        if not thorough:    # square 3x3 matrices (thorough: the pc graph itself is 3x3), every ranking matrix
            G["sq3"] = _graph(R, f"SelectionMC_sq3_{optimpl}_quick", ["ModeTrain", "ModeEval", "Forward"])
        # per-channel writes: every way of writing alpha between forward passes of either grad mode, every constructor option
        G["pcw"] = _graph(R, f"SelectionMC_pcw_{optimpl}_{sfx}", ["ModeTrain", "ModeEval", "Forward", "SetAlpha"] +
                          (["Load"] if thorough else []))
        # whole models
        G["mm"] = _graph(R, f"SelectionMC_mpsmodel_{optimpl}_{sfx}", mod_mps)
        G["sm"] = _graph(R, f"SelectionMC_snmodel_{sfx}", all_sn)
        # trainability of alpha: freeze / unfreeze interleaved with option updates, writes, checkpoints and forward passes
        frz = ["UpdHard", "ModeTrain", "ModeEval", "Forward", "SetAlpha", "Load", "SetSel"]
        G["mpsfrz"] = _graph(R, f"SelectionMC_mpsfrz_{optimpl}_{sfx}", frz)
        G["mmfrz"] = _graph(R, f"SelectionMC_mmfrz_{optimpl}_{sfx}", frz if thorough else [a for a in frz if a != "Load"])
        G["snfrz"] = _graph(R, f"SelectionMC_snfrz_{sfx}", frz + ["UpdTemp"])
        G["smfrz"] = _graph(R, f"SelectionMC_smfrz_{sfx}", frz + ["UpdTemp"])
        if thorough:        # three temperature classes in addition
            G["mps3"] = _graph(R, f"SelectionMC_mps_{optimpl}_thorough3", all_mps)
            G["sn3"] = _graph(R, "SelectionMC_sn_thorough3", all_sn)
    PRE = None

    timing["design"] = round(time.time() - T0, 1)
    # ------------------------------------------------------------------ 2. spec -> code: every edge on the real objects
    scen: List[Dict[str, Any]] = []
    seg_len = 150
    not_bare = lambda lab: not (lab.startswith("Summarize") or lab.startswith("Export"))   # a bare quantiser has neither
    every = lambda lab: True

    def n_of(g):                         # N of the configuration = length of a ranking in its states
        return len(next(iter(g[0].values()))["st"]["rank"][0])

    def prec_for(st, n):
        base = sorted(SORTED_PREC[:n]) if n > 3 else [2, 4, 8][-n:]
        r0 = st["rank"][0]
        return [base[r0[i] - 1] for i in range(n)]

    def bare_layer(g, what):
        n = n_of(g)
        return scenarios_from_graph(*g, "bare_mps",
                                    lambda st: {"form": "layer", "prec": prec_for(st, n), "C": 3,
                                                "qtz": "pact" if st["hard"] else "minmax", "_shape": [(n, 1)]},
                                    not_bare, seg_len, rng, what=what)

    def bare_channel(g, what, c=4):
        n = n_of(g)
        return scenarios_from_graph(*g, "bare_mps",
                                    lambda st: {"form": "channel", "prec": prec_for(st, n), "C": c, "qtz": "minmax",
                                                "_shape": [(n, c)]},
                                    not_bare, seg_len, rng, what=what)

    def bare_sn(g, what):
        n = n_of(g)
        return scenarios_from_graph(*g, "bare_sn", lambda st: {"N": n, "_shape": [(n, 1)]}, every, seg_len, rng, what=what)

    del JOBS[:]
    scen += bare_layer(G["mps"], f"MPSPerLayerQtz / mps_{optimpl}_{sfx}: every edge")
    if "pc" in G:
        pc_ch = len(next(iter(G["pc"][0].values()))["st"]["rank"])
        scen += scenarios_from_graph(*G["pc"], "bare_mps",
                                     lambda st: {"form": "channel", "prec": [2, 4, 8], "C": pc_ch, "qtz": "minmax",
                                                 "_shape": [(3, pc_ch)]},
                                     not_bare, seg_len, rng, init_alpha_any=True,
                                     what=f"MPSPerChannelQtz / pc_{optimpl}_{sfx}: every edge")
    if "sq3" in G:
        scen += scenarios_from_graph(*G["sq3"], "bare_mps",
                                     lambda st: {"form": "channel", "prec": [2, 4, 8], "C": 3, "qtz": "minmax", "_shape": [(3, 3)]},
                                     not_bare, seg_len, rng, init_alpha_any=True,
                                     what=f"MPSPerChannelQtz, SQUARE 3x3 / sq3_{optimpl}_quick: every edge (every ranking matrix)")
    pw_ch = len(next(iter(G["pcw"][0].values()))["st"]["rank"])
    scen += bare_channel(G["pcw"], f"MPSPerChannelQtz ({pw_ch} channels) / pcw_{optimpl}_{sfx}: every edge", c=pw_ch)
    if thorough:        # (per-channel objects walk the full alphabet in the mpsfrz graph below)
        scen += bare_layer(G["mps3"], f"MPSPerLayerQtz / mps_{optimpl}_thorough3: every edge")
    scen += bare_sn(G["sn"], f"SuperNetCombiner / sn_{sfx}: every edge")
    if thorough:
        scen += bare_sn(G["sn3"], "SuperNetCombiner / sn_thorough3: every edge")
    # decision points of the whole MPS model, in layer order: input.out, c1.out, c1.w, c2.out, c2.w, fc.out (dummy), fc.w
    nm = n_of(G["mm"])
    mm_shape_l = [(nm, 1)] * 5 + [(1, 1), (nm, 1)]
    scen += scenarios_from_graph(*G["mm"], "model_mps",
                                 lambda st: {"w": "layer", "a_prec": prec_for(st, nm), "w_prec": prec_for(st, nm),
                                             "_shape": mm_shape_l},
                                 every, seg_len, rng, what=f"MPS model, per-layer weights / mpsmodel_{optimpl}_{sfx}: every edge")
    mm_shape_c = [(nm, 1), (nm, 1), (nm, 4), (nm, 1), (nm, 3), (1, 1), (nm, 5)]
    no_opts = lambda lab: not lab.startswith("Upd")
    scen += scenarios_from_graph(*G["mm"], "model_mps",
                                 lambda st: {"w": "channel", "a_prec": prec_for(st, nm), "w_prec": prec_for(st, nm),
                                             "_shape": mm_shape_c},
                                 every if thorough else no_opts, seg_len, rng,
                                 what=f"MPS model, per-channel weights / mpsmodel_{optimpl}_{sfx}: " +
                                      ("every edge" if thorough else "every edge of the subgraph without option updates "
                                                                     "(all constructor options x mode x forward / writes / load / summary / export)"))
    ns = n_of(G["sm"])
    scen += scenarios_from_graph(*G["sm"], "model_sn", lambda st: {"blocks": [ns, ns], "_shape": [(ns, 1), (ns, 1)]},
                                 every, seg_len, rng, what=f"SuperNet model, two blocks / snmodel_{sfx}: every edge")
    # trainability switch
    scen += bare_layer(G["mpsfrz"], f"MPSPerLayerQtz / mpsfrz_{optimpl}_{sfx} (alpha frozen / trainable): every edge")
    scen += bare_channel(G["mpsfrz"], f"MPSPerChannelQtz (4 channels) / mpsfrz_{optimpl}_{sfx}: every edge")
    scen += bare_sn(G["snfrz"], f"SuperNetCombiner / snfrz_{sfx} (train_selection): every edge")
    nf = n_of(G["mmfrz"])
    scen += scenarios_from_graph(*G["mmfrz"], "model_mps",
                                 lambda st: {"w": "layer", "a_prec": prec_for(st, nf), "w_prec": prec_for(st, nf),
                                             "_shape": [(nf, 1)] * 5 + [(1, 1), (nf, 1)]},
                                 every, seg_len, rng,
                                 what=f"MPS model / mmfrz_{optimpl}_{sfx} (train_net_only / train_nas_only / train_net_and_nas): every edge")
    nz = n_of(G["smfrz"])
    scen += scenarios_from_graph(*G["smfrz"], "model_sn", lambda st: {"blocks": [nz, nz], "_shape": [(nz, 1), (nz, 1)]},
                                 every, seg_len, rng,
                                 what=f"SuperNet model / smfrz_{sfx} (train_selection, train_net_only / nas_only / net_and_nas): every edge")
    R.extra["covering_walks"] = list(JOBS)
    n_graph_scen = len(scen)
    pinned = pinned_scenarios()
    scen += pinned
    R.extra["pinned_scenarios"] = len(pinned)
    R.extra["graph_edges_executed"] = sum(s.get("edges", 0) for s in scen)

    # ------------------------------------------------------------------ 3. code -> spec: random drivers
    n_rand = {"bare_mps": 3000, "bare_sn": 1200, "model_mps": 160, "model_sn": 160} if thorough else \
             {"bare_mps": 400, "bare_sn": 200, "model_mps": 24, "model_sn": 24}
    for drv, k in n_rand.items():
        for _ in range(k):
            sc = random_scenario(rng, drv)
            sc.pop("_shape", None)
            scen.append(sc)

    timing["scenarios"] = round(time.time() - T0, 1)
    stats = {"export_left_eval": 0, "skipped_placeholder_slots": 0}
    batches = _Batches(R, "graph replay + random")
    n_events = 0
    for i, (sc, (tr, left_eval, skipped)) in enumerate(zip(scen, _execute_all(scen, open_ids))):
        n_events += len(tr["ev"])
        stats["export_left_eval"] += left_eval
        stats["skipped_placeholder_slots"] += skipped
        if i in (0, n_graph_scen - 1, len(scen) - 1):
            R.sample({"scenario": {k: v for k, v in sc.items() if k != "steps"} | {"steps": sc["steps"][:6]},
                      "observed": [{"a": e["a"], "v": e["v"] if e["a"] != "load" else "(checkpoint)", "o": e["o"][:1],
                                    "rep": e["rep"][:2], "rv": e["rv"][:1]} for e in tr["ev"][:4]]})
        batches.add(sc, tr)
    timing["executed"] = round(time.time() - T0, 1)
    batches.finish()
    R.extra.update(stats)
    R.extra["events_executed"] = n_events
    R.extra["graph_scenarios"] = n_graph_scen
    R.extra["random_scenarios"] = len(scen) - n_graph_scen - len(pinned)
    timing["validated"] = round(time.time() - T0, 1)
    return R.finish()


def _exec_chunk(args):
    """worker process: execute a chunk of scenarios on real objects (each scenario is self-contained and seeded)"""
    chunk, open_ids = args
    out = []
    for sc in chunk:
        tr, drv = execute(sc, open_ids)
        out.append((tr, getattr(drv, "export_left_eval", 0), getattr(drv, "skipped_slots", 0)))
    return out


def _execute_all(scen: List[Dict[str, Any]], open_ids: List[str], procs: int = 3, chunk: int = 24, ahead: int = 8):
    """Execute the scenarios in `procs` worker processes (spawned: no state is shared, a scenario carries everything it
    needs, the tree under test comes from VERIF_REPO as in this process); results are yielded in scenario order and at
    most `ahead` chunks are in flight, so that memory stays bounded."""
    import multiprocessing
    from concurrent.futures import ProcessPoolExecutor
    if int(os.environ.get("VERIF_C10_PROCS", procs)) <= 1:
        for sc in scen:
            tr, drv = execute(sc, open_ids)
            yield tr, getattr(drv, "export_left_eval", 0), getattr(drv, "skipped_slots", 0)
        return
    chunks = [scen[k:k + chunk] for k in range(0, len(scen), chunk)]
    with ProcessPoolExecutor(max_workers=int(os.environ.get("VERIF_C10_PROCS", procs)),
                             mp_context=multiprocessing.get_context("spawn")) as ex:
        pending: deque = deque()
        nxt = 0
        while nxt < len(chunks) or pending:
            while nxt < len(chunks) and len(pending) < ahead:
                pending.append(ex.submit(_exec_chunk, (chunks[nxt], open_ids)))
                nxt += 1
            for item in pending.popleft().result():
                yield item


TLC_ENV = {"JAVA_TOOL_OPTIONS": "-Xss64m"}     # SelectionTrace recurses over blocks of 25 events; generous worker stacks


def _validate(R: Run, traces, scen, nontrivial, label: str) -> List[str]:
    return R.validate("SelectionTrace", "SelectionTrace", traces, scen, nontrivial=nontrivial, label=label,
                      chunk=1 << 30, workers=8, env=TLC_ENV)


class _Batches:
    """Traces are validated in batches of bounded size (TLC holds a batch in memory) while the next scenarios are
    being executed: the TLC run of a batch is started in the background, its verdicts are then handed to
    core.Run.validate (classification, known findings, evidence counters stay in core)."""
    MAX_EVENTS = 25000

    def __init__(self, R: Run, label: str):
        from concurrent.futures import ThreadPoolExecutor
        self.R, self.label = R, label
        self.ex = ThreadPoolExecutor(max_workers=2)
        self.cur: List[Tuple[Any, Any]] = []
        self.cur_events = 0
        self.pending: List[Tuple[Any, List[Any], List[Any], Dict[int, bool]]] = []
        tlc.scratch()

    def add(self, sc, tr) -> None:
        self.cur.append((sc, tr))
        self.cur_events += len(tr["ev"])
        if self.cur_events >= self.MAX_EVENTS:
            self._submit()

    def _submit(self) -> None:
        if not self.cur:
            return
        scs = [x[0] for x in self.cur]
        trs = [x[1] for x in self.cur]
        nontriv = {id(sc): _winner_changes(tr) for sc, tr in self.cur}
        fut = self.ex.submit(tlc.validate_traces, "SelectionTrace", "SelectionTrace", trs, chunk=1 << 30, workers=4,
                             env=TLC_ENV)
        self.pending.append((fut, scs, trs, nontriv))
        self.cur, self.cur_events = [], 0
        while len(self.pending) > 3:          # bound the memory held by finished scenarios
            self._collect()

    def _collect(self) -> None:
        fut, scs, trs, nontriv = self.pending.pop(0)
        res = fut.result()
        orig = tlc.validate_traces
        tlc.validate_traces = lambda *a, **k: res
        try:
            vs = self.R.validate("SelectionTrace", "SelectionTrace", trs, scs, nontrivial=lambda s: nontriv[id(s)],
                                 label=self.label)
        finally:
            tlc.validate_traces = orig
        _extra_known(self.R, vs)

    def finish(self) -> None:
        self._submit()
        while self.pending:
            self._collect()
        self.ex.shutdown(wait=True)


def _extra_known(R: Run, verdicts: List[str]) -> None:
    """A trace verdict may name several open findings ('known:F41:.. || known:F42:..'); core counts the first,
    the others are counted here (they are open by construction: the trace spec turns a signature of a
    finding that is not listed in the trace's `open` field into a violation)."""
    for v in verdicts:
        if not v.startswith("known:"):
            continue
        for part in v.split(" || known:")[1:]:
            fid, _, msg = part.partition(":")
            if fid in R.known_open:
                R.known_hits[fid] = R.known_hits.get(fid, 0) + 1
                R.known_examples.setdefault(fid, msg)
