"""C20 - precision refinement only promotes channels, meets the chosen counts, never raises the cost.

design       : ReassignMC (TLC, exhaustive): the intended reassignment (RefAssign) satisfies the
               property on every tie-free score matrix x every composition; the literal transcription of
               the pinned _reassign_precisions (AsIsAssign) is model-checked too and is EXPECTED to violate
               "counts met" (finding F18; non-vacuity of the invariants); the two move-one-channel-up
               searches with the NE16 latency (integers) only ever choose promotions that do not cost more.
spec -> code : every final state of the as-is design run (all 2880 inputs for 2x3) is executed on the real
               _reassign_precisions; the assignment TLC computed for the state is cross-checked.
code -> spec : the recorded results (those, seeded random matrices up to 4x8, and whole per-channel MPS
               models driven through optimize_prec_assignment with the NE16 cost) are validated by TLC
               (ReassignTrace): property clauses on the observed values, bug-compatibility signatures of
               the known findings evaluated with the same operators.
"""
from __future__ import annotations

import contextlib
import io
import itertools
import json
import os
import random
import tempfile

from ..core import Run, use_repo
from .. import tlc

JENV = {"JAVA_TOOL_OPTIONS": "-Xss64m"}      # recursive operators: generous Java thread stacks for TLC's workers
ASC_BITS = [(2, 4, 8), (4, 8), (2, 8), (0, 2, 4, 8), (0, 4, 8), (2, 4, 8, 16)]
OTHER_BITS = [(8, 2, 4), (8, 4, 2), (4, 2), (4, 8, 0)]


# ------------------------------------------------------------------------------------- real code
def _env():
    use_repo()
    import torch
    import plinio.methods.mps.utils as U
    return torch, U


LAYOUTS = ["tview", "strided", "fortran"]


def with_layout(torch, t, layout):
    """The same values as the 2-D (or 1-D) tensor t in another dense / strided memory layout."""
    if layout == "contig":
        return t.contiguous()
    if t.dim() == 1:
        big = torch.zeros(2 * t.numel(), dtype=t.dtype)
        big[::2] = t
        return big[::2]
    if layout == "tview":                       # transposed view of a channels-by-precisions table
        r = t.t().contiguous().t()
    elif layout == "strided":                   # every second column of a wider table
        big = torch.zeros(t.shape[0], 2 * t.shape[1], dtype=t.dtype)
        big[:, ::2] = t
        r = big[:, ::2]
    elif layout == "fortran":                   # column-major strides
        r = torch.empty_strided(t.shape, (1, t.shape[0]), dtype=t.dtype)
        r.copy_(t)
    else:
        raise tlc.MachineryError(f"unknown layout {layout}")
    if not torch.equal(r, t) or (r.is_contiguous() and min(t.shape) > 1):
        raise tlc.MachineryError("layout helper did not produce an equal, non-contiguous tensor")
    return r


def run_fn(torch, U, scores, best, layout="contig"):
    """One call of the real _reassign_precisions. scores: PxC ints, best: P ints."""
    tb = torch.tensor(best, dtype=torch.float32)
    ts = with_layout(torch, torch.tensor(scores, dtype=torch.float32), layout)
    if layout != "contig":
        tb = with_layout(torch, tb, layout)
    try:
        out = U._reassign_precisions(tb, ts)
    except Exception:
        if layout == "contig":
            raise
        return []                    # the function refuses an equal-valued tensor in another layout: not a 0/1 matrix
    m = out.tolist()
    res = []
    for row in m:
        r = []
        for x in row:
            if x != int(x) or abs(x) >= 2 ** 30:
                raise tlc.MachineryError(f"_reassign_precisions returned a non-integer entry {x}")
            r.append(int(x))
        res.append(r)
    return res


def compositions(c, p):
    if p == 1:
        yield (c,)
        return
    for k in range(c + 1):
        for rest in compositions(c - k, p - 1):
            yield (k,) + rest


def _ranks(t):
    """Tie-free ranks 0..n-1 of a 2-D tensor (None if there are ties)."""
    flat = [float(x) for row in t.tolist() for x in row]
    if len(set(flat)) != len(flat):
        return None
    order = sorted(range(len(flat)), key=lambda i: flat[i])
    rk = [0] * len(flat)
    for r, i in enumerate(order):
        rk[i] = r
    c = len(t[0])
    return [rk[i * c:(i + 1) * c] for i in range(len(t))]


def build_model(torch, sc):
    """A small per-channel MPS model with the NE16 cost described by scenario `sc`."""
    import torch.nn as nn
    from plinio.methods.mps import MPS, MPSType, get_default_qinfo
    from plinio.cost import ne16_latency

    class Net(nn.Module):
        def __init__(self):
            super().__init__()
            self.c1 = nn.Conv2d(sc["cin"], sc["c1"], 3, padding=1)
            self.r1 = nn.ReLU()
            self.c2 = nn.Conv2d(sc["c1"], sc["c2"], 1)
            self.r2 = nn.ReLU()
            self.pool = nn.AdaptiveAvgPool2d(1)
            self.fc = nn.Linear(sc["c2"], sc["ncls"])

        def forward(self, x):
            x = self.r1(self.c1(x))
            x = self.r2(self.c2(x))
            return self.fc(self.pool(x).flatten(1))

    torch.manual_seed(sc["seed"])
    m = MPS(Net(), cost={"ne16": ne16_latency}, input_shape=(sc["cin"], sc["hw"], sc["hw"]),
            w_search_type=MPSType.PER_CHANNEL,
            qinfo=get_default_qinfo(w_precision=tuple(sc["bits"]), a_precision=(8,)))
    g = torch.Generator().manual_seed(sc["seed"] + 1)
    for _, p in m.named_nas_parameters():
        if p.dim() == 2:
            p.data = with_layout(torch, torch.rand(p.shape, generator=g), sc.get("lay", "contig"))
    return m


def run_model(torch, U, sc):
    """Drive optimize_prec_assignment on a whole (freshly built) model; returns the trace (or a 'skip' record)."""
    return observe_refine(torch, U, build_model(torch, sc), prepare=True)


def observe_refine(torch, U, m, prepare, cb=None):
    """Run optimize_prec_assignment on model m and record the trace.  prepare=True: the model is first put into
    arg-max sampling (a fresh model); prepare=False: the model is taken exactly as its history left it (its sampling
    options / theta_alpha are not touched) and the cost before is the given cb (arg-max cost of a fresh model)."""
    from plinio.methods.mps.nn.qtz import MPSPerChannelQtz
    if prepare:
        m.update_softmax_options(hard=True)
        with torch.no_grad():
            m(m._input_example)
    layers = {ln: l for ln, _, l in m._unique_leaf_modules
              if isinstance(getattr(l, "w_mps_quantizer", None), MPSPerChannelQtz)}
    bits = {ln: [int(b) for b in l.w_mps_quantizer.precision.tolist()] for ln, l in layers.items()}
    before = {ln: m.summary()[ln]["w_precision"] for ln in layers}
    scores = {ln: _ranks(l.w_mps_quantizer.alpha.detach()) for ln, l in layers.items()}
    if any(s is None for s in scores.values()):
        return {"skip": "ties in alpha"}
    if prepare:
        cb = float(m.get_cost("ne16").detach())

    log = {"cur": None, "cc": {}, "re": {}}
    o_cc, o_re = U._compute_cost, U._reassign_precisions

    def cc(model, layer, arr, cost_fn_map, lname, node):
        c = o_cc(model, layer, arr, cost_fn_map, lname, node)
        n = layer.w_mps_quantizer.theta_alpha.shape[1]
        log["cur"] = lname
        log["cc"].setdefault(lname, []).append(([float(x) * n for x in arr], float(c)))
        return c

    def re_(best, sc_):
        out = o_re(best, sc_)
        log["re"].setdefault(log["cur"], []).append(([float(b) for b in best], [int(b.item()) for b in best]))
        return out

    U._compute_cost, U._reassign_precisions = cc, re_
    said = io.StringIO()
    try:
        with contextlib.redirect_stdout(said):
            U.optimize_prec_assignment(m, "ne16")
    except AssertionError as e:
        return {"skip": "optimize_prec_assignment assertion: " + str(e)[:80]}
    except tlc.MachineryError:
        raise
    except Exception as e:           # the refinement raises on a supported model: decided by the trace spec
        return {"k": "raised", "skip": "raised", "msg": type(e).__name__ + ": " + str(e)[:120]}
    finally:
        U._compute_cost, U._reassign_precisions = o_cc, o_re
    after = {ln: m.summary()[ln]["w_precision"] for ln in layers}
    ca = float(m.get_cost("ne16").detach())

    def centi(x):
        v = round(x * 100)
        if abs(v) >= 2 ** 31:
            raise tlc.MachineryError("cost does not fit a TLC integer")
        return v

    L = []
    for ln in layers:
        if ln not in log["re"]:
            continue
        if len(log["re"][ln]) != 1 or ln not in log["cc"]:
            raise tlc.MachineryError(f"layer {ln}: unexpected call pattern of the refinement")
        bestf, besti = log["re"][ln][0]
        calls = log["cc"][ln]
        L.append({"name": ln, "bits": bits[ln],
                  "before": [bits[ln].index(b) + 1 for b in before[ln]],
                  "after": [bits[ln].index(b) + 1 for b in after[ln]],
                  "scores": scores[ln],
                  "bestu": [round(b * 1_000_000) for b in bestf], "besti": besti,
                  "base": centi(calls[0][1]),
                  "visits": [[round(x * 1000) for x in v] for v, _ in calls[1:]],
                  "vcost": [centi(c) for _, c in calls[1:]]})
    rec = {"k": "model", "cb": centi(cb), "ca": centi(ca), "layers": L}
    import re
    ann = re.findall(r"Model cost decreased from ([-+.eE\d]+) to ([-+.eE\d]+)", said.getvalue())
    if ann:
        try:
            rec["ann"] = [centi(float(ann[-1][0])), centi(float(ann[-1][1]))]   # what the function announces
        except (ValueError, OverflowError):
            pass
    return rec


# ------------------------------------------------------------------------------------- sampling life cycle
LIFE_BITS = (4, 8)
LIFE_WIDTHS = (8, 16)                       # power-of-two channel counts (1/C exact in float32: no F27 artefacts)
LIFE_ALPHA = {"A": ((2, 6), (2, 14), 0), "B": ((3, 5), (1, 15), 1)}    # per-precision counts of c1, c2; phase


def _trained_like(torch, counts, n, phase):
    """Converged-looking coefficients: every channel clearly prefers one precision (margin 3), small ripple."""
    import math
    assign = [p for p, k in enumerate(counts) for _ in range(k)]
    assign = [assign[(c * 5 + phase) % n] for c in range(n)]
    a = torch.tensor([[0.3 * math.sin(1.7 * p + 0.9 * c * (p + 1) + phase) for c in range(n)]
                      for p in range(len(counts))], dtype=torch.float32)
    for c, p in enumerate(assign):
        a[p, c] += 3.0
    return a


class LifeBench:
    """A small clean per-channel MPS/NE16 model (ascending precisions, power-of-two widths, trained-like alpha) on
    which pre-histories of public calls are executed before optimize_prec_assignment."""

    def __init__(self, torch, U):
        import copy
        import torch.nn as nn
        from plinio.methods.mps import MPS, MPSType, get_default_qinfo
        from plinio.cost import ne16_latency
        from plinio.methods.mps.nn.qtz import MPSPerChannelQtz
        self.torch, self.U, self.copy, self.Q = torch, U, copy, MPSPerChannelQtz
        c1, c2 = LIFE_WIDTHS

        class Net(nn.Module):
            def __init__(self):
                super().__init__()
                self.c1 = nn.Conv2d(3, c1, 3, padding=1)
                self.c2 = nn.Conv2d(c1, c2, 3, padding=1)

            def forward(self, x):
                return self.c2(torch.relu(self.c1(x)))

        torch.manual_seed(1234)
        self.pristine = MPS(Net(), cost={"ne16": ne16_latency}, input_shape=(3, 6, 6),
                            w_search_type=MPSType.PER_CHANNEL,
                            qinfo=get_default_qinfo(w_precision=LIFE_BITS, a_precision=(8,)))
        if not self.pristine.training:
            raise tlc.MachineryError("life bench: a freshly built model is expected to be in training mode")
        self._fresh = {}

    def qtz(self, m):
        return {n.split(".")[1]: q for n, q in m.named_modules() if isinstance(q, self.Q)}

    def write(self, m, which, layout="contig"):
        k1, k2, ph = LIFE_ALPHA[which]
        q = self.qtz(m)
        q["c1"].alpha.data = with_layout(self.torch, _trained_like(self.torch, k1, LIFE_WIDTHS[0], ph), layout)
        q["c2"].alpha.data = with_layout(self.torch, _trained_like(self.torch, k2, LIFE_WIDTHS[1], ph), layout)

    def fresh(self, which):
        """Outcome of the refinement on a fresh model holding alpha set `which`."""
        if which not in self._fresh:
            m = self.copy.deepcopy(self.pristine)
            self.write(m, which)
            self._fresh[which] = observe_refine(self.torch, self.U, m, prepare=True)
        return self._fresh[which]

    def run(self, hist, layout="contig"):
        torch = self.torch
        m = self.copy.deepcopy(self.pristine)
        which = "A"
        self.write(m, which, layout)               # = Reassign!LifeInit
        torch.manual_seed(99)                      # Gumbel noise reproducible
        for a in hist:
            if a == "train":
                m.train()
            elif a == "eval":
                m.eval()
            elif a == "fwd":
                with torch.no_grad():
                    m(m._input_example)
            elif a in ("hard1", "hard0"):
                m.update_softmax_options(hard=a.endswith("1"))
            elif a in ("gumbel1", "gumbel0"):
                m.update_softmax_options(gumbel=a.endswith("1"))
            elif a in ("dis1", "dis0"):
                m.update_softmax_options(disable_sampling=a.endswith("1"))
            elif a == "temp_low":
                m.update_softmax_options(temperature=0.5)
            elif a == "temp_one":
                m.update_softmax_options(temperature=1.0)
            elif a == "write":
                which = "B" if which == "A" else "A"
                self.write(m, which, layout)
            else:
                raise tlc.MachineryError(f"unknown life action {a}")
        # projection of the real model just before the refinement
        q = self.qtz(m)
        th = [x.theta_alpha.detach() for x in q.values()]
        al = [x.alpha.detach() for x in q.values()]
        onehot = all(bool(((t == 0) | (t == 1)).all()) and bool((t.sum(0) == 1).all()) for t in th)
        hotcur = onehot and all(bool((t.argmax(0) == a_.argmax(0)).all()) for t, a_ in zip(th, al))
        q0 = next(iter(q.values()))
        pre = {"train": bool(m.training), "hard": bool(getattr(q0, "hard_softmax", False)),
               "gumbel": bool(getattr(q0, "gumbel_softmax", False)),
               "disable": bool(getattr(q0, "disable_sampling", False)),
               "temp": "low" if float(q0.temperature) < 0.75 else "one", "onehot": onehot, "hotcur": hotcur}
        fr = self.fresh(which)
        if "skip" in fr:
            raise tlc.MachineryError("life bench: fresh model skipped: " + fr["skip"])
        try:
            obs = observe_refine(torch, self.U, m, prepare=False, cb=fr["cb"] / 100.0)
        except tlc.MachineryError:
            raise
        except Exception as e:      # the refinement itself failed on this history (it works on the fresh model)
            obs = {"skip": type(e).__name__ + ": " + str(e)[:80]}
        tr = {"k": "mlife", "hist": list(hist), "pre": pre, "fresh": fr}
        if layout != "contig":
            tr["lay"] = layout
        if "skip" in obs:
            tr["raised"] = obs["skip"]
        else:
            tr["obs"] = obs
        return tr


# ------------------------------------------------------------------------------------- several refinable layers
class MultiBench:
    """Chains of refinable layers with independent geometry (ReassignMulti): conv3x3 / conv1x1 / linear, optional 2x2
    pooling, widths 8 / 16 (also EQUAL widths), precisions (4, 8), trained-like alpha => clean domain."""

    def __init__(self, torch, U):
        import copy
        self.torch, self.U, self.copy = torch, U, copy
        self._arch = {}

    def pristine(self, ml):
        import torch.nn as nn
        from plinio.methods.mps import MPS, MPSType, get_default_qinfo
        from plinio.cost import ne16_latency
        torch = self.torch
        key = tuple((L["kind"], L["c"], bool(L["pool"]), L["cin"]) for L in ml)
        if key in self._arch:
            return self._arch[key]
        spec = [(L["kind"], L["c"], bool(L["pool"])) for L in ml]
        cin0 = ml[0]["cin"]

        class Net(nn.Module):
            def __init__(self):
                super().__init__()
                c = cin0
                for i, (kind, w, _) in enumerate(spec):
                    if kind == "lin":
                        self.add_module(f"l{i}", nn.Linear(c, w))
                    else:
                        k = 3 if kind == "3x3" else 1
                        self.add_module(f"l{i}", nn.Conv2d(c, w, k, padding=k // 2))
                    c = w
                self.pool = nn.AvgPool2d(2)
                self.gap = nn.AdaptiveAvgPool2d(1)

            def forward(self, x):
                for i, (kind, _, pool) in enumerate(spec):
                    if kind == "lin":
                        x = getattr(self, f"l{i}")(self.gap(x).flatten(1))
                    else:
                        if pool:
                            x = self.pool(x)
                        x = torch.relu(getattr(self, f"l{i}")(x))
                return x

        torch.manual_seed(4321)
        m = MPS(Net(), cost={"ne16": ne16_latency}, input_shape=(cin0, 6, 6), w_search_type=MPSType.PER_CHANNEL,
                qinfo=get_default_qinfo(w_precision=LIFE_BITS, a_precision=(8,)))
        self._arch[key] = m
        return m

    def run(self, ml):
        """ml: the chain as enumerated by TLC ([{kind, h, w, cin, c, pool, n0}])."""
        from plinio.graph.inspection import shapes_dict
        from plinio.methods.mps.nn.qtz import MPSPerChannelQtz
        torch, U = self.torch, self.U
        m = self.copy.deepcopy(self.pristine(ml))
        names = [f"l{i}" for i in range(len(ml))]
        mods = {ln: (node, l) for ln, node, l in m._leaf_modules if ln in names}
        if set(mods) != set(names) or any(not isinstance(mods[n][1].w_mps_quantizer, MPSPerChannelQtz) for n in names):
            raise tlc.MachineryError("multi bench: layers of the chain not found in the converted model")
        for i, (ln, L) in enumerate(zip(names, ml)):
            mods[ln][1].w_mps_quantizer.alpha.data = _trained_like(torch, tuple(L["n0"]), L["c"], i)
        m.update_softmax_options(hard=True)
        with torch.no_grad():
            m(m._input_example)
        fmap = m._cost_fn_map["ne16"]

        def own():
            with torch.no_grad():
                return [round(float(m._cost_reduction_fn(mods[ln][1].get_cost(fmap[ln], shapes_dict(mods[ln][0])))) * 100)
                        for ln in names]
        # Cost[l][counts] for every split (j channels at 4 bit, c - j at 8 bit), from the real per-layer cost function
        tab = []
        with torch.no_grad():
            for ln, L in zip(names, ml):
                c = L["c"]
                node, layer = mods[ln]
                tab.append([round(float(U._compute_cost(m, layer, [torch.tensor(j / c), torch.tensor((c - j) / c)],
                                                        fmap, ln, node)) * 100) for j in range(c + 1)])
        ownb = own()
        obs = observe_refine(torch, U, m, prepare=True)
        if "skip" in obs:
            return obs
        owna = own()
        if [l["name"] for l in obs["layers"]] != names:
            raise tlc.MachineryError("multi bench: refined layers differ from the chain")
        geo = [{"kind": "1x1" if L["kind"] == "lin" else L["kind"], "h": L["h"], "w": L["w"], "cin": L["cin"]} for L in ml]
        return {"k": "multi", "geo": geo, "tab": tab, "ownb": ownb, "owna": owna, "obs": obs}


# ------------------------------------------------------------------------------------- 0-bit rows with pruned channels
ZERO_CASES = [   # (precisions, widths of two conv3x3 layers, per-precision counts per layer; the last layer cannot prune)
    ((0, 4, 8), (16, 16), [(4, 5, 7), (2, 6, 8)]),
    ((0, 2, 4, 8), (16, 16), [(4, 3, 5, 4), (1, 5, 5, 5)]),
    ((0, 2, 4, 8), (64, 32), [(16, 20, 20, 8), (8, 8, 8, 8)]),
    ((0, 4, 8), (8, 16), [(1, 3, 4), (5, 5, 6)]),
    ((0, 2, 4, 8), (16, 8), [(3, 6, 2, 5), (2, 2, 2, 2)]),
    ((0, 4, 8), (32, 8), [(5, 20, 7), (0, 3, 5)]),
]


def run_zero_case(torch, U, case):
    """Two conv3x3 layers, ascending precisions containing 0, power-of-two widths, trained-like alpha with channels
    actually PRUNED (0 bit) and widths that the effective channel count does not divide."""
    import torch.nn as nn
    from plinio.methods.mps import MPS, MPSType, get_default_qinfo
    from plinio.cost import ne16_latency
    from plinio.methods.mps.nn.qtz import MPSPerChannelQtz
    bits, widths, counts = case

    class Net(nn.Module):
        def __init__(self):
            super().__init__()
            self.l0 = nn.Conv2d(3, widths[0], 3, padding=1)
            self.l1 = nn.Conv2d(widths[0], widths[1], 3, padding=1)

        def forward(self, x):
            return torch.relu(self.l1(torch.relu(self.l0(x))))

    torch.manual_seed(7)
    m = MPS(Net(), cost={"ne16": ne16_latency}, input_shape=(3, 6, 6), w_search_type=MPSType.PER_CHANNEL,
            qinfo=get_default_qinfo(w_precision=tuple(bits), a_precision=(8,)))
    q = {n.split(".")[1]: x for n, x in m.named_modules() if isinstance(x, MPSPerChannelQtz)}
    pruned = 0
    for i, ln in enumerate(("l0", "l1")):
        cn = list(counts[i])
        if len(q[ln].precision) < len(cn):                 # the output layer has no 0-bit row
            cn = [cn[0] + cn[1]] + cn[2:]
        elif 0 in bits:
            pruned += cn[0]
        q[ln].alpha.data = _trained_like(torch, tuple(cn), widths[i], i)
    if pruned == 0:
        raise tlc.MachineryError("zero-bit family: no pruned channel in the scenario")
    return observe_refine(torch, U, m, prepare=True)


def random_model_scenario(rng, big):
    bits = list(rng.choice(ASC_BITS) if rng.random() < 0.85 else rng.choice(OTHER_BITS))
    hi = 70 if big else 40
    return {"kind": "model", "bits": bits, "cin": rng.choice([1, 3, 16, 20]), "c1": rng.randint(2, hi),
            "c2": rng.randint(2, hi), "ncls": rng.randint(2, 12), "hw": rng.choice([4, 6, 8]),
            "seed": rng.randrange(1 << 30), "lay": rng.choice(["contig", "contig"] + LAYOUTS)}


# ------------------------------------------------------------------------------------- check
def run(tier: str, seed: int, replay=None) -> int:
    R = Run("C20", tier, seed, level="model_checking")
    R.rule = ("scenario = (score matrix as tie-free ranks, target counts) for the reassignment step: all 6! x 4 inputs of "
              "size 2x3 (every final state of the TLC run) plus seeded random matrices 2x4..4x8 x random compositions; "
              "and (layer widths, precision tuple, seed of the random alpha) for whole per-channel MPS models "
              "conv3x3-conv1x1-linear with the NE16 cost. Non-trivial = targets differ from the current counts / the "
              "refinement changed at least one layer. Life cycle: scenario = sequence of public calls made on a clean model before the refinement (every behaviour of ReassignLife up to the bound); non-trivial = non-empty pre-history.")
    R.assumptions = [
        "score matrices are tie-free (float ties make torch.argsort order unspecified); alphas of whole models are random reals, logged as ranks",
        "target_count = int(best[p]) is computed by the harness exactly like the function does and handed to the transcription",
        "counts compared after rounding to the nearest integer (|x-round x| <= 0.002); costs in 1/100 cycle with slack 1 + cost/1e5",
        "whole models: conv3x3 -> conv1x1 -> linear, activations 8 bit (NE16 requirement); depthwise layers not generated",
        "the searches and _compute_cost are observed by wrapping the two module-level helpers from outside",
        "memory layout: every 2x3 input and every random input of the reassignment step is also run with scores / best in a non-contiguous layout (transposed view, every-second-column slice, column-major strides), result required to equal the contiguous one; alpha of random whole models and of the clean life-cycle model is stored in those layouts too",
        "0-bit rows: six clean two-conv models (ascending tuples containing 0, power-of-two widths, trained-like alpha) with 1-16 channels actually pruned; finding F27's signature is restricted to widths that are not powers of two and to chosen counts that are integers up to 0.002",
        "several layers: chains of 1-2 (thorough: up to 3, 600 sampled 3-layer chains) refinable layers conv3x3 / conv1x1 / linear, widths 8 / 16 incl. equal widths, optional 2x2 pooling, first-layer inputs 3 (thorough: also 40) channels, precisions (4,8), trained-like alpha; announced costs parsed from the printed message, compared with get_cost in 1/100 cycle (slack 1 + cost/1e5); the per-layer cost tables come from the library's own per-layer cost function called by the harness",
        "life cycle: every pre-history of at most 2 (thorough: 3) public calls out of 12 (train, eval, forward, each single sampling option on/off, two temperatures, alpha write) on a clean model (conv3x3 8 and 16 channels, precisions (4,8), trained-like alpha with margin 3, so that F18/F27/F28 do not interfere); outcome compared with a fresh model holding the same alpha; Gumbel noise seeded",
    ]
    torch, U = _env()
    torch.set_num_threads(2)

    if replay:
        sc = json.load(open(replay))["scenario"]
        if sc["kind"] == "zero":
            c_ = sc["case"]
            tr = run_zero_case(torch, U, (tuple(c_[0]), tuple(c_[1]), [tuple(x) for x in c_[2]]))
        elif sc["kind"] == "multi":
            tr = MultiBench(torch, U).run(sc["ml"])
        elif sc["kind"] == "mlife":
            tr = LifeBench(torch, U).run(sc["hist"], layout=sc.get("lay", "contig"))
        elif sc["kind"] == "model":
            tr = run_model(torch, U, sc)
        else:
            tr = {"k": "fn", "scores": sc["scores"], "best": sc["best"], "out": run_fn(torch, U, sc["scores"], sc["best"])}
            if sc.get("lay"):
                tr = dict(tr, lay=sc["lay"], outc=tr["out"], out=run_fn(torch, U, sc["scores"], sc["best"], sc["lay"]))
        R.validate("ReassignTrace", "ReassignTrace", [tr], [sc], env=JENV)
        return R.finish()

    thorough = tier != "quick"
    # ---- 1. design level
    R.design("ReassignMC", "ReassignMC_quick", workers=8, env=JENV)                       # intended algorithm, 2x3
    R.design("ReassignMC", "ReassignMC_ref32", workers=8, env=JENV)                       # 3 rows (8,2,4) x 2 channels
    if thorough:
        R.design("ReassignMC", "ReassignMC_ref24", workers=8, env=JENV)                   # 2x4: 8! x 5 inputs
        if os.environ.get("VERIF_C20_REF33"):                                             # 3x3: 9! x 10 inputs (4.6M states,
            R.design("ReassignMC", "ReassignMC_ref33", workers=8, timeout=7200, env=JENV)  # > 20 min on a loaded machine)
    dot = tempfile.mktemp(prefix="c20-", suffix=".dot", dir=tlc.scratch())
    res = R.design("ReassignMC", "ReassignMC_asis23", workers=8, dump_dot=dot, coverage=True,
                   require_cov=["ReassignMC!Pick", "ReassignMC!Place"], env=JENV)
    # non-vacuity / F18 at design level: the transcription of the pinned algorithm must violate CountsMet
    bad = R.design("ReassignMC", "ReassignMC_f18", workers=8, expect_ok=False, cont=True, env=JENV)
    n_bad_design = len({json.dumps(v["state"], sort_keys=True, default=str)
                        for v in bad.violations if v["name"] == "InvCountsMet"})
    R.design("ReassignMC", "ReassignMC_layer_thorough" if thorough else "ReassignMC_layer_quick", workers=8,
             timeout=3000, env=JENV)
    R.design("ReassignMC", "ReassignMC_layer0", workers=8, env=JENV)                      # with a 0-bit row
    R.design("ReassignMC", "ReassignMC_layer_moves", workers=8, expect_ok=False, env=JENV)   # the search does change counts
    R.design("ReassignMC", "ReassignMC_layer_extra", workers=8, expect_ok=False, env=JENV)   # one move too many is caught

    # ---- 2. spec -> code: every final state of the as-is run on the real function
    nodes, _, _ = tlc.parse_dot(dot)
    if len(nodes) != res.distinct:
        raise tlc.MachineryError(f"dump has {len(nodes)} states, TLC reported {res.distinct}")
    traces, scen = [], []
    design_bad = 0
    for st in nodes.values():
        if not st["best"]:
            continue
        cells = st["cells"]
        P, C = 2, 3
        scores = [[cells.index(p * C + c + 1) for c in range(C)] for p in range(P)]
        best = list(st["best"])
        out = run_fn(torch, U, scores, best)
        # cross-check design level <-> implementation: the assignment TLC computed for this state
        pred = [[1 if st["res"][c] == p + 1 else 0 for c in range(C)] for p in range(P)]
        if [sum(r) for r in pred] != best:
            design_bad += 1
        cur = [max(range(P), key=lambda p: scores[p][c]) for c in range(C)]
        traces.append({"k": "fn", "scores": scores, "best": best, "out": out})
        scen.append({"kind": "fn", "src": "state", "scores": scores, "best": best,
                     "nontrivial": [cur.count(p) for p in range(P)] != best, "pred_eq": pred == out})
        lay = LAYOUTS[len(traces) % len(LAYOUTS)]
        traces.append({"k": "fn", "scores": scores, "best": best, "lay": lay, "outc": out,
                       "out": run_fn(torch, U, scores, best, lay)})
        scen.append({"kind": "fn", "src": "state-layout", "lay": lay, "scores": scores, "best": best,
                     "nontrivial": [cur.count(p) for p in range(P)] != best})
    if len(traces) != 2 * 2880:
        raise tlc.MachineryError(f"expected 2880 final states, got {len(traces) // 2}")
    if design_bad != n_bad_design:
        raise tlc.MachineryError(f"design runs disagree: dump shows {design_bad} inputs with unmet counts, -continue run {n_bad_design}")
    R.extra["asis_design_inputs_violating_counts_2x3"] = design_bad
    R.extra["real_output_equals_tlc_asis_result_2x3"] = sum(1 for s in scen if s.get("pred_eq"))
    R.sample({"scenario": {k: scen[0][k] for k in ("scores", "best")}, "observed": traces[0]["out"]})

    # ---- 3. code -> spec: random matrices beyond the exhaustive bound
    rng = random.Random(seed)
    n_rand = 40000 if thorough else 2500
    shapes = [(2, 4), (2, 5), (3, 3), (3, 4), (3, 5), (3, 8), (4, 4), (4, 6), (4, 8), (2, 8)]
    for _ in range(n_rand):
        P, C = rng.choice(shapes)
        perm = list(range(P * C))
        rng.shuffle(perm)
        scores = [perm[p * C:(p + 1) * C] for p in range(P)]
        cuts = sorted(rng.randint(0, C) for _ in range(P - 1))
        best = [b - a for a, b in zip([0] + cuts, cuts + [C])]
        cur = [max(range(P), key=lambda p: scores[p][c]) for c in range(C)]
        outc = run_fn(torch, U, scores, best)
        traces.append({"k": "fn", "scores": scores, "best": best, "out": outc})
        scen.append({"kind": "fn", "src": "random", "scores": scores, "best": best,
                     "nontrivial": [cur.count(p) for p in range(P)] != best})
        lay = rng.choice(LAYOUTS)
        traces.append({"k": "fn", "scores": scores, "best": best, "lay": lay, "outc": outc,
                       "out": run_fn(torch, U, scores, best, lay)})
        scen.append({"kind": "fn", "src": "random-layout", "lay": lay, "scores": scores, "best": best,
                     "nontrivial": [cur.count(p) for p in range(P)] != best})
    if thorough:
        # all 8! x 5 inputs of size 2x4
        P, C = 2, 4
        for perm in itertools.permutations(range(8)):
            scores = [list(perm[:4]), list(perm[4:])]
            cur = [0 if scores[0][c] > scores[1][c] else 1 for c in range(C)]
            for best in compositions(C, P):
                best = list(best)
                traces.append({"k": "fn", "scores": scores, "best": best, "out": run_fn(torch, U, scores, best)})
                scen.append({"kind": "fn", "src": "all2x4", "scores": scores, "best": best,
                             "nontrivial": [cur.count(p) for p in range(P)] != best})
    verdicts = R.validate("ReassignTrace", "ReassignTrace", traces, scen, nontrivial=lambda s: s["nontrivial"],
                          key=lambda s: [s["scores"], s["best"], s.get("lay", "contig")], label="reassign step", workers=8, env=JENV)
    n_known_states = sum(1 for s, v in zip(scen, verdicts) if s["src"] == "state" and v.startswith("known:F18"))
    R.extra["real_inputs_violating_counts_2x3"] = n_known_states
    viol_states = sum(1 for s, v in zip(scen, verdicts) if s["src"] == "state" and v != "ok")
    if not R.violations and viol_states != design_bad:
        R.notes.append("design/as-is count and observed count differ")
        R.drift.append(f"drift:C20 as-is transcription violates counts on {design_bad} of 2880 inputs, the real function on {viol_states}")

    # ---- 3b. sampling life cycle before the refinement (history independence)
    ldot = tempfile.mktemp(prefix="c20l-", suffix=".dot", dir=tlc.scratch())
    lres = R.design("ReassignLife", "ReassignLife_thorough" if thorough else "ReassignLife_quick", workers=4,
                    dump_dot=ldot, coverage=True, require_cov=["ReassignLife!Do"], env=JENV)
    R.design("ReassignLife", "ReassignLife_closure", workers=4, env=JENV)            # histories of any length
    R.design("ReassignLife", "ReassignLife_hardOnly", workers=4, expect_ok=False, env=JENV)   # must be caught
    R.design("ReassignLife", "ReassignLife_evalMode", workers=4, expect_ok=False, env=JENV)   # must be caught
    R.design("ReassignLife", "ReassignLife_needed", workers=4, expect_ok=False, env=JENV)     # preparation is needed
    lnodes, _, _ = tlc.parse_dot(ldot)
    if len(lnodes) != lres.distinct:
        raise tlc.MachineryError(f"dump has {len(lnodes)} states, TLC reported {lres.distinct}")
    bench = LifeBench(torch, U)
    ltr, lsc = [], []
    for stt in lnodes.values():
        h = list(stt["hist"])
        ltr.append(bench.run(h))
        lsc.append({"kind": "mlife", "hist": h})
    for lay in LAYOUTS:                              # same values, other memory layout of alpha: same outcome
        for h in ([], ["write"], ["fwd", "write"], ["eval"]):
            ltr.append(bench.run(h, layout=lay))
            lsc.append({"kind": "mlife", "hist": h, "lay": lay})
    # non-vacuity: on the clean model the refinement really chooses other counts than the current ones
    fresh_changed = {w: any([round(b / 1e6) for b in l["bestu"]] != [l["before"].count(p + 1) for p in range(len(l["bits"]))]
                            for l in bench.fresh(w)["layers"]) for w in ("A", "B")}
    if not all(fresh_changed.values()):
        raise tlc.MachineryError("life bench: the refinement of the fresh clean model is trivial")
    R.extra["life_histories_replayed"] = len(ltr)
    R.extra["alpha_layout_runs"] = sum(1 for s_ in lsc if s_.get("lay"))
    R.sample({"scenario": lsc[-1], "observed": {"pre": ltr[-1]["pre"],
                                                "chosen": [l["bestu"] for l in ltr[-1].get("obs", {"layers": []})["layers"]]}})
    R.validate("ReassignTrace", "ReassignTrace", ltr, lsc, nontrivial=lambda s_: len(s_["hist"]) > 0 or bool(s_.get("lay")),
               label="sampling life cycle", workers=8, env=JENV)

    # ---- 3c. several refinable layers with independent geometry (equal widths included)
    mdot = tempfile.mktemp(prefix="c20m-", suffix=".dot", dir=tlc.scratch())
    mres = R.design("ReassignMulti", "ReassignMulti_thorough" if thorough else "ReassignMulti_quick", workers=8,
                    dump_dot=mdot, coverage=True, require_cov=["ReassignMulti!AddLayer"], env=JENV)
    R.design("ReassignMulti", "ReassignMulti_shared", workers=4, expect_ok=False, env=JENV)    # shared cost table: caught
    R.design("ReassignMulti", "ReassignMulti_collide", workers=4, expect_ok=False, env=JENV)   # equal widths do collide
    mnodes, _, _ = tlc.parse_dot(mdot)
    if len(mnodes) != mres.distinct:
        raise tlc.MachineryError(f"dump has {len(mnodes)} states, TLC reported {mres.distinct}")
    chains = [stt["ml"] for stt in mnodes.values() if len(stt["ml"]) >= 1]
    chains.sort(key=lambda ml_: json.dumps(ml_, sort_keys=True))
    if thorough:
        small = [c_ for c_ in chains if len(c_) <= 2]
        big = [c_ for c_ in chains if len(c_) > 2]
        random.Random(seed + 7).shuffle(big)
        chains = small + big[:600]
    mb = MultiBench(torch, U)
    mtr2, msc2, mskip = [], [], 0
    for ml_ in chains:
        tr = mb.run(ml_)
        if tr.get("k") == "raised":
            tr = {"k": "raised", "msg": tr["msg"]}
        elif "skip" in tr:
            mskip += 1
            continue
        mtr2.append(tr)
        msc2.append({"kind": "multi", "ml": ml_,
                     "equal_width": len({L_["c"] for L_ in ml_}) < len(ml_)})
    R.extra["multi_layer_chains_replayed"] = len(mtr2)
    R.extra["multi_layer_chains_skipped"] = mskip
    R.extra["multi_layer_chains_with_equal_widths"] = sum(1 for s_ in msc2 if s_["equal_width"])
    if mtr2 and "obs" in mtr2[-1]:
        R.sample({"scenario": msc2[-1], "observed": {"ann": mtr2[-1]["obs"].get("ann"), "cb": mtr2[-1]["obs"]["cb"],
                                                     "ca": mtr2[-1]["obs"]["ca"], "ownb": mtr2[-1]["ownb"], "owna": mtr2[-1]["owna"]}})
    R.validate("ReassignTrace", "ReassignTrace", mtr2, msc2, nontrivial=lambda s_: len(s_["ml"]) >= 2,
               label="several refinable layers", workers=8, env=JENV)

    # ---- 3d. precision tuples containing 0 with channels actually pruned (clean widths / alphas)
    ztr, zsc = [], []
    for case in ZERO_CASES:
        tr = run_zero_case(torch, U, case)
        if tr.get("k") == "raised":
            tr = {"k": "raised", "msg": tr["msg"]}
        elif "skip" in tr:
            continue
        ztr.append(tr)
        zsc.append({"kind": "zero", "case": [list(case[0]), list(case[1]), [list(c_) for c_ in case[2]]]})
    R.extra["zero_bit_pruned_models"] = len(ztr)
    R.validate("ReassignTrace", "ReassignTrace", ztr, zsc, label="0-bit rows with pruned channels", workers=4, env=JENV)

    # ---- 4. whole models
    n_models = 260 if thorough else 36
    mtr, msc, skipped = [], [], {}
    for i in range(n_models):
        sc = random_model_scenario(rng, thorough and i % 3 == 0)
        tr = run_model(torch, U, sc)
        if tr.get("k") == "raised":
            sc["changed"] = True
            mtr.append({"k": "raised", "msg": tr["msg"]})
            msc.append(sc)
            continue
        if "skip" in tr:
            skipped[tr["skip"]] = skipped.get(tr["skip"], 0) + 1
            continue
        sc["changed"] = any(l["before"] != l["after"] for l in tr["layers"])
        mtr.append(tr)
        msc.append(sc)
    R.extra["models_skipped"] = skipped
    R.extra["models_run"] = len(mtr)
    if mtr and mtr[0].get("k") == "model":
        R.sample({"scenario": msc[0], "observed": {"cb": mtr[0]["cb"], "ca": mtr[0]["ca"],
                                                   "layers": [{k: l[k] for k in ("name", "bits", "before", "after", "bestu")}
                                                              for l in mtr[0]["layers"]]}})
    R.validate("ReassignTrace", "ReassignTrace", mtr, msc, nontrivial=lambda s: s["changed"],
               key=lambda s: {k: s[k] for k in s if k != "changed"}, label="whole models", workers=8, env=JENV)
    R.exhaustive = False
    return R.finish()
