"""C19 - regularisers are non-negative penalties that vanish when the constraints hold.

design       : DuccioMC (TLC, exhaustive): n_epochs 1..50, every epoch, 1..3 metrics below / at / above target,
               strengths given or derived from the task loss (lazy initialisation = action Seal); the ramp and
               penalty clauses of the property are invariants. DuccioMC_f17 (metric exactly at target with derived
               strengths) is expected to FAIL: the as-implemented initialisation yields inf * 0 = NaN (finding F17).
spec -> code : the grid of the design run (every n <= 50, every epoch) is executed on the real DUCCIO through a stub
               model whose single cost exceeds its target by exactly 1, so the returned value IS the effective strength.
code -> spec : histories of calls on stub models (1..3 metrics, costs moving around their targets, given and derived
               strengths, gradients w.r.t. the costs) and on real PIT / MPS models, plus BaseRegularizer, are validated
               by TLC (DuccioTrace) which recomputes every expected value with the operators of Duccio.tla.
life cycle   : DuccioLife (TLC): every sequence of up to 3 calls of ONE object over an alphabet of (epoch, n_epochs |
               arguments omitted) x costs reported by the model; invariant = each call returns what a fresh regulariser
               with the same final strengths returns (history independence apart from the documented lazy
               initialisation). Two deliberately wrong implementations (cache keyed by epoch; value cached per
               (epoch, n_epochs)) must violate it. Every maximal sequence is replayed on a real DUCCIO next to fresh real
               objects and validated by TLC; longer random sequences and real models likewise.
Strengths are of the form 100*n*m*2^-10 so that float32 evaluates the schedule without rounding (values are compared
exactly, as integers); generic float32 strengths are covered by order facts on IEEE bit patterns plus two
tolerance bits (relative 2^-20) computed with exact rationals.
"""
from __future__ import annotations

import json
import math
import random
import struct
import tempfile
from fractions import Fraction

from ..core import Run, use_repo
from .. import tlc

U = Fraction(1, 1024)          # strength unit
VU = 64                        # value units per strength unit


def _env():
    use_repo()
    import torch
    from plinio.regularizers import DUCCIO, BaseRegularizer
    return torch, DUCCIO, BaseRegularizer


class Stub:
    """Anything with get_cost(name) -> scalar tensor."""

    def __init__(self, torch, costs, grad=False):
        self.c = {k: torch.tensor(float(v), requires_grad=grad) for k, v in costs.items()}

    def get_cost(self, name):
        return self.c[name]


def _cls(x: float) -> str:
    if math.isnan(x):
        return "nan"
    if math.isinf(x):
        return "inf"
    return "neg" if x < 0 else "fin"


def _units(x: float):
    """float -> (integer number of u/64, not-exact flag)"""
    fr = Fraction(x) / (U / VU)
    if abs(fr) >= 2 ** 31:
        raise tlc.MachineryError(f"value {x} does not fit a TLC integer")
    return (int(fr), False) if fr.denominator == 1 else (round(fr), True)


def _bits(x: float) -> int:
    return struct.unpack("<i", struct.pack("<f", x))[0]


def _f(torch, fr: Fraction):
    x = float(fr)
    if Fraction(x) != fr or float(torch.tensor(x, dtype=torch.float32)) != x:
        raise tlc.MachineryError("strength not exactly representable in float32")
    return torch.tensor(x, dtype=torch.float32)


# ------------------------------------------------------------------------------------- executions
def run_ramp(torch, DUCCIO, n, mult):
    reg = DUCCIO({"a": torch.tensor(10.0)}, final_strengths=(_f(torch, 100 * n * mult * U),))
    vals = []
    for e in range(n + 1):
        v = float(reg(Stub(torch, {"a": 11}), e, n))
        u, frac = _units(v)
        if _cls(v) != "fin":
            u = -1
        vals.append(u)
    return {"k": "ramp", "n": n, "mult": mult, "v": vals}


def run_rampg(torch, DUCCIO, n, s):
    st = torch.tensor(s, dtype=torch.float32)
    sf = float(st)
    reg = DUCCIO({"a": torch.tensor(10.0)}, final_strengths=(st,))
    bits, near = [], []
    tol = Fraction(1, 2 ** 20)
    for e in range(n + 1):
        v = float(reg(Stub(torch, {"a": 11}), e, n))
        if _cls(v) != "fin":
            bits.append(-1)
            near.append(False)
            continue
        bits.append(_bits(v))
        near.append(Fraction(v) >= Fraction(sf) * (1 - tol))
    v0 = float(reg(Stub(torch, {"a": 11}), 0, n))
    start = _cls(v0) == "fin" and abs(Fraction(v0) * 100 - Fraction(sf)) <= Fraction(sf) * tol
    return {"k": "rampg", "n": n, "sbits": _bits(sf), "bits": bits, "near": near, "start": bool(start)}


def run_hist(torch, DUCCIO, sc, model_factory=None):
    """sc: {mode, n, t, mults|lossM, calls: [{e, c}]}; stub model unless model_factory is given."""
    names = ["q", "b", "k"][:len(sc["t"])]                 # insertion order is not the alphabetical one
    targets = {nm: torch.tensor(float(t)) for nm, t in zip(names, sc["t"])}
    n = sc["n"]
    if sc["mode"] == "given":
        reg = DUCCIO(targets, final_strengths=tuple(_f(torch, 100 * n * m * U) for m in sc["mults"]))
    else:
        reg = DUCCIO(targets, task_loss=_f(torch, 100 * n * sc["lossM"] * U))
    calls = []
    for cl in sc["calls"]:
        mdl = Stub(torch, dict(zip(names, cl["c"])), grad=True)
        val = reg(mdl, cl["e"], n)
        x = float(val)
        rec = {"e": cl["e"], "c": cl["c"], "cls": _cls(x), "v": 0, "frac": False}
        if rec["cls"] == "fin":
            rec["v"], rec["frac"] = _units(x)
            g = []
            if val.requires_grad:
                try:
                    val.backward()
                except RuntimeError:
                    rec["gerr"] = True          # the returned value cannot be differentiated
            for nm in names:
                gr = mdl.c[nm].grad
                gx = 0.0 if gr is None else float(gr)
                if _cls(gx) in ("nan", "inf"):
                    g.append(-(2 ** 30))
                else:
                    gu, gf = _units(gx)
                    rec["frac"] = rec["frac"] or gf
                    g.append(gu)
            rec["g"] = g
        calls.append(rec)
    tr = {"k": "hist", "mode": sc["mode"], "n": n, "t": sc["t"], "calls": calls}
    if sc["mode"] == "given":
        tr["mults"] = sc["mults"]
    else:
        tr["lossM"] = sc["lossM"]
    return tr


def _val_rec(val):
    x = float(val)
    cls = _cls(x)
    if cls != "fin":
        return cls, 0, False
    v, frac = _units(x)
    return cls, v, frac


def run_life(torch, DUCCIO, sc, model=None):
    """One DUCCIO object called with (epoch, n_epochs) changing per call (sc['calls'] = [{e, n, d, c}]); next to every
    call a FRESH real regulariser with the same final strengths is asked for the same (costs, epoch, n_epochs)."""
    # stub models: insertion order of the metric names is not the alphabetical one; real models: their own names
    names = ["q", "b"][:len(sc["t"])] if model is None else [f"m{i}" for i in range(len(sc["t"]))]

    def targets():
        return {nm: torch.tensor(float(t)) for nm, t in zip(names, sc["t"])}
    if sc["mode"] == "given":
        given = [_f(torch, s * U) for s in sc["sU"]]
        reg = DUCCIO(targets(), final_strengths=tuple(g.clone() for g in given))
    else:
        given = None
        reg = DUCCIO(targets(), task_loss=_f(torch, sc["lossU"] * U))
    fixed = given
    calls = []
    for cl in sc["calls"]:
        mdl = model if model is not None else Stub(torch, dict(zip(names, cl["c"])))
        val = reg(mdl) if cl["d"] else reg(mdl, cl["e"], cl["n"])
        if fixed is None:
            # derived strengths: the ones fixed by the lazy initialisation at the first call
            fs = getattr(reg, "final_strengths", None)
            if fs is None:
                raise tlc.MachineryError("DUCCIO.final_strengths not available after the first call")
            fixed = [torch.as_tensor(x).detach().clone() for x in fs]
        fresh = DUCCIO(targets(), final_strengths=tuple(x.clone() for x in fixed))
        fmdl = model if model is not None else Stub(torch, dict(zip(names, cl["c"])))
        fval = fresh(fmdl, cl["e"], cl["n"])
        cls, v, frac = _val_rec(val)
        fcls, fv, ffrac = _val_rec(fval)
        calls.append({"e": cl["e"], "n": cl["n"], "d": bool(cl["d"]), "c": list(cl["c"]),
                      "cls": cls, "v": v, "frac": frac, "fcls": fcls, "fv": fv, "ffrac": ffrac})
    tr = {"k": "life", "mode": sc["mode"], "t": sc["t"], "calls": calls}
    if sc["mode"] == "given":
        tr["sU"] = sc["sU"]
    else:
        tr["lossU"] = sc["lossU"]
    return tr


DIV19800 = [1, 2, 4, 5, 8, 10, 20, 25, 40, 50]     # n_epochs for which the ramp of a 10^4*m strength is exact


def random_life(rng):
    k = rng.randint(1, 2)
    t = [10, 20][:k]
    mode = rng.choice(["given", "derived"])
    sc = {"kind": "life", "mode": mode, "t": t}
    if mode == "given":
        sc["sU"] = [10000 * rng.randint(1, 2) for _ in range(k)]
    else:
        sc["lossU"] = 40000
    calls = []
    for j in range(rng.randint(4, 8)):
        if calls and rng.random() < 0.35:
            e = calls[-1]["e"]                               # repeated epoch, other schedule length
            n = rng.choice([x for x in DIV19800 if x >= 1])
        else:
            n = rng.choice(DIV19800)
            e = rng.randint(0, n)
        d = rng.random() < 0.15
        if d:
            e, n = 1, 1
        if j == 0 and mode == "derived":
            c = [ti + rng.choice([1, 2, 4, 4, 0, -2]) for ti in t]
        else:
            c = [ti + rng.choice([-3, 0, 1, 2, 4, 8]) for ti in t]
        calls.append({"e": e, "n": n, "d": d, "c": c})
    sc["calls"] = calls
    sc["nontrivial"] = True
    return sc


def base_forms(torch):
    """(form label, constructor kwargs, sM, sE): strength = sM * 10^sE; default = the documented 1e-3."""
    return [
        ("python int 0", {"strength": 0}, 0, -9),
        ("python float 0.0", {"strength": 0.0}, 0, -9),
        ("tensor(0.)", {"strength": torch.tensor(0.)}, 0, -9),
        ("omitted (documented default 1e-3)", {}, 1, -3),
        ("python float 1e-9", {"strength": 1e-9}, 1, -9),
        ("python int 1", {"strength": 1}, 1, 0),
        ("python float 2.5", {"strength": 2.5}, 25, -1),
        ("python float 1e3", {"strength": 1e3}, 1, 3),
        ("python float 250.0", {"strength": 250.0}, 250, 0),
        ("tensor(0.5)", {"strength": torch.tensor(0.5)}, 5, -1),
        ("float64 tensor(3e-3)", {"strength": torch.tensor(3e-3, dtype=torch.float64)}, 3, -3),
        ("python float 1e-3 (explicit)", {"strength": 1e-3}, 1, -3),
    ]


def run_baseq(BaseRegularizer, form, kwargs, sM, sE, model, name, c, default_name=False):
    reg = BaseRegularizer(**kwargs) if default_name else BaseRegularizer(name, **kwargs)
    x = float(reg(model))
    big, vq = False, 0
    if _cls(x) in ("nan", "inf"):
        big = True
    else:
        q = Fraction(x) / (Fraction(10) ** (sE - 2))
        vq = round(q)
        if abs(vq) >= 2_000_000_000:
            big, vq = True, 0
    return {"k": "baseq", "form": form, "sM": sM, "sE": str(sE), "c": c, "vq": vq, "big": big}


# ------------------------------------------------------------------------------------- attribute life cycle
ATTR_COST = {"A": [7, 20], "B": [12, 5]}
ATTR_T = {1: [10, 20], 2: [6, 30]}
ATTR_F = {1: [10000, 20000], 2: [20000, 10000]}
NAMES = ["m0", "m1"]


def _su(torch, x):
    """public strength attribute -> integer units of u (None if not an integer number of units)"""
    fr = Fraction(float(x)) / U
    return int(fr) if fr.denominator == 1 and abs(fr) < 2 ** 30 else None


def run_attr(torch, DUCCIO, BaseRegularizer, variant, hist, model=None, poke=None):
    """Replay a RegLife behaviour on the real class. hist: [{op, k, v}]; every 'apply' is logged, and a final
    application (DUCCIO: with both schedules) is appended.  model/poke: a real model and a function changing its cost
    (then 'cost' actions call poke and the costs are read from the model)."""
    base = variant != "duccio"
    cost = list(ATTR_COST["A"])
    ctor_tensor = None
    if variant == "float":
        reg = BaseRegularizer("m0", float(3 * U))
    elif variant == "tensor":
        ctor_tensor = _f(torch, 5 * U)
        reg = BaseRegularizer("m0", ctor_tensor)
    else:
        reg = DUCCIO({n: torch.tensor(float(t)) for n, t in zip(NAMES, ATTR_T[1])},
                     final_strengths=tuple(_f(torch, f * U) for f in ATTR_F[1]))
    ev = []

    def mk_model():
        if model is not None:
            return model
        return Stub(torch, dict(zip(NAMES, cost)), grad=True)

    def cur_cost(mdl):
        if model is None:
            return list(cost)
        out = []
        for n in NAMES:
            c = float(mdl.get_cost(n))
            if c != int(c) or c >= 2 ** 20:
                raise tlc.MachineryError("attribute life cycle on a real model needs integer costs")
            out.append(int(c))
        return out

    def apply(i, sch):
        mdl = mk_model()
        e, n = (1, 4) if sch == "e1n4" else (1, 1)
        if base:
            val = reg(mdl)
            pub_s = _su(torch, reg.strength)
            pub = {"name": str(reg.cost_name), "s": pub_s if pub_s is not None else -1,
                   "isT": bool(torch.is_tensor(reg.strength))}
            st = reg.strength.detach().clone() if torch.is_tensor(reg.strength) else reg.strength
            fresh = BaseRegularizer(reg.cost_name, st)
            fval = fresh(mk_model())
        else:
            val = reg(mdl) if sch == "dflt" else reg(mdl, e, n)
            tt = [float(reg.targets[nm]) for nm in NAMES]
            ff = [_su(torch, x) for x in reg.final_strengths]
            pub = {"t": [int(x) if x == int(x) else -1 for x in tt], "f": [x if x is not None else -1 for x in ff]}
            fresh = DUCCIO({nm: torch.as_tensor(reg.targets[nm]).detach().clone() for nm in NAMES},
                           final_strengths=tuple(torch.as_tensor(x).detach().clone() for x in reg.final_strengths))
            fval = fresh(mk_model(), e, n)
        cls, v, frac = _val_rec(val)
        fcls, fv, _ = _val_rec(fval)
        g, gerr = [0, 0], False
        if cls == "fin" and model is None:
            try:
                if val.requires_grad:
                    val.backward()
                for k, nm in enumerate(NAMES):
                    gr = mdl.c[nm].grad
                    gx = 0.0 if gr is None else float(gr)
                    if _cls(gx) in ("nan", "inf"):
                        gerr = True
                    else:
                        gu, gf = _units(gx)
                        frac = frac or gf
                        g[k] = gu
            except RuntimeError:
                gerr = True
        rec = {"i": i, "sch": sch, "pub": pub, "cost": cur_cost(mdl), "cls": cls, "v": v, "frac": frac,
               "fcls": fcls, "fv": fv, "gerr": gerr}
        if model is None:
            rec["g"] = g            # real models: d value / d cost is not observable directly, value clauses only
        ev.append(rec)

    for i, a in enumerate(hist):
        op, k, v = a["op"], a["k"], a["v"]
        if op == "setS":
            reg.strength = {"float": float(v * U), "int": int(v // 1024), "zero": 0.0}.get(k) if k != "tensor" else _f(torch, v * U)
        elif op == "inplace":
            tgt = reg.strength if k == "fill" else ctor_tensor
            if not torch.is_tensor(tgt) or (k == "ext" and reg.strength is not ctor_tensor):
                raise tlc.MachineryError("in-place strength update is not enabled in this state")
            tgt.fill_(float(v * U))
        elif op == "name":
            reg.cost_name = k
        elif op == "setT":
            reg.targets = {n: torch.tensor(float(t)) for n, t in zip(NAMES, ATTR_T[v])}
        elif op == "mutT":
            reg.targets[k] = torch.tensor(float(v))
        elif op == "fillT":
            reg.targets[k].fill_(float(v))
        elif op == "setF":
            if k == "new":
                reg.final_strengths = tuple(_f(torch, f * U) for f in ATTR_F[v])
            else:
                j = NAMES.index(k)
                reg.final_strengths = tuple(_f(torch, v * U) if q == j else x for q, x in enumerate(reg.final_strengths))
        elif op == "fillF":
            reg.final_strengths[NAMES.index(k)].fill_(float(v * U))
        elif op == "cost":
            if model is None:
                cost[:] = ATTR_COST[k]
            else:
                poke(k)
        elif op == "apply":
            apply(i, k)
        else:
            raise tlc.MachineryError(f"unknown attribute action {a}")
    apply(len(hist), "dflt")
    if not base:
        apply(len(hist), "e1n4")
    tr = {"k": "attr", "variant": variant, "hist": [dict(a) for a in hist], "ev": ev}
    if model is not None:
        tr["real"] = True
    return tr


# ------------------------------------------------------------------------------------- pairing strengths / targets
PAIR_NAMES = {2: ["ops", "params"], 3: ["mem", "ops", "params"]}      # alphabetical; rank r -> PAIR_NAMES[k][r-1]


INF_T = 1000000


def run_pair(torch, DUCCIO, sc, model=None, alpha_names=None):
    """sc: {rank, s, t, c, e, n} in CALLER order. The targets dict is built in that insertion order with real metric
    names whose alphabetical ranks are sc['rank']; final_strengths is the positional tuple."""
    k = len(sc["rank"])
    names = [(alpha_names or PAIR_NAMES[k])[r - 1] for r in sc["rank"]]
    if sorted(range(k), key=lambda i: names[i]) != sorted(range(k), key=lambda i: sc["rank"][i]):
        raise tlc.MachineryError("pair: names do not realise the requested alphabetical ranks")
    targets = {}
    for nm, t in zip(names, sc["t"]):
        targets[nm] = torch.tensor(float("inf") if t == INF_T else float(t))     # Duccio!INF = an infinite target
    reg = DUCCIO(targets, final_strengths=tuple(_f(torch, s_ * U) for s_ in sc["s"]))
    mdl = model if model is not None else Stub(torch, dict(zip(names, sc["c"])))
    val = reg(mdl) if (sc["e"], sc["n"]) == (1, 1) and sc.get("d") else reg(mdl, sc["e"], sc["n"])
    cls, v, frac = _val_rec(val)
    return {"k": "pair", "names": names, "rank": list(sc["rank"]), "s": list(sc["s"]), "t": list(sc["t"]),
            "c": list(sc["c"]), "e": sc["e"], "n": sc["n"], "cls": cls, "v": v, "frac": frac}


def random_hist(rng, allow_f17=True):
    n = rng.randint(1, 50)
    k = rng.randint(1, 3)
    t = [rng.randint(5, 40) for _ in range(k)]
    mode = rng.choice(["given", "derived"])
    sc = {"kind": "hist", "mode": mode, "n": n, "t": t}
    calls = []
    if mode == "given":
        sc["mults"] = [rng.randint(1, 2) for _ in range(k)]
    else:
        sc["lossM"] = 4
        first = []
        for i in range(k):
            r = rng.random()
            if r < 0.75:
                first.append(t[i] + rng.choice([1, 2, 4]))
            elif r < 0.85 and allow_f17:
                first.append(t[i])                       # exactly at target at the first call (F17 scenario)
            else:
                first.append(t[i] - rng.randint(1, 3))   # below: derived strength 0
        calls.append({"e": rng.randint(0, n), "c": first})
    for _ in range(rng.randint(2, 3)):
        e = rng.randint(0, n)
        base = [ti + rng.choice([-3, -1, 0, 0, 1, 2, 5]) for ti in t]
        calls.append({"e": e, "c": list(base)})
        for i in range(k):                                # bump every metric: "grows with each excess"
            b = list(base)
            b[i] += rng.choice([1, 3])
            calls.append({"e": e, "c": b})
        calls.append({"e": rng.randint(0, n), "c": list(base)})      # same costs, other epoch
    sc["calls"] = calls
    sc["f17"] = mode == "derived" and any(c == ti for c, ti in zip(calls[0]["c"], t))
    sc["nontrivial"] = any(cl["e"] > 0 or any(c > ti for c, ti in zip(cl["c"], t)) for cl in calls)
    return sc


# ------------------------------------------------------------------------------------- real models
def real_models(torch):
    """Small real DNAS models with integer-valued costs."""
    import torch.nn as nn
    from plinio.methods import PIT
    from plinio.methods.mps import MPS, MPSType, get_default_qinfo
    from plinio.cost import params, ops, params_bit

    class Net(nn.Module):
        def __init__(self, c1, c2):
            super().__init__()
            self.c1 = nn.Conv2d(3, c1, 3, padding=1)
            self.r = nn.ReLU()
            self.c2 = nn.Conv2d(c1, c2, 3, padding=1)
            self.p = nn.AdaptiveAvgPool2d(1)
            self.fc = nn.Linear(c2, 4)

        def forward(self, x):
            return self.fc(self.p(self.r(self.c2(self.r(self.c1(x))))).flatten(1))

    out = []
    torch.manual_seed(0)
    out.append(("PIT", PIT(Net(4, 6), input_shape=(3, 8, 8), cost={"m0": params, "m1": ops}), ["m0", "m1"]))
    out.append(("PIT-discrete", PIT(Net(5, 3), input_shape=(3, 6, 6), cost={"m0": params, "m1": ops},
                                    discrete_cost=True), ["m0", "m1"]))
    out.append(("MPS", MPS(Net(4, 4), input_shape=(3, 8, 8), cost={"m0": params_bit},
                           w_search_type=MPSType.PER_LAYER, hard_softmax=True,
                           qinfo=get_default_qinfo(w_precision=(2, 4, 8), a_precision=(8,))), ["m0"]))
    for _, m, _ in out:
        with torch.no_grad():
            m(m._input_example)          # refresh the sampled coefficients (hard selection => integer costs)
    return out


def _mask_poker(torch, model):
    """A function moving one channel mask of a real PIT model ("B": one channel pruned, "A": restored), or None."""
    if not hasattr(model, "named_nas_parameters"):
        return None
    cand = [p for n, p in model.named_nas_parameters() if n.endswith("alpha") and p.dim() == 1 and p.numel() >= 3]
    if not cand:
        return None
    p = cand[0]
    orig = p.detach().clone()

    def poke(k):
        with torch.no_grad():
            p.copy_(orig)
            if k == "B":
                p[0] = 0.0
    c0 = float(model.get_cost("m0"))
    poke("B")
    c1 = float(model.get_cost("m0"))
    poke("A")
    return poke if c1 != c0 and c1 == int(c1) else None


def run_real(torch, DUCCIO, BaseRegularizer, rng, n_hist):
    """Histories on real models: the costs are what the model reports (must be integers), the targets move."""
    traces, scen, skipped = [], [], 0
    for tag, model, names in real_models(torch):
        costs = []
        for nm in names:
            c = float(model.get_cost(nm))
            if c != int(c) or c >= 2 ** 22:
                costs = None
                break
            costs.append(int(c))
        if costs is None:
            skipped += 1
            continue
        # BaseRegularizer
        for sU in (1, 3, 8):
            reg = BaseRegularizer(names[0], float(sU * U))
            v, frac = _units(float(reg(model)))
            traces.append({"k": "base", "sU": sU, "c": costs[0], "v": v, "frac": frac})
            scen.append({"kind": "base", "model": tag, "sU": sU, "nontrivial": True})
        for form, kw, sM, sE in base_forms(torch):
            if costs[0] <= 40000:
                traces.append(run_baseq(BaseRegularizer, form, kw, sM, sE, model, names[0], costs[0]))
                scen.append({"kind": "baseq", "model": tag, "form": form, "c": costs[0], "nontrivial": True})
        # pairing on the real model: targets dict built in both insertion orders, one metric above target
        if len(names) == 2:
            for rank_ in ([1, 2], [2, 1]):
                cc = [costs[r - 1] for r in rank_]                       # caller order
                for above in (0, 1):
                    for e_, n_ in ((1, 1), (0, 4), (2, 4)):
                        sc = {"kind": "pair", "model": tag, "rank": rank_, "s": [20000, 50000],
                              "t": [c - 3 if i == above else c + 5 for i, c in enumerate(cc)], "c": cc,
                              "e": e_, "n": n_, "d": False, "nontrivial": True}
                        traces.append(run_pair(torch, DUCCIO, sc, model=model, alpha_names=sorted(names)))
                        scen.append(sc)
        # BaseRegularizer attribute life cycle while the MASKS of the real model move between applications
        poke = _mask_poker(torch, model)
        if poke is not None and len(names) == 2 and costs[1] < 30000:
            A_ = lambda op, k, v: {"op": op, "k": k, "v": v}
            for variant in ("float", "tensor"):
                h = [A_("apply", "dflt", 0), A_("cost", "B", 0), A_("apply", "dflt", 0), A_("setS", "float", 1024),
                     A_("apply", "dflt", 0), A_("name", "m1", 0), A_("setS", "zero", 0), A_("apply", "dflt", 0),
                     A_("cost", "A", 0), A_("setS", "tensor", 5), A_("inplace", "fill", 7), A_("apply", "dflt", 0),
                     A_("cost", "B", 0)]
                tr = run_attr(torch, DUCCIO, BaseRegularizer, variant, h, model=model, poke=poke)
                poke("A")
                traces.append(tr)
                scen.append({"kind": "attr", "model": tag, "variant": variant, "hist": h, "nontrivial": True,
                             "costs_seen": sorted({tuple(e["cost"]) for e in tr["ev"]})})
        # one object, (epoch, n_epochs) changing per call, next to fresh objects
        for mode in ("given", "derived"):
            k = min(len(names), 2)
            d = [rng.choice([1, 2, 4]) for _ in range(k)]
            sc = {"kind": "life", "model": tag, "mode": mode, "t": [c - x for c, x in zip(costs[:k], d)],
                  "calls": [{"e": e, "n": n, "d": dd, "c": costs[:k]} for e, n, dd in
                            [(1, 20, False), (1, 1, True), (2, 50, False), (2, 4, False), (0, 4, False), (0, 50, False),
                             (4, 4, False), (1, 20, False)]], "nontrivial": True}
            if mode == "given":
                sc["sU"] = [10000 * rng.randint(1, 2) for _ in range(k)]
            else:
                sc["lossU"] = 40000

            class _View:                                    # the model restricted to the first k metrics m0..m(k-1)
                def get_cost(self, nm, _m=model):
                    return _m.get_cost(nm)
            traces.append(run_life(torch, DUCCIO, sc, model=_View()))
            scen.append(sc)
        # DUCCIO: one object per target vector (targets are constructor arguments)
        for _ in range(n_hist):
            n = rng.randint(1, 50)
            mults = [rng.randint(1, 2) for _ in names]
            d = [rng.choice([-2, 0, 1, 3, 6]) for _ in names]          # excess = cost - target
            t = [c - x for c, x in zip(costs, d)]
            targets = {nm: torch.tensor(float(ti)) for nm, ti in zip(names, t)}
            reg = DUCCIO(targets, final_strengths=tuple(_f(torch, 100 * n * m * U) for m in mults))
            calls = []
            for e in sorted({0, rng.randint(0, n), (n + 1) // 2, n}):
                val = reg(model, e, n)
                x = float(val)
                rec = {"e": e, "c": costs, "cls": _cls(x), "v": 0, "frac": False}
                if rec["cls"] == "fin":
                    rec["v"], rec["frac"] = _units(x)
                    if val.requires_grad:
                        try:
                            gs = torch.autograd.grad(val, [p for p in model.parameters() if p.requires_grad],
                                                     allow_unused=True)
                            if any(g is not None and not bool(torch.isfinite(g).all()) for g in gs):
                                rec["cls"] = "nan"
                        except RuntimeError:
                            rec["g"] = [0 for _ in names]
                            rec["gerr"] = True
                calls.append(rec)
            traces.append({"k": "hist", "mode": "given", "n": n, "t": t, "mults": mults, "calls": calls})
            scen.append({"kind": "real", "model": tag, "n": n, "t": t, "mults": mults, "excess": d,
                         "nontrivial": any(x > 0 for x in d)})
    return traces, scen, skipped


# ------------------------------------------------------------------------------------- check
def run(tier: str, seed: int, replay=None) -> int:
    R = Run("C19", tier, seed, level="model_checking")
    R.rule = ("scenario = (n_epochs, strength multiplier) for the ramp grid (all n 1..50 x all epochs 0..n, multipliers 1-2); "
              "(mode given/derived, n, targets, strengths, sequence of (epoch, costs)) for DUCCIO histories on stub models; "
              "(model, targets relative to the model's own cost, strengths, epochs) on real PIT/MPS models; "
              "(strength, model) for BaseRegularizer; generic float32 strengths for the order clauses. "
              "Non-trivial = some call at epoch > 0 or with a cost above its target.")
    R.assumptions = [
        "exact comparisons use strengths 100*n*m*2^-10 and integer costs/targets, for which float32 evaluates DUCCIO without rounding",
        "generic float32 strengths: 'reaches the final strength' and '1% at epoch 0' are decided with relative tolerance 2^-20 (exact rationals in the harness), the order clauses on IEEE bit patterns by TLC",
        "'hist' traces use one n_epochs per object (ascending or arbitrary epochs); 'life' traces vary epoch AND n_epochs per call, with strengths 10^4*m*2^-10 and n_epochs dividing 19800 (exact in float32)",
        "history independence is decided against FRESH real regularisers built with the same final strengths (for derived strengths: DUCCIO.final_strengths read once after the first call)",
        "attribute life cycle: histories of at most 3 (thorough: 4) actions out of 13 per class on stub models (costs A/B), every application compared with the formula over the attributes READ BACK from the object at that moment and with a fresh object built from them; on real PIT models one fixed 13-action history with a channel mask moved between applications (BaseRegularizer only, value clauses only)",
        "pairing: targets dicts of 2-3 real metric names (ops/params/mem) in every insertion order, pairwise distinct strengths (2,3,5 x 10^4 units in every arrangement), one or two metrics above target; equality with sum_i s[i]*excess_i is a property clause at epoch 0 and from half the schedule on, drift in between; 'hist' and 'life' traces use metric names whose insertion order is not alphabetical (q, b, k)",
        "BaseRegularizer with arbitrary decimal strengths: |value - strength*cost| <= 2e-2*10^sE + 1e-6*strength*cost (float32 round-off); default strength = the documented 1e-3",
        "strengths derived from task_loss are positive only for metrics above target at the first call; metrics below target then get strength 0 (outside 'positive final strengths': only finiteness, non-negativity and 'zero when within targets' are checked)",
        "real models: costs must be integer-valued (they are for params/ops/params_bit with hard selection); gradients on real models are only checked for finiteness",
    ]
    torch, DUCCIO, BaseRegularizer = _env()
    torch.set_num_threads(2)
    thorough = tier != "quick"

    if replay:
        sc = json.load(open(replay))["scenario"]
        if sc["kind"] == "ramp":
            tr = run_ramp(torch, DUCCIO, sc["n"], sc["mult"])
        elif sc["kind"] == "rampg":
            tr = run_rampg(torch, DUCCIO, sc["n"], sc["s"])
        elif sc["kind"] == "hist":
            tr = run_hist(torch, DUCCIO, sc)
        elif sc["kind"] == "pair":
            tr = run_pair(torch, DUCCIO, sc)
        elif sc["kind"] == "attr" and "model" not in sc:
            tr = run_attr(torch, DUCCIO, BaseRegularizer, sc["variant"], sc["hist"])
        elif sc["kind"] == "life" and "model" not in sc:
            tr = run_life(torch, DUCCIO, sc)
        else:
            raise tlc.MachineryError("replay of real-model scenarios: rerun the check with the same seed")
        R.validate("DuccioTrace", "DuccioTrace", [tr], [sc])
        return R.finish()

    # ---- 1. design level
    R.design("DuccioMC", "DuccioMC_thorough" if thorough else "DuccioMC_quick", workers=8, coverage=True,
             require_cov=["DuccioMC!AddMetric", "DuccioMC!Seal", "DuccioMC!Tick"], timeout=3000)
    R.design("DuccioMC", "DuccioMC_f17", workers=4, expect_ok=False)      # pinned initialisation (F17) / non-vacuity
    # life cycle of one object: every call sequence up to the bound; the two cached implementations must fail
    dot = tempfile.mktemp(prefix="c19-", suffix=".dot", dir=tlc.scratch())
    lres = R.design("DuccioLife", "DuccioLife_thorough" if thorough else "DuccioLife_quick", workers=8, dump_dot=dot,
                    coverage=True, require_cov=["DuccioLife!Call"], timeout=3000)
    R.design("DuccioLife", "DuccioLife_cacheEpoch", workers=4, expect_ok=False)
    R.design("DuccioLife", "DuccioLife_cacheSched", workers=4, expect_ok=False)

    # attribute life cycle of both classes: every history up to the bound; two wrong implementations must fail
    adot = tempfile.mktemp(prefix="c19a-", suffix=".dot", dir=tlc.scratch())
    ares = R.design("RegLife", "RegLife_thorough" if thorough else "RegLife_quick", workers=8, dump_dot=adot,
                    coverage=True, require_cov=["RegLife!Do"], timeout=3000)
    R.design("RegLife", "RegLife_captured", workers=4, expect_ok=False)
    R.design("RegLife", "RegLife_lastcost", workers=4, expect_ok=False)

    # pairing of positional strengths with named targets: every insertion order; 'sorted' pairing must fail
    pdot = tempfile.mktemp(prefix="c19p-", suffix=".dot", dir=tlc.scratch())
    pres = R.design("DuccioPair", "DuccioPair_quick", workers=4, dump_dot=pdot)
    R.design("DuccioPair", "DuccioPair_sorted", workers=4, expect_ok=False)
    R.design("DuccioPair", "DuccioPair_dropinf", workers=4, expect_ok=False)

    traces, scen = [], []
    # ---- 2p. spec -> code: every pairing scenario on the real DUCCIO (stub model with real metric names)
    pnodes, _, _ = tlc.parse_dot(pdot)
    if len(pnodes) != pres.distinct:
        raise tlc.MachineryError(f"dump has {len(pnodes)} states, TLC reported {pres.distinct}")
    for stt in pnodes.values():
        sc = dict(stt["sc"])
        sc["kind"] = "pair"
        sc["d"] = False
        traces.append(run_pair(torch, DUCCIO, sc))
        sc["nontrivial"] = list(sc["rank"]) != sorted(sc["rank"])
        scen.append(sc)
    for k_, rank_ in ((2, [2, 1]), (3, [3, 1, 2])):           # the default-argument call, README order params / ops
        sc = {"kind": "pair", "rank": rank_, "s": [20000, 30000, 50000][:k_], "t": [10] * k_,
              "c": [13] + [7] * (k_ - 1), "e": 1, "n": 1, "d": True, "nontrivial": True}
        traces.append(run_pair(torch, DUCCIO, sc))
        scen.append(sc)
    R.extra["pairing_scenarios"] = len(pnodes) + 2
    # ---- 2a. spec -> code: every maximal attribute history on the real classes
    anodes, aedges, _ = tlc.parse_dot(adot)
    if len(anodes) != ares.distinct:
        raise tlc.MachineryError(f"dump has {len(anodes)} states, TLC reported {ares.distinct}")
    has_succ = {src for src, _, _ in aedges}
    n_attr = 0
    for nid, stt in anodes.items():
        if nid in has_succ and len(stt["hist"]) < max(1, ares.depth - 1):
            continue                                    # a proper prefix of a longer enumerated history
        h = [{"op": a_["op"], "k": a_["k"], "v": a_["v"]} for a_ in stt["hist"]]
        traces.append(run_attr(torch, DUCCIO, BaseRegularizer, stt["variant"], h))
        scen.append({"kind": "attr", "variant": stt["variant"], "hist": h, "nontrivial": len(h) > 0})
        n_attr += 1
    R.extra["attribute_histories_replayed"] = n_attr
    R.sample({"scenario": scen[-1], "observed": traces[-1]["ev"]})
    # ---- 2. spec -> code: the whole (n, e) grid of the design run
    for n in range(1, 51):
        for mult in (1, 2):
            traces.append(run_ramp(torch, DUCCIO, n, mult))
            scen.append({"kind": "ramp", "n": n, "mult": mult, "nontrivial": True})
    R.sample({"scenario": scen[6], "observed": traces[6]})
    # default arguments (epoch=1, n_epochs=1) must give the final strength
    reg = DUCCIO({"a": torch.tensor(10.0)}, final_strengths=(_f(torch, 100 * U),))
    v0, _ = _units(float(reg(Stub(torch, {"a": 11}), 0, 1)))
    v1, _ = _units(float(reg(Stub(torch, {"a": 11}))))            # epoch and n_epochs left at their defaults
    traces.append({"k": "ramp", "n": 1, "mult": 1, "v": [v0, v1]})
    scen.append({"kind": "ramp-default-args", "n": 1, "mult": 1, "nontrivial": True})

    # ---- 2b. spec -> code: every maximal call sequence of the life-cycle machine on a real object
    nodes, _, _ = tlc.parse_dot(dot)
    if len(nodes) != lres.distinct:
        raise tlc.MachineryError(f"dump has {len(nodes)} states, TLC reported {lres.distinct}")
    depth = max(st["life"]["cnt"] for st in nodes.values())
    n_life = 0
    for st in nodes.values():
        if st["life"]["cnt"] != depth:
            continue                                    # prefixes are contained in the maximal sequences
        sc = {"kind": "life", "src": "state", "mode": st["mode"], "t": [10, 20],
              "calls": [{"e": h["e"], "n": h["n"], "d": h["d"], "c": list(h["c"])} for h in st["hist"]],
              "nontrivial": True}
        if st["mode"] == "given":
            sc["sU"] = [10000, 20000]
        else:
            sc["lossU"] = 40000
        traces.append(run_life(torch, DUCCIO, sc))
        scen.append(sc)
        n_life += 1
    R.extra["life_sequences_replayed"] = n_life
    R.extra["life_sequence_length"] = depth
    R.sample({"scenario": scen[-1], "observed": traces[-1]["calls"]})

    # ---- 3. code -> spec
    rng = random.Random(seed)
    for _ in range(6000 if thorough else 500):          # longer call sequences, larger alphabet
        sc = random_life(rng)
        traces.append(run_life(torch, DUCCIO, sc))
        scen.append(sc)
    for _ in range(8000 if thorough else 500):
        n = rng.randint(1, 50)
        s = float(torch.tensor(math.exp(rng.uniform(math.log(1e-6), math.log(1e4))), dtype=torch.float32))
        traces.append(run_rampg(torch, DUCCIO, n, s))
        scen.append({"kind": "rampg", "n": n, "s": s, "nontrivial": True})
    n_hist = 30000 if thorough else 2000
    for _ in range(n_hist):
        sc = random_hist(rng)
        traces.append(run_hist(torch, DUCCIO, sc))
        scen.append(sc)
    R.sample({"scenario": scen[-1], "observed": traces[-1]["calls"][:3]})
    for sU, c in [(1, 0), (1, 7), (5, 123), (1024, 1000), (3, 4097)]:
        reg = BaseRegularizer("m0", float(sU * U))
        v, frac = _units(float(reg(Stub(torch, {"m0": c}))))
        traces.append({"k": "base", "sU": sU, "c": c, "v": v, "frac": frac})
        scen.append({"kind": "base", "model": "stub", "sU": sU, "c": c, "nontrivial": c > 0})
    # BaseRegularizer: every accepted form of the strength (incl. 0 and the default) x several costs
    for form, kw, sM, sE in base_forms(torch):
        for c in (0, 1, 7, 123, 4097, 40000):
            traces.append(run_baseq(BaseRegularizer, form, kw, sM, sE, Stub(torch, {"m0": c}), "m0", c))
            scen.append({"kind": "baseq", "model": "stub", "form": form, "c": c, "nontrivial": c > 0})
        traces.append(run_baseq(BaseRegularizer, form + ", default cost name", kw, sM, sE,
                                Stub(torch, {"params": 321}), "params", 321, default_name=True))
        scen.append({"kind": "baseq", "model": "stub-default-name", "form": form, "c": 321, "nontrivial": True})
    rt, rs, skipped = run_real(torch, DUCCIO, BaseRegularizer, rng, 150 if thorough else 10)
    R.extra["real_model_traces"] = len(rt)
    R.extra["real_models_skipped_non_integer_cost"] = skipped
    R.extra["f17_scenarios_generated"] = sum(1 for s in scen if s.get("f17"))
    R.validate("DuccioTrace", "DuccioTrace", traces + rt, scen + rs, nontrivial=lambda s: s["nontrivial"],
               label="ramp grid + histories + real models", workers=8)
    R.exhaustive = False
    return R.finish()
