"""C19 - regularisers are non-negative penalties that vanish when the constraints hold.

design       : DuccioMC (TLC, exhaustive): n_epochs 1..50, every epoch, 1..3 metrics below / at / above target,
               strengths given or derived from the task loss (lazy initialisation = action Seal); the ramp and
               penalty clauses of the property are invariants. DuccioMC_f17 (metric exactly at target with derived
               strengths) is expected to FAIL: the as-implemented initialisation yields inf * 0 = NaN (finding F17).
spec -> code : the grid of the design run (every n <= 50, every epoch) is executed on the real DUCCIO through a stub
               model whose single cost exceeds its target by exactly 1, so the returned value IS the effective strength.
code -> spec : histories of calls on stub models (1..3 metrics, costs moving around their targets, given and derived
               strengths, gradients w.r.t. the costs) and on real PIT / MPS models, plus BaseRegularizer, are validated
               by TLC (DuccioTrace) which recomputes every expected value with the operators of Duccio.tla.
Strengths are of the form 100*n*m*2^-10 so that float32 evaluates the schedule without rounding (values are compared
exactly, as integers); generic float32 strengths are covered by order facts on IEEE bit patterns plus two
tolerance bits (relative 2^-20) computed with exact rationals.
"""
from __future__ import annotations

import json
import math
import random
import struct
from fractions import Fraction

from ..core import Run, use_repo
from .. import tlc

U = Fraction(1, 1024)          # strength unit
VU = 64                        # value units per strength unit


def _env():
    use_repo()
    import torch
    from plinio.regularizers import DUCCIO, BaseRegularizer
    return torch, DUCCIO, BaseRegularizer


class Stub:
    """Anything with get_cost(name) -> scalar tensor."""

    def __init__(self, torch, costs, grad=False):
        self.c = {k: torch.tensor(float(v), requires_grad=grad) for k, v in costs.items()}

    def get_cost(self, name):
        return self.c[name]


def _cls(x: float) -> str:
    if math.isnan(x):
        return "nan"
    if math.isinf(x):
        return "inf"
    return "neg" if x < 0 else "fin"


def _units(x: float):
    """float -> (integer number of u/64, not-exact flag)"""
    fr = Fraction(x) / (U / VU)
    if abs(fr) >= 2 ** 31:
        raise tlc.MachineryError(f"value {x} does not fit a TLC integer")
    return (int(fr), False) if fr.denominator == 1 else (round(fr), True)


def _bits(x: float) -> int:
    return struct.unpack("<i", struct.pack("<f", x))[0]


def _f(torch, fr: Fraction):
    x = float(fr)
    if Fraction(x) != fr or float(torch.tensor(x, dtype=torch.float32)) != x:
        raise tlc.MachineryError("strength not exactly representable in float32")
    return torch.tensor(x, dtype=torch.float32)


# ------------------------------------------------------------------------------------- executions
def run_ramp(torch, DUCCIO, n, mult):
    reg = DUCCIO({"a": torch.tensor(10.0)}, final_strengths=(_f(torch, 100 * n * mult * U),))
    vals = []
    for e in range(n + 1):
        v = float(reg(Stub(torch, {"a": 11}), e, n))
        u, frac = _units(v)
        if _cls(v) != "fin":
            u = -1
        vals.append(u)
    return {"k": "ramp", "n": n, "mult": mult, "v": vals}


def run_rampg(torch, DUCCIO, n, s):
    st = torch.tensor(s, dtype=torch.float32)
    sf = float(st)
    reg = DUCCIO({"a": torch.tensor(10.0)}, final_strengths=(st,))
    bits, near = [], []
    tol = Fraction(1, 2 ** 20)
    for e in range(n + 1):
        v = float(reg(Stub(torch, {"a": 11}), e, n))
        if _cls(v) != "fin":
            bits.append(-1)
            near.append(False)
            continue
        bits.append(_bits(v))
        near.append(Fraction(v) >= Fraction(sf) * (1 - tol))
    v0 = float(reg(Stub(torch, {"a": 11}), 0, n))
    start = _cls(v0) == "fin" and abs(Fraction(v0) * 100 - Fraction(sf)) <= Fraction(sf) * tol
    return {"k": "rampg", "n": n, "sbits": _bits(sf), "bits": bits, "near": near, "start": bool(start)}


def run_hist(torch, DUCCIO, sc, model_factory=None):
    """sc: {mode, n, t, mults|lossM, calls: [{e, c}]}; stub model unless model_factory is given."""
    names = [f"m{i}" for i in range(len(sc["t"]))]
    targets = {nm: torch.tensor(float(t)) for nm, t in zip(names, sc["t"])}
    n = sc["n"]
    if sc["mode"] == "given":
        reg = DUCCIO(targets, final_strengths=tuple(_f(torch, 100 * n * m * U) for m in sc["mults"]))
    else:
        reg = DUCCIO(targets, task_loss=_f(torch, 100 * n * sc["lossM"] * U))
    calls = []
    for cl in sc["calls"]:
        mdl = Stub(torch, dict(zip(names, cl["c"])), grad=True)
        val = reg(mdl, cl["e"], n)
        x = float(val)
        rec = {"e": cl["e"], "c": cl["c"], "cls": _cls(x), "v": 0, "frac": False}
        if rec["cls"] == "fin":
            rec["v"], rec["frac"] = _units(x)
            g = []
            if val.requires_grad:
                val.backward()
            for nm in names:
                gr = mdl.c[nm].grad
                gx = 0.0 if gr is None else float(gr)
                if _cls(gx) in ("nan", "inf"):
                    g.append(-(2 ** 30))
                else:
                    gu, gf = _units(gx)
                    rec["frac"] = rec["frac"] or gf
                    g.append(gu)
            rec["g"] = g
        calls.append(rec)
    tr = {"k": "hist", "mode": sc["mode"], "n": n, "t": sc["t"], "calls": calls}
    if sc["mode"] == "given":
        tr["mults"] = sc["mults"]
    else:
        tr["lossM"] = sc["lossM"]
    return tr


def random_hist(rng, allow_f17=True):
    n = rng.randint(1, 50)
    k = rng.randint(1, 3)
    t = [rng.randint(5, 40) for _ in range(k)]
    mode = rng.choice(["given", "derived"])
    sc = {"kind": "hist", "mode": mode, "n": n, "t": t}
    calls = []
    if mode == "given":
        sc["mults"] = [rng.randint(1, 2) for _ in range(k)]
    else:
        sc["lossM"] = 4
        first = []
        for i in range(k):
            r = rng.random()
            if r < 0.75:
                first.append(t[i] + rng.choice([1, 2, 4]))
            elif r < 0.85 and allow_f17:
                first.append(t[i])                       # exactly at target at the first call (F17 scenario)
            else:
                first.append(t[i] - rng.randint(1, 3))   # below: derived strength 0
        calls.append({"e": rng.randint(0, n), "c": first})
    for _ in range(rng.randint(2, 3)):
        e = rng.randint(0, n)
        base = [ti + rng.choice([-3, -1, 0, 0, 1, 2, 5]) for ti in t]
        calls.append({"e": e, "c": list(base)})
        for i in range(k):                                # bump every metric: "grows with each excess"
            b = list(base)
            b[i] += rng.choice([1, 3])
            calls.append({"e": e, "c": b})
        calls.append({"e": rng.randint(0, n), "c": list(base)})      # same costs, other epoch
    sc["calls"] = calls
    sc["f17"] = mode == "derived" and any(c == ti for c, ti in zip(calls[0]["c"], t))
    sc["nontrivial"] = any(cl["e"] > 0 or any(c > ti for c, ti in zip(cl["c"], t)) for cl in calls)
    return sc


# ------------------------------------------------------------------------------------- real models
def real_models(torch):
    """Small real DNAS models with integer-valued costs."""
    import torch.nn as nn
    from plinio.methods import PIT
    from plinio.methods.mps import MPS, MPSType, get_default_qinfo
    from plinio.cost import params, ops, params_bit

    class Net(nn.Module):
        def __init__(self, c1, c2):
            super().__init__()
            self.c1 = nn.Conv2d(3, c1, 3, padding=1)
            self.r = nn.ReLU()
            self.c2 = nn.Conv2d(c1, c2, 3, padding=1)
            self.p = nn.AdaptiveAvgPool2d(1)
            self.fc = nn.Linear(c2, 4)

        def forward(self, x):
            return self.fc(self.p(self.r(self.c2(self.r(self.c1(x))))).flatten(1))

    out = []
    torch.manual_seed(0)
    out.append(("PIT", PIT(Net(4, 6), input_shape=(3, 8, 8), cost={"m0": params, "m1": ops}), ["m0", "m1"]))
    out.append(("PIT-discrete", PIT(Net(5, 3), input_shape=(3, 6, 6), cost={"m0": params, "m1": ops},
                                    discrete_cost=True), ["m0", "m1"]))
    out.append(("MPS", MPS(Net(4, 4), input_shape=(3, 8, 8), cost={"m0": params_bit},
                           w_search_type=MPSType.PER_LAYER, hard_softmax=True,
                           qinfo=get_default_qinfo(w_precision=(2, 4, 8), a_precision=(8,))), ["m0"]))
    for _, m, _ in out:
        with torch.no_grad():
            m(m._input_example)          # refresh the sampled coefficients (hard selection => integer costs)
    return out


def run_real(torch, DUCCIO, BaseRegularizer, rng, n_hist):
    """Histories on real models: the costs are what the model reports (must be integers), the targets move."""
    traces, scen, skipped = [], [], 0
    for tag, model, names in real_models(torch):
        costs = []
        for nm in names:
            c = float(model.get_cost(nm))
            if c != int(c) or c >= 2 ** 22:
                costs = None
                break
            costs.append(int(c))
        if costs is None:
            skipped += 1
            continue
        # BaseRegularizer
        for sU in (1, 3, 8):
            reg = BaseRegularizer(names[0], float(sU * U))
            v, frac = _units(float(reg(model)))
            traces.append({"k": "base", "sU": sU, "c": costs[0], "v": v, "frac": frac})
            scen.append({"kind": "base", "model": tag, "sU": sU, "nontrivial": True})
        # DUCCIO: one object per target vector (targets are constructor arguments)
        for _ in range(n_hist):
            n = rng.randint(1, 50)
            mults = [rng.randint(1, 2) for _ in names]
            d = [rng.choice([-2, 0, 1, 3, 6]) for _ in names]          # excess = cost - target
            t = [c - x for c, x in zip(costs, d)]
            targets = {nm: torch.tensor(float(ti)) for nm, ti in zip(names, t)}
            reg = DUCCIO(targets, final_strengths=tuple(_f(torch, 100 * n * m * U) for m in mults))
            calls = []
            for e in sorted({0, rng.randint(0, n), (n + 1) // 2, n}):
                val = reg(model, e, n)
                x = float(val)
                rec = {"e": e, "c": costs, "cls": _cls(x), "v": 0, "frac": False}
                if rec["cls"] == "fin":
                    rec["v"], rec["frac"] = _units(x)
                    if val.requires_grad:
                        gs = torch.autograd.grad(val, [p for p in model.parameters() if p.requires_grad],
                                                 allow_unused=True)
                        if any(g is not None and not bool(torch.isfinite(g).all()) for g in gs):
                            rec["cls"] = "nan"
                calls.append(rec)
            traces.append({"k": "hist", "mode": "given", "n": n, "t": t, "mults": mults, "calls": calls})
            scen.append({"kind": "real", "model": tag, "n": n, "t": t, "mults": mults, "excess": d,
                         "nontrivial": any(x > 0 for x in d)})
    return traces, scen, skipped


# ------------------------------------------------------------------------------------- check
def run(tier: str, seed: int, replay=None) -> int:
    R = Run("C19", tier, seed, level="model_checking")
    R.rule = ("scenario = (n_epochs, strength multiplier) for the ramp grid (all n 1..50 x all epochs 0..n, multipliers 1-2); "
              "(mode given/derived, n, targets, strengths, sequence of (epoch, costs)) for DUCCIO histories on stub models; "
              "(model, targets relative to the model's own cost, strengths, epochs) on real PIT/MPS models; "
              "(strength, model) for BaseRegularizer; generic float32 strengths for the order clauses. "
              "Non-trivial = some call at epoch > 0 or with a cost above its target.")
    R.assumptions = [
        "exact comparisons use strengths 100*n*m*2^-10 and integer costs/targets, for which float32 evaluates DUCCIO without rounding",
        "generic float32 strengths: 'reaches the final strength' and '1% at epoch 0' are decided with relative tolerance 2^-20 (exact rationals in the harness), the order clauses on IEEE bit patterns by TLC",
        "one DUCCIO object is used with one n_epochs over its history",
        "strengths derived from task_loss are positive only for metrics above target at the first call; metrics below target then get strength 0 (outside 'positive final strengths': only finiteness, non-negativity and 'zero when within targets' are checked)",
        "real models: costs must be integer-valued (they are for params/ops/params_bit with hard selection); gradients on real models are only checked for finiteness",
    ]
    torch, DUCCIO, BaseRegularizer = _env()
    torch.set_num_threads(2)
    thorough = tier != "quick"

    if replay:
        sc = json.load(open(replay))["scenario"]
        if sc["kind"] == "ramp":
            tr = run_ramp(torch, DUCCIO, sc["n"], sc["mult"])
        elif sc["kind"] == "rampg":
            tr = run_rampg(torch, DUCCIO, sc["n"], sc["s"])
        elif sc["kind"] == "hist":
            tr = run_hist(torch, DUCCIO, sc)
        else:
            raise tlc.MachineryError("replay of real-model scenarios: rerun the check with the same seed")
        R.validate("DuccioTrace", "DuccioTrace", [tr], [sc])
        return R.finish()

    # ---- 1. design level
    R.design("DuccioMC", "DuccioMC_thorough" if thorough else "DuccioMC_quick", workers=8, coverage=True,
             require_cov=["DuccioMC!AddMetric", "DuccioMC!Seal", "DuccioMC!Tick"], timeout=3000)
    R.design("DuccioMC", "DuccioMC_f17", workers=4, expect_ok=False)      # F17 reproduced by the model / non-vacuity

    traces, scen = [], []
    # ---- 2. spec -> code: the whole (n, e) grid of the design run
    for n in range(1, 51):
        for mult in (1, 2):
            traces.append(run_ramp(torch, DUCCIO, n, mult))
            scen.append({"kind": "ramp", "n": n, "mult": mult, "nontrivial": True})
    R.sample({"scenario": scen[6], "observed": traces[6]})
    # default arguments (epoch=1, n_epochs=1) must give the final strength
    reg = DUCCIO({"a": torch.tensor(10.0)}, final_strengths=(_f(torch, 100 * U),))
    v0, _ = _units(float(reg(Stub(torch, {"a": 11}), 0, 1)))
    v1, _ = _units(float(reg(Stub(torch, {"a": 11}))))            # epoch and n_epochs left at their defaults
    traces.append({"k": "ramp", "n": 1, "mult": 1, "v": [v0, v1]})
    scen.append({"kind": "ramp-default-args", "n": 1, "mult": 1, "nontrivial": True})

    # ---- 3. code -> spec
    rng = random.Random(seed)
    for _ in range(8000 if thorough else 500):
        n = rng.randint(1, 50)
        s = float(torch.tensor(math.exp(rng.uniform(math.log(1e-6), math.log(1e4))), dtype=torch.float32))
        traces.append(run_rampg(torch, DUCCIO, n, s))
        scen.append({"kind": "rampg", "n": n, "s": s, "nontrivial": True})
    n_hist = 50000 if thorough else 2500
    for _ in range(n_hist):
        sc = random_hist(rng)
        traces.append(run_hist(torch, DUCCIO, sc))
        scen.append(sc)
    R.sample({"scenario": scen[-1], "observed": traces[-1]["calls"][:3]})
    for sU, c in [(1, 0), (1, 7), (5, 123), (1024, 1000), (3, 4097)]:
        reg = BaseRegularizer("m0", float(sU * U))
        v, frac = _units(float(reg(Stub(torch, {"m0": c}))))
        traces.append({"k": "base", "sU": sU, "c": c, "v": v, "frac": frac})
        scen.append({"kind": "base", "model": "stub", "sU": sU, "c": c, "nontrivial": c > 0})
    rt, rs, skipped = run_real(torch, DUCCIO, BaseRegularizer, rng, 150 if thorough else 10)
    R.extra["real_model_traces"] = len(rt)
    R.extra["real_models_skipped_non_integer_cost"] = skipped
    R.extra["f17_scenarios_generated"] = sum(1 for s in scen if s.get("f17"))
    R.validate("DuccioTrace", "DuccioTrace", traces + rt, scen + rs, nontrivial=lambda s: s["nontrivial"],
               label="ramp grid + histories + real models", workers=8)
    R.exhaustive = False
    return R.finish()
