"""C03 - SuperNet export keeps exactly the arg-max branch of every choice block.

design     : SNLifeMC (TLC, exhaustive): every network of the enumerated families x every winner
             combination; invariants ExportSucceeds / ExportIsWinner / KeptModules on the transcription
             of export_graph (name-substring matching) outside the signature of finding F03, exactness
             of that signature, and an expected-to-fail run without the guard.
spec->code : every dumped state (a sample for the 12-branch family) is rebuilt as a real SuperNet
             (harness/sn_gen.py), driven along the path TLC found, and export() is observed: leaf
             modules kept per branch, combiners left, layers outside blocks (set + state), float64
             output vs the SuperNet under hard selection.
code->spec : the observations (plus random networks up to 3 blocks x 12 branches and random call
             histories) are validated by TLC (SNLifeTrace) with the same operators.
Tolerance  : outputs compared in float64, threshold 1e-9 * (1 + max|y|); everything else exact.
"""
from __future__ import annotations

from .. import sn_gen


def run(tier: str, seed: int, replay=None) -> int:
    q = tier == "quick"
    plan = {
        "rule": ("scenario = (abstract SuperNet: 1..3 choice blocks, branch kinds layer/Sequential/user block with module "
                 "tail/user block with functional tail/Identity/user block reusing a layer, block used once or twice, "
                 "with or without pooling in between, optionally nested in a Sequential; call history ending in export()). "
                 "Scenarios are the reachable states of the SNLifeMC configurations (every winner combination) plus seeded "
                 "random networks and histories. Non-trivial = some block's winner differs from the initial arg-max (branch 0)."),
        "assumptions": [
            "branches are shape preserving and all blocks have the same width (SuperNet's documented restriction: equal output shapes)",
            "no choice block nested inside a branch of another choice block",
            "equality of outputs is observed on 3 random float64 inputs per export (threshold 1e-9*(1+max|y|))",
            "the harness restores train/eval mode after export() (the mode side effect belongs to C18)",
            "coefficients that tie at the logged resolution (gap < 1e-4): any arg-max branch is accepted and output equality "
            "is not required (observed: alpha = [0.527, 0.527 + 1 ulp] with temperature >= 3: best_layer_index() = 1 but the "
            "hard one-hot, arg-max of the float32 softmax(alpha / T), is at 0)",
        ],
        "design": ([("SNLifeMC_struct_quick", True, 0, "struct"), ("SNLifeMC_reuse_quick", True, 0, "reuse"),
                    ("SNLifeMC_multi_quick", True, 0, "multi"), ("SNLifeMC_big_quick", True, 200, "big12"),
                    ("SNLifeMC_names_quick", True, 200, "names"), ("SNLifeMC_fork_quick", True, 300, "fork")] if q else
                   [("SNLifeMC_struct_thorough", True, 0, "struct"), ("SNLifeMC_reuse_thorough", True, 0, "reuse"),
                    ("SNLifeMC_multi_thorough", True, 4000, "multi"), ("SNLifeMC_big_thorough", True, 2500, "big12"),
                    ("SNLifeMC_big11_thorough", True, 1500, "big11"), ("SNLifeMC_names_thorough", True, 2000, "names"), ("SNLifeMC_fork_thorough", True, 4000, "fork"),
                    ("SNLifeMC_ref_thorough", False, 0, "ref")]),
        "sanity": ["SNLifeMC_pinned_export", "SNLifeMC_fork_shared"],
        "n_random": 120 if q else 3000,
        "procs": 8,
    }
    return sn_gen.run_check("C03", tier, seed, replay, plan)
