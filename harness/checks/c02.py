"""C02 - MPS export is bit-identical to the eval-mode model and uses the precisions summary() reports.

design     : MPSLifeMC (TLC, exhaustive): every architecture of the 2-D and of the 1-D grammar (conv incl. depthwise,
             conv-bn (2-D), linear, linear-bn, relu, pooling, flatten, residual add; a layer object invoked at a second
             call site) x candidate precision tuples x winners per quantiser group.  Invariants: the quantiser found by the as-implemented walk (register_in_mps_quantizers) is the
             quantiser of the tensor the layer consumes, for every selection (InvPlumb / InvPlumbGroups) outside the
             the signatures of F40 (pinned walk) and F66 (a layer object whose call sites lie in different quantiser
             groups); add operands on one grid; output unquantised; label propagation = components.
             Expected-to-fail runs: the pinned walk (F40, repaired) and reuse without the F66 guard (non-vacuity).
spec->code : the selected states are rebuilt as real MPS models (harness/mps_gen.py): the winners are written into the
             raw coefficients (gaps >= 0.06, random offset/scale), softmax temperature 0.05..20, gumbel on/off, hard
             on/off; export() before or after the eval forward pass.
code->spec : per quantisation point the harness logs arg-max of the raw coefficients, summary(), the precisions of the
             quantiser objects of the exported Quant* layer, object identities, and torch.equal(MPS.eval()(x),
             export().eval()(x)) on 3 batches (one outside the input range); TLC (MPSLifeTrace) decides: exported =
             summary = arg-max, exported input precision = exported output precision of the producer computed by the
             reference dataflow operator QPoint from the logged architecture, bit-identity.  Seeded random
             architectures (up to 9 nodes, widths 2..6, strides, bias on/off, all 15 tuples) go through the same spec.
Histories  : every scenario is a call history that ends in a compared export(): mode switches (eval / hard / hard-Gumbel
             training), forward passes with autograd enabled or under no_grad in the CURRENT mode (no mode switch in
             between), coefficient writes by load_state_dict / in-place copy_ / .data, SGD steps on the network weights
             only / on all parameters, observers.  EVERY export() of a history is compared: the model is evaluated in eval
             mode BEFORE export() is called (without switching a model that already is in eval mode) and again after it,
             the exported module must reproduce both on 3 batches (sizes 3,2,5; tracing example: input_shape or an
             input_example of batch 2..5), and its weight / bias must be the current ones (clause C02.snapshot).
             Design level: env = [mode, cached, weight version, snapshot version]; InvExportCurrent (export after k weight
             updates holds the weights of version k), InvFreshIsSummary whatever the autograd mode; expected-to-fail
             variants FwdImpl = "cache" (eval + no_grad forward skips the weight sampler) and ExpImpl = "memo".
At every compared export() summary() is read FIRST (no forward pass in between) and must equal both the precisions of the
             exported quantiser objects and the arg-max of the raw coefficients, for every module (input quantiser, MPSConv1d,
             MPSConv2d, MPSLinear, MPSAdd) - clause "C02.summary export() number k"; pinned histories (always run, on a
             conv+linear 2-D, a conv-only 2-D, a conv+linear 1-D and a conv-only 1-D network): every kind of coefficient write
             (load_state_dict, copy_, .data, optimizer step) followed by summary / export without a forward pass, and
             hard-Gumbel training mode right after a training forward pass.
Two objects : history action fork: obj := deepcopy(obj), the original is perturbed (other coefficients, options, temperature,
             forward passes), the history continues on the copy; every clause is evaluated on the copy (reference state =
             state at the fork); loadT = load_state_dict of another temperature.  Sanity variant ForkImpl = "shared" fails.
Conv options: padding_mode zeros / reflect / replicate / circular, dilation 1..2 (2-D too), stride 1..2, bias on/off, un-padded
             convs (random driver); InvExportGeom + clause C02.geometry (options of the exported layer read off the object).
Tolerance  : none - bit-identical is torch.equal in float32 on CPU with one thread; precisions are integers.
"""
from __future__ import annotations

from .. import mps_gen

RULE = ("scenario = (1-D or 2-D grammar architecture (MPSConv1d / MPSConv2d / MPSLinear / MPSAdd; optionally one layer object with two "
        "call sites), candidate precision tuples of input / activation / weight quantisers, winner "
        "per quantiser, softmax temperature, gumbel / hard flags, export before or after the forward pass). Scenarios are "
        "the selected states of the MPSLifeMC configurations (all of them, or a sample stratified by architecture shape where "
        "stated in coverage.replay) plus seeded random architectures with winners drawn per quantiser object. Non-trivial = some "
        "quantiser's winner differs from its initial arg-max (the largest precision) and the outputs vary over the batch.")
ASSUMPTIONS = [
    "per-layer weight search (the per-channel exporter QuantList is outside the statement of C02)",
    "one candidate tuple for all activation quantisers and one for all weight quantisers (get_default_qinfo), a separate one for the network input",
    "coefficient gaps >= 0.06 so that the arg-max is unambiguous in float32 at every temperature in [0.05, 20]",
    "PACT clipping values randomised in [0.7, 3.3]; weights scaled so that activations spread over the quantisers' ranges",
    "bit-identity observed on 3 input batches (10 samples, one outside the input range, batch sizes 3,2,5) per export, before and "
    "after the export() call, float32, CPU, 1 thread",
    "non-zero padding modes only where PyTorch accepts them (input larger than the padding)",
    "SGD steps: one step, lr 0.05 on weights / 0.002 on coefficients, loss = mean((y-0.3)^2), hard-sampling training mode",
    "quantiser sharing and 'output is not quantised' are predictions (SPEC-DRIFT), not clauses of C02",
    "no plain conv with exactly one input and one output channel (plinio classifies it as depthwise: ambiguous sharing rule)",
    "1-D: causal (left-padded) or 'same'-padded Conv1d, dilation 1..2, no BatchNorm after a Conv1d (MPS folds Conv2d-BN and Linear-BN only)",
    "weight sharing: the replay of the reuse configurations (mostly call sites in different quantiser groups = F66) runs only while F66 "
    "is listed; random networks contain the weight-shared residual block h'=B(h)+h, h''=B(h')+h' (one group), which must pass",
]


def run(tier: str, seed: int, replay=None) -> int:
    q = tier == "quick"
    plan = {
        "rule": RULE, "assumptions": ASSUMPTIONS,
        # (config, max replayed states (0 = all), states per model build (0 = all), label)
        "design": ([("MPSLifeMC_arch_quick", 210, 3, "arch"), ("MPSLifeMC_tuples_quick", 120, 1, "tuples"),
                    ("MPSLifeMC_all_quick", 180, 30, "allwinners"), ("MPSLifeMC_d1_quick", 110, 3, "arch1d"),
                    ("MPSLifeMC_reuse_quick", 90, 3, "reuse", "F66"), ("MPSLifeMC_opts_quick", 140, 3, "convopts"),
                    ("MPSLifeMC_opts1d_quick", 60, 3, "convopts1d"), ("MPSLifeMC_modes_quick", 80, 40, "modes"),
                    ("MPSLifeMC_export_quick", 100, 50, "exports"),
                    ("MPSLifeMC_fork_quick", 70, 30, "fork")] if q else
                   [("MPSLifeMC_arch_quick", 0, 0, "arch"), ("MPSLifeMC_arch_thorough", 2400, 3, "arch4"),
                    ("MPSLifeMC_arch5_thorough", 1200, 3, "arch5"), ("MPSLifeMC_tuples_thorough", 2000, 2, "tuples"),
                    ("MPSLifeMC_all_thorough", 2500, 40, "allwinners"), ("MPSLifeMC_few_thorough", 1200, 3, "few"),
                    ("MPSLifeMC_d1_quick", 0, 0, "arch1d"), ("MPSLifeMC_d1_thorough", 1500, 3, "arch1d4"),
                    ("MPSLifeMC_reuse_thorough", 1500, 3, "reuse", "F66"), ("MPSLifeMC_reuse1d_thorough", 600, 3, "reuse1d", "F66"),
                    ("MPSLifeMC_opts_quick", 0, 0, "convopts"), ("MPSLifeMC_opts_thorough", 1500, 3, "convopts3"),
                    ("MPSLifeMC_opts1d_quick", 0, 0, "convopts1d"), ("MPSLifeMC_modes_thorough", 1500, 100, "modes"),
                    ("MPSLifeMC_export_thorough", 2500, 150, "exports"),
                    ("MPSLifeMC_fork_thorough", 1200, 100, "fork")]),
        "sanity": ["MPSLifeMC_nokf40", "MPSLifeMC_noreuse", "MPSLifeMC_cachefwd", "MPSLifeMC_memoexport", "MPSLifeMC_sharedfork"],
        "n_random": 28 if q else 600, "random_sels": 2 if q else 3, "max_nodes": 9 if q else 12,
        "procs": 8, "tlc_workers": 8,
    }
    return mps_gen.run_check("C02", tier, seed, replay, plan)
