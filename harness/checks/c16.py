"""C16 - built-in cost models are finite, non-negative and monotone.

design     : CostModelsMC walks every registered cost function (integer transcription in CostFormulas.tla)
             over product grids / full channel sweeps, one axis step per transition; TLC checks >= 0, > 0,
             monotone steps, depthwise = generic per group, exact rounding helpers, declared rejections.
spec->code : CostLifeMC enumerates histories (Eval / Set) on ONE shared layer description; every maximal history is replayed
             on one real dict: each evaluation is compared with the evaluation of a freshly built identical dict (history
             independence) and the dict is compared before/after each call (frame condition), also on error paths.
code->spec : the REAL registered functions (taken from the CostSpec objects of plinio.cost) are evaluated along
             axis chains (full channel range 1..130 in quarter channels, kernels, output sizes, bit-widths);
             TLC (CostModelsTrace) re-checks every property clause on the OBSERVED values and compares each
             value with the transcription (mismatch alone = SPEC-DRIFT, not an alarm).
"""
from __future__ import annotations

import json
import math
import random
import re
import tempfile
import threading
from fractions import Fraction
from typing import Any, Dict, List, Tuple

from ..core import Run, use_repo
from .. import tlc

S = 4                       # quarter channels
CH_LO, CH_HI = 1 * S, 130 * S
KERNELS = [1, 3, 5, 7]
OUT_LO, OUT_HI = 1, 33

FIVEWAY = ["params", "params_no_bias", "params_bit", "ops", "ops_no_bias", "ops_bit", "mpic_latency", "mpic_energy"]
SIZE_MODELS = ["params", "params_no_bias", "params_bit"]
COUNT_MODELS = ["params", "params_no_bias", "params_bit", "ops", "ops_no_bias", "ops_bit"]
MPIC = ["mpic_latency", "mpic_energy"]
W_AXIS = ["params_bit", "ops_bit", "mpic_latency", "mpic_energy", "ne16_latency"]
A_AXIS = ["ops_bit", "mpic_latency", "mpic_energy"]
USES_BIAS = ["params", "ops", "mpic_latency", "mpic_energy"]
RESTRICTED = MPIC + ["ne16_latency", "diana_latency"]


def obs_unit(m: str) -> Tuple[int, int]:
    """(mantissa, power of ten) of the unit in which observed values are logged; the trace spec checks it."""
    if m == "mpic_latency":
        return (16, 3)
    if m == "mpic_energy":
        return (16, 17)
    if m in FIVEWAY:
        return (S * S, 0)
    if m == "diana_latency":
        return (40 * S, 0)
    return (S, 0)


def limbs(n: int) -> List[int]:
    out = []
    while True:
        out.append(n % 10000)
        n //= 10000
        if n == 0:
            return out


# --------------------------------------------------------------------------------------------------
# the real side
# --------------------------------------------------------------------------------------------------
class Real:
    def __init__(self):
        use_repo()
        import torch
        import torch.nn as nn
        import plinio.cost as pc
        from plinio.cost import CostSpec
        from plinio.cost.pattern import conv_dw_constraint
        self.torch = torch
        lname = {nn.Conv1d: "conv1d", nn.Conv2d: "conv2d", nn.Linear: "linear"}
        self.fns: Dict[Tuple[str, str, str], Any] = {}
        self.unknown: List[Dict[str, str]] = []
        for name in sorted(dir(pc)):
            cs = getattr(pc, name)
            if not isinstance(cs, CostSpec):
                continue
            for lt, entries in cs.data.items():
                for constr, f in entries:
                    pat = "U" if constr is None else ("dw" if constr is conv_dw_constraint else getattr(constr, "__name__", "?"))
                    key = (name, lname.get(lt, getattr(lt, "__name__", "?")), pat)
                    if key in self.fns:          # registered twice: keep both visible
                        key = (name, key[1], pat + "#2")
                    self.fns[key] = f
        self.bias = torch.zeros(1)
        # rounding helpers
        import importlib
        g8 = importlib.import_module("plinio.cost.gap8_latency")
        di = importlib.import_module("plinio.cost.diana_latency")
        ne = importlib.import_module("plinio.cost.ne16_latency")
        self.helpers = {
            "gap8.FloorSTE": (lambda x, n: g8.FloorSTE.apply(x, n), True),
            "diana.FloorSTE": (lambda x, n: di.FloorSTE.apply(x, n), True),
            "gap8._floor": (lambda x, n: g8._floor(x, n), False),
            "diana._floor": (lambda x, n: di._floor(x, n), False),
            "ne16.DivAndCeilSTE": (lambda x, n: ne.DivAndCeilSTE.apply(x, n), True),
            "ne16.FloorDivideSTE": (lambda x, n: ne.FloorDivideSTE.apply(x, n), True),
            "ne16.ModuloSTE": (lambda x, n: ne.ModuloSTE.apply(x, n), True),
        }

    def ids(self) -> List[Dict[str, str]]:
        return [{"m": m, "l": l, "pat": p} for (m, l, p) in sorted(self.fns)]

    def spec(self, fn: Dict[str, str], p: Dict[str, int], f32: bool = False) -> Dict[str, Any]:
        """The layer description (PatternSpec) for the abstract point p, as the NAS methods build it:
        0-d tensors for (effective) channel counts and precisions, ints for kernel / output sizes."""
        torch = self.torch
        dt = torch.float32 if f32 else torch.float64
        T = lambda q: torch.tensor(q / S, dtype=dt)                   # noqa: E731
        cin, cout = T(p["cin"]), T(p["cout"])
        cout_i = max(1, int(math.ceil(p["cout"] / S)))
        sp: Dict[str, Any] = {"_parameters": {"bias": self.bias if p["b"] else None, "weight": None},
                              "w_precision": torch.tensor(float(p["w"])),
                              "in_precision": torch.tensor(float(p["a"])),
                              "a_precision": torch.tensor(float(p["a"])),
                              "w_theta_alpha": torch.tensor(1.0 / p["td"] if p["td"] else 0.0, dtype=dt),
                              "in_format": int, "w_format": int}
        if fn["l"] == "linear":
            sp.update({"in_features": cin, "out_features": cout, "output_shape": (1, cout_i)})
        else:
            if p["g"] == 1:
                groups: Any = 1
            else:
                groups = p["cout"] // S if p["cout"] % S == 0 else p["cout"] / S
            two = fn["l"] == "conv2d"
            sp.update({"in_channels": cin, "out_channels": cout, "groups": groups,
                       "kernel_size": (p["kx"], p["ky"]) if two else (p["kx"],),
                       "output_shape": (1, cout_i, p["ox"], p["oy"]) if two else (1, cout_i, p["ox"]),
                       "stride": (1, 1) if two else (1,), "padding": (0, 0) if two else (0,),
                       "dilation": (1, 1) if two else (1,)})
        return sp

    def evaluate(self, fn: Dict[str, str], p: Dict[str, int]) -> Tuple[List[int], bool, str]:
        """-> (observation, positive bit, note) on a freshly built description."""
        return self.evaluate_on(fn, self.spec(fn, p))

    def evaluate_on(self, fn: Dict[str, str], sp: Dict[str, Any]) -> Tuple[List[int], bool, str]:
        """-> (observation, positive bit, note) on the GIVEN dictionary (which the function may try to alter)."""
        f = self.fns[(fn["m"], fn["l"], fn["pat"])]
        try:
            r = f(sp)
            v = float(r)
        except Exception as e:                                          # noqa: BLE001
            return [-1], False, type(e).__name__
        if not math.isfinite(v):
            return [-2], False, repr(v)
        if v < 0:
            return [-3], False, repr(v)
        mant, e10 = obs_unit(fn["m"])
        n = round(Fraction(v) * mant * 10 ** e10)
        return limbs(int(n)), v > 0, ""

    def category32(self, fn: Dict[str, str], p: Dict[str, int]) -> int:
        """Same description with float32 tensors (what the NAS methods pass): 0 = finite and non-negative."""
        f = self.fns[(fn["m"], fn["l"], fn["pat"])]
        try:
            v = float(f(self.spec(fn, p, f32=True)))
        except Exception:                                               # noqa: BLE001
            return -1
        return -2 if not math.isfinite(v) else (-3 if v < 0 else 0)

    def helper_table(self, h: str, N: int, xs: List[int], gin: int) -> Dict[str, Any]:
        torch = self.torch
        f, has_grad = self.helpers[h]
        val, isint, ok, gout = [], [], [], []
        for x in xs:
            try:
                t = torch.tensor(x / S, dtype=torch.float64, requires_grad=has_grad)
                y = f(t, N)
                yv = float(y.detach()) if hasattr(y, "detach") else float(y)
                if not math.isfinite(yv):
                    raise ValueError("non-finite")
                ys = Fraction(yv) * S
                isint.append(ys.denominator == 1)
                val.append(int(math.floor(ys)))
                if has_grad:
                    y.backward(torch.tensor(gin / 1000.0, dtype=torch.float64))
                    g = t.grad
                    gout.append(-1 if g is None else int(round(float(g) * 1000)))
                else:
                    gout.append(gin)
                ok.append(True)
            except Exception:                                           # noqa: BLE001
                val.append(0), isint.append(False), ok.append(False), gout.append(-1)
        return {"kind": "helper", "h": h, "N": N, "xs": xs, "val": val, "isint": isint, "ok": ok, "gin": gin, "gout": gout}


# --------------------------------------------------------------------------------------------------
# scenario generation (abstract; shared by run and replay)
# --------------------------------------------------------------------------------------------------
def _fix(fn: Dict[str, str], p: Dict[str, int]) -> Dict[str, int]:
    """Project a generic point onto the descriptions the layer type / pattern / model of fn can have."""
    q = dict(p)
    m, l, pat = fn["m"], fn["l"], fn["pat"]
    if l == "linear":
        q.update(kx=1, ky=1, ox=1, oy=1, g=1)
    if l == "conv1d":
        q.update(ky=1, oy=1)
    if m in SIZE_MODELS:
        q.update(ox=1, oy=1)
    if m == "ne16_latency" and l != "linear":
        k = 3 if (pat == "dw" or q["kx"] >= 3) else 1
        q.update(kx=k, ky=k)
    if m != "ne16_latency":
        q["td"] = 1
    if m not in USES_BIAS:
        q["b"] = 0
    if m == "diana_latency":
        q["a"] = 8
        q["w"] = 2 if q["w"] <= 2 else 8
        if l == "linear" or (q["w"] == 2):
            q["g"] = 1
    elif pat != "dw":
        q["g"] = 1
    if m == "ne16_latency":
        q["a"] = 8
    if m in MPIC and q["a"] == 0:
        q["a"] = 2
    if m not in W_AXIS + ["diana_latency"]:
        q["w"] = 8
    if m not in A_AXIS + ["ne16_latency", "diana_latency"]:
        q["a"] = 8
    if pat == "dw":
        q["g"] = 0
    if q["g"] == 0:
        q["cin"] = q["cout"]
    return q


FIXED_BASES = [
    dict(cin=3 * S, cout=5 * S, kx=3, ky=3, ox=7, oy=5, w=8, a=8, b=1, g=1, td=1),
    dict(cin=16 * S, cout=32 * S, kx=1, ky=1, ox=16, oy=16, w=2, a=4, b=0, g=1, td=2),
    dict(cin=17 * S, cout=33 * S, kx=3, ky=3, ox=9, oy=10, w=4, a=2, b=1, g=0, td=4),
    dict(cin=64 * S + 1, cout=129 * S, kx=5, ky=7, ox=33, oy=33, w=8, a=8, b=0, g=0, td=1),
    dict(cin=130 * S, cout=130 * S, kx=7, ky=7, ox=33, oy=33, w=8, a=8, b=1, g=1, td=1),
    dict(cin=1 * S, cout=1 * S, kx=1, ky=1, ox=1, oy=1, w=2, a=8, b=0, g=1, td=1),
]


def _random_base(rng: random.Random) -> Dict[str, int]:
    def ch():
        r = rng.random()
        if r < 0.35:       # near a tile boundary
            c = rng.choice([2, 4, 8, 16, 32, 64, 128]) * S + rng.randint(-S - 1, S + 1)
        elif r < 0.7:
            c = rng.randint(CH_LO, CH_HI)
        else:
            c = rng.randint(1, 130) * S
        return min(max(c, CH_LO), CH_HI)
    return dict(cin=ch(), cout=ch(), kx=rng.choice(KERNELS), ky=rng.choice(KERNELS),
                ox=rng.randint(OUT_LO, OUT_HI), oy=rng.randint(OUT_LO, OUT_HI),
                w=rng.choice([2, 4, 8, 8]), a=rng.choice([2, 4, 8, 8]), b=rng.randint(0, 1),
                g=rng.randint(0, 1), td=rng.choice([1, 1, 2, 4]))


def _axes(fn: Dict[str, str], q: Dict[str, int]) -> List[Tuple[str, List[int]]]:
    m, l, pat = fn["m"], fn["l"], fn["pat"]
    ch = list(range(CH_LO, CH_HI + 1))
    out: List[Tuple[str, List[int]]] = []
    if q["g"] == 0:
        out.append(("c", ch))
    else:
        out += [("cin", ch), ("cout", ch)]
    if l != "linear":
        if m == "ne16_latency":
            if pat == "U":
                out.append(("k13", [1, 3]))
        else:
            out.append(("kx", KERNELS))
            if l == "conv2d":
                out.append(("ky", KERNELS))
        if m not in SIZE_MODELS:
            out.append(("ox", list(range(OUT_LO, OUT_HI + 1))))
            if l == "conv2d":
                out.append(("oy", list(range(OUT_LO, OUT_HI + 1))))
    if m in W_AXIS:
        out.append(("w", [0, 2, 4, 8]))
    if m in A_AXIS:
        out.append(("a", [0, 2, 4, 8] if m == "ops_bit" else [2, 4, 8]))
    return out


def _apply(base: Dict[str, int], axis: str, x: int) -> Dict[str, int]:
    q = dict(base)
    if axis == "c":
        q["cin"] = q["cout"] = x
    elif axis == "k13":
        q["kx"] = q["ky"] = x
    else:
        q[axis] = x
    return q


def chain_scenarios(fns: List[Dict[str, str]], tier: str, seed: int) -> List[Dict[str, Any]]:
    rng = random.Random(seed * 7919 + 16)
    n_sweep = 1 if tier == "quick" else 6           # fixed bases that get the full channel sweeps
    n_rand = 2 if tier == "quick" else 24
    scen = []
    for fn in fns:
        bases = [_fix(fn, b) for b in FIXED_BASES] + [_fix(fn, _random_base(rng)) for _ in range(n_rand)]
        seen = set()
        for bi, b in enumerate(bases):
            k = json.dumps(b, sort_keys=True)
            if k in seen:
                continue
            seen.add(k)
            for axis, xs in _axes(fn, b):
                if axis in ("cin", "cout", "c") and tier == "quick" and n_sweep <= bi and bi != len(FIXED_BASES):
                    # quick: remaining fixed bases sweep the channels around the tile boundaries only
                    xs = sorted({x for t in (1, 2, 4, 8, 16, 32, 64, 128) for x in range(t * S - 5, t * S + 6)
                                 if CH_LO <= x <= CH_HI} | {CH_LO, CH_HI})
                scen.append({"kind": "chain", "fn": fn, "base": b, "axis": axis, "xs": xs})
    return scen


def dw_scenarios(fns: List[Dict[str, str]], tier: str, seed: int) -> List[Dict[str, Any]]:
    rng = random.Random(seed * 104729 + 16)
    scen = []
    cs = [4, 5, 8, 13, 28, 64, 65, 133, 256, 513, 520]
    n_extra = 40 if tier == "quick" else 600
    for fn in fns:
        if fn["pat"] != "dw" or fn["m"] not in COUNT_MODELS:
            continue
        pts = []
        for c in cs:
            for kx, ky in [(1, 1), (3, 3), (5, 3), (7, 7)]:
                for (ox, oy, w, a, b) in [(1, 1, 8, 8, 0), (7, 5, 2, 4, 1), (33, 33, 8, 8, 1), (16, 9, 4, 2, 0)]:
                    pts.append(_fix(fn, dict(cin=c, cout=c, kx=kx, ky=ky, ox=ox, oy=oy, w=w, a=a, b=b, g=0, td=1)))
        for _ in range(n_extra):
            pts.append(_fix(fn, dict(_random_base(rng), g=0)))
        uniq = {json.dumps(p, sort_keys=True): p for p in pts}
        scen.append({"kind": "dw", "fn": fn, "pts": list(uniq.values())})
    return scen


def reject_scenarios(fns: List[Dict[str, str]]) -> List[Dict[str, Any]]:
    scen = []
    for fn in fns:
        m, l, pat = fn["m"], fn["l"], fn["pat"]
        if m not in RESTRICTED:
            continue
        pts = []
        for (cin, cout, ox, oy) in [(3 * S, 3 * S, 4, 5), (40 * S + 2, 40 * S + 2, 9, 9)]:
            for w in [0, 2, 3, 4, 8, 16]:
                if m == "ne16_latency" and w not in (2, 4, 8):
                    continue        # NE16: w = 0 returns 0 first; other weight widths are not a declared restriction
                for a in [0, 2, 3, 4, 8, 16]:
                    for k in (KERNELS if l != "linear" else [1]):
                        for g in ([0] if pat == "dw" else [1] if (l == "linear" or m != "diana_latency") else [0, 1]):
                            p = dict(cin=cin, cout=cout, kx=k, ky=k if l == "conv2d" else 1,
                                     ox=ox if l != "linear" else 1, oy=oy if l == "conv2d" else 1,
                                     w=w, a=a, b=1 if m in USES_BIAS else 0, g=g, td=1)
                            pts.append(p)
        scen.append({"kind": "reject", "fn": fn, "pts": pts})
    return scen


def helper_scenarios(helpers: List[str], tier: str) -> List[Dict[str, Any]]:
    scen = []
    for h in helpers:
        for N in [2, 3, 4, 8, 16, 32, 128, 256, 512]:
            top = min(3 * N, 1100) * S + 9
            xs = set(range(1, min(top, 80 * S) + 1))
            for k in range(1, 4):
                xs |= {k * N * S + d for d in range(-6, 7) if 0 < k * N * S + d <= top}
            xs |= set(range(1, top + 1, 13 if tier == "quick" else 3))
            for gin in ([1000] if tier == "quick" and N not in (4, 16) else [1000, 2500]):
                scen.append({"kind": "helper", "h": h, "N": N, "xs": sorted(xs), "gin": gin})
    return scen


# --------------------------------------------------------------------------------------------------
# histories on ONE shared description (module CostLife): purity / history independence / frame condition
# --------------------------------------------------------------------------------------------------
def life_set(l: str, p: Dict[str, int], f: str, v: int) -> Dict[str, int]:
    """SetFieldOf of CostLife.tla."""
    q = dict(p)
    if f == "c":
        q["cin"] = q["cout"] = v
    elif f == "k":
        q["kx"], q["ky"] = v, (v if l == "conv2d" else 1)
    elif f == "o":
        q["ox"], q["oy"] = v, (v if l == "conv2d" else 1)
    else:
        q[f] = v
    return q


def life_build(real: Real, l: str, p: Dict[str, int], style: str) -> Dict[str, Any]:
    """A brand-new dictionary for the abstract description p. style 'mps': the activation precision is the entry
    'in_precision' only (what MPS layers pass); 'both': 'in_precision' and diana's 'a_precision', kept equal by the owner."""
    sp = real.spec({"l": l}, p)
    if style == "mps":
        del sp["a_precision"]
    return sp


def life_keys(l: str, f: str, style: str) -> List[str]:
    lin = l == "linear"
    return {"cin": ["in_features" if lin else "in_channels"],
            "cout": ["out_features" if lin else "out_channels", "output_shape"],
            "c": ["in_channels", "out_channels", "groups", "output_shape"],
            "k": ["kernel_size"], "o": ["output_shape"], "w": ["w_precision"],
            "a": ["in_precision"] if style == "mps" else ["in_precision", "a_precision"], "b": ["_parameters"]}[f]


def _snap(x: Any) -> Any:
    """Value snapshot of a description (tensors by dtype / shape / value)."""
    if hasattr(x, "dtype") and hasattr(x, "tolist"):
        return ("tensor", str(x.dtype), tuple(x.shape), repr(x.tolist()), bool(getattr(x, "requires_grad", False)))
    if isinstance(x, dict):
        return {k: _snap(v) for k, v in x.items()}
    if isinstance(x, (tuple, list)):
        return (type(x).__name__,) + tuple(_snap(v) for v in x)
    return (type(x).__name__, repr(x))


def _frame(before: Dict[str, Any], after: Dict[str, Any]) -> str:
    if before == after and list(before) == list(after):
        return "same"
    added = sorted(set(after) - set(before))
    removed = sorted(set(before) - set(after))
    changed = sorted(k for k in set(before) & set(after) if before[k] != after[k])
    out = []
    if added:
        out.append("added " + ",".join(f"{k}={after[k][3] if isinstance(after[k], tuple) and after[k][0] == 'tensor' else after[k][-1] if isinstance(after[k], tuple) else '...'}" for k in added))
    if removed:
        out.append("removed " + ",".join(removed))
    if changed:
        out.append("changed " + ",".join(changed))
    return "; ".join(out) or "reordered keys"


def hist_str(actions: List[Dict[str, Any]]) -> str:
    return " ".join(f"E({a['m']}/{a['pat']})" if a["a"] == "eval" else f"S({a['f']}={a['v']})" for a in actions)


def life_execute(real: Real, sc: Dict[str, Any]) -> Dict[str, Any]:
    l, style, p = sc["l"], sc["style"], dict(sc["init"])
    shared = life_build(real, l, p, style)          # ONE dict for the whole history
    keep = []                                       # fresh dicts stay alive: no id() re-use inside a history
    ev = []
    for a in sc["actions"]:
        if a["a"] == "set":
            p = life_set(l, p, a["f"], a["v"])
            new = life_build(real, l, p, style)
            for k in life_keys(l, a["f"], style):
                if k == "_parameters":
                    shared[k]["bias"] = new[k]["bias"]          # the owner writes INTO the nested dict
                else:
                    shared[k] = new[k]
            ev.append({"a": "set", "f": a["f"], "v": a["v"]})
        else:
            fn = {"m": a["m"], "l": l, "pat": a["pat"]}
            before = _snap(shared)
            res, pos, _ = real.evaluate_on(fn, shared)
            frame = _frame(before, _snap(shared))
            fresh_d = life_build(real, l, p, style)
            keep.append(fresh_d)
            fresh, _, _ = real.evaluate_on(fn, fresh_d)
            ev.append({"a": "eval", "m": a["m"], "pat": a["pat"], "res": res, "fresh": fresh, "pos": pos, "frame": frame})
    return {"kind": "life", "l": l, "init": sc["init"], "hist": hist_str(sc["actions"]), "ev": ev}


_NODE = re.compile(r'^-?\d+ \[label="((?:[^"\\]|\\.)*)"')


def life_scenarios_from_dump(path: str, maxlen: int, style: str) -> List[Dict[str, Any]]:
    """Every maximal history of CostLifeMC (states with Len(log) = MaxLen) as an abstract scenario; the initial
    descriptions are read from the initial states of the same dump."""
    inits: Dict[Tuple[str, int, int], Dict[str, int]] = {}
    leaves = []
    with open(path) as fh:
        for line in fh:
            m = _NODE.match(line)
            if not m:
                continue
            lab = m.group(1).replace("\\n", "\n").replace('\\"', '"').replace("\\\\", "\\")
            lg = re.search(r"log = (<<.*?>>)\n/\\ h = ", lab, re.S)
            l = re.search(r'/\\ l = "(\w+)"', lab).group(1)
            g = int(re.search(r"\bg \|-> (\d+)", lab).group(1))
            i0 = int(re.search(r"/\\ i0 = (\d+)", lab).group(1))
            if lg is None:
                raise tlc.MachineryError("CostLifeMC dump: cannot find the log in a state label")
            n = lg.group(1).count("a |->")
            if n == 0:
                inits[(l, g, i0)] = tlc.parse_state(lab)["p"]
            elif n == maxlen:
                leaves.append((l, g, i0, lg.group(1)))
    scen = []
    for l, g, i0, logtxt in leaves:
        acts = []
        for e in tlc.parse_value(logtxt):
            acts.append({"a": "eval", "m": e["m"], "pat": e["pat"]} if e["a"] == "eval" else {"a": "set", "f": e["f"], "v": e["v"]})
        scen.append({"kind": "life", "l": l, "g": g, "i0": i0, "style": style, "init": inits[(l, g, i0)], "actions": acts})
    return scen


# --------------------------------------------------------------------------------------------------
# boundary / outside of the supported domain (module CostDomainMC): every TLC state with every input type
# --------------------------------------------------------------------------------------------------
def point_variants(fn: Dict[str, str], p: Dict[str, int]) -> List[Tuple[str, bool]]:
    """(how precisions and the theta fraction are passed, does that type belong to the function's interface)."""
    m = fn["m"]
    if m not in RESTRICTED:
        return [("tensor", True)]
    integral = p["wf"] == 0 and p["af"] == 0
    # MPIC reads the precisions with .item(): only 0-d tensors are in its interface; NE16 / DIANA compare with ==
    # and their own unit tests pass python numbers
    out = [("tensor", True), ("pyfloat", m not in MPIC)]
    if integral and p["td"] in (0, 1):
        out.append(("pyint", m not in MPIC))
    return out


def point_spec(real: Real, fn: Dict[str, str], p: Dict[str, int], var: str) -> Dict[str, Any]:
    torch = real.torch
    sp = real.spec(fn, p)
    w, a = p["w"] + p["wf"] / 10.0, p["a"] + p["af"] / 10.0
    th = 1.0 / p["td"] if p["td"] else 0.0
    if var == "tensor":
        vals = {"w_precision": torch.tensor(w), "in_precision": torch.tensor(a), "a_precision": torch.tensor(a),
                "w_theta_alpha": torch.tensor(th, dtype=torch.float64)}
    elif var == "pyfloat":
        vals = {"w_precision": float(w), "in_precision": float(a), "a_precision": float(a), "w_theta_alpha": float(th)}
    else:
        vals = {"w_precision": int(p["w"]), "in_precision": int(p["a"]), "a_precision": int(p["a"]), "w_theta_alpha": int(th)}
    sp.update(vals)
    return sp


def points_scenarios_from_dump(path: str) -> List[Dict[str, Any]]:
    nodes, _, _ = tlc.parse_dot(path)
    by_fn: Dict[str, List[Dict[str, int]]] = {}
    for st in nodes.values():
        by_fn.setdefault(json.dumps(st["fn"], sort_keys=True), []).append(st["p"])
    scen = []
    for k in sorted(by_fn):
        fn = json.loads(k)
        pts, var, strict = [], [], []
        for q in sorted(by_fn[k], key=lambda d: json.dumps(d, sort_keys=True)):
            for v, ok in point_variants(fn, q):
                pts.append(q), var.append(v), strict.append(ok)
        scen.append({"kind": "points", "fn": fn, "pts": pts, "var": var, "strict": strict})
    return scen


def points_execute(real: Real, sc: Dict[str, Any]) -> Dict[str, Any]:
    fn = sc["fn"]
    obs, pos = [], []
    for q, v in zip(sc["pts"], sc["var"]):
        o, ps, _ = real.evaluate_on(fn, point_spec(real, fn, q, v))
        obs.append(o), pos.append(ps)
    sc["n_raised"] = sum(1 for o in obs if o == [-1])
    return {"kind": "points", "fn": fn, "pts": sc["pts"], "var": sc["var"], "strict": sc["strict"], "obs": obs, "pos": pos,
            "unit": list(obs_unit(fn["m"]))}


# --------------------------------------------------------------------------------------------------
def execute(real: Real, sc: Dict[str, Any]) -> Dict[str, Any]:
    """Run one abstract scenario on the real code -> trace (what TLC sees)."""
    k = sc["kind"]
    if k == "life":
        return life_execute(real, sc)
    if k == "points":
        return points_execute(real, sc)
    if k == "chain":
        fn = sc["fn"]
        if (fn["m"], fn["l"], fn["pat"]) not in real.fns:
            raise tlc.MachineryError(f"replay: function {fn} is not registered in this tree")
        obs, pos, notes, c32 = [], [], [], []
        do32 = len(sc["xs"]) <= 120          # float32 pass on all short chains (boundary sweeps, kernels, sizes, bits)
        for x in sc["xs"]:
            o, ps, note = real.evaluate(fn, _apply(sc["base"], sc["axis"], x))
            obs.append(o), pos.append(ps)
            if do32:
                c32.append(real.category32(fn, _apply(sc["base"], sc["axis"], x)))
            if note:
                notes.append(note)
        sc["varies"] = len({tuple(o) for o in obs}) > 1
        sc["notes"] = sorted(set(notes))[:3]
        return {"kind": "chain", "fn": fn, "base": sc["base"], "axis": sc["axis"], "xs": sc["xs"], "obs": obs, "pos": pos,
                "c32": c32, "unit": list(obs_unit(fn["m"]))}
    if k == "dw":
        fn = sc["fn"]
        gfn = dict(fn, pat="U")
        obs, gen = [], []
        for p in sc["pts"]:
            obs.append(real.evaluate(fn, p)[0])
            gen.append(real.evaluate(gfn, dict(p, cin=S, cout=S, g=1))[0])
        return {"kind": "dw", "fn": fn, "pts": sc["pts"], "obs": obs, "gen": gen, "unit": list(obs_unit(fn["m"]))}
    if k == "reject":
        obs = [real.evaluate(sc["fn"], p)[0] for p in sc["pts"]]
        sc["n_raised"] = sum(1 for o in obs if o == [-1])
        return {"kind": "reject", "fn": sc["fn"], "pts": sc["pts"], "obs": [o if o[0] < 0 else [0] for o in obs]}
    if k == "helper":
        return real.helper_table(sc["h"], sc["N"], sc["xs"], sc["gin"])
    if k == "registry":
        return {"kind": "registry", "fns": real.ids()}
    raise tlc.MachineryError(f"unknown scenario kind {k}")


def _key(sc: Dict[str, Any]) -> Any:
    return {k: v for k, v in sc.items() if k not in ("varies", "notes", "n_raised")}


def _nontrivial(sc: Dict[str, Any]) -> bool:
    if sc["kind"] == "chain":
        return bool(sc.get("varies")) and len(sc["xs"]) >= 2
    if sc["kind"] == "reject":
        return sc.get("n_raised", 0) > 0
    return sc["kind"] in ("dw", "helper", "life", "points")


def _n_points(sc: Dict[str, Any]) -> int:
    if sc["kind"] == "life":
        return 2 * sum(1 for a in sc["actions"] if a["a"] == "eval")
    if sc["kind"] == "points":
        return len(sc["pts"])
    return len(sc.get("xs", sc.get("pts", [0])))


def _self_test(traces: List[Dict[str, Any]], verdicts: List[str]) -> int:
    """Corrupt one logged field of traces that TLC ACCEPTED: the trace specification must reject each of them with
    the expected clause (non-vacuity of the trace level; independent of what the tree under test does)."""
    okt = [t for t, v in zip(traces, verdicts) if v == "ok"]
    cp = lambda t: json.loads(json.dumps(t))                            # noqa: E731
    bad = []
    ch = next((t for t in okt if t["kind"] == "chain" and len(t["xs"]) > 20 and t["axis"] in ("cin", "cout", "c", "ox")), None)
    if ch is not None:
        t1 = cp(ch)
        t1["obs"][10] = limbs(10 ** 20)                    # a bump in the middle of a chain
        bad.append(("C16.monotone", t1))
        t2 = cp(ch)
        t2["obs"][3] = [-2]
        bad.append(("C16.finite", t2))
        t3 = cp(ch)
        t3["obs"] = [limbs(1)] * len(t3["obs"])            # monotone, positive, but not the model's values
        bad.append(("drift:", t3))
        t8 = cp(ch)
        t8["obs"][0], t8["pos"][0] = [0], False
        bad.append(("C16.positive", t8))
    dw = next((t for t in okt if t["kind"] == "dw"), None)
    if dw is not None:
        t4 = cp(dw)
        t4["obs"][5] = limbs(int("".join(f"{x:04d}" for x in reversed(t4["obs"][5]))) + 16)
        bad.append(("C16.dw", t4))
    hp = next((t for t in okt if t["kind"] == "helper" and t["h"] == "ne16.DivAndCeilSTE" and t["N"] == 4), None)
    if hp is not None:
        t5 = cp(hp)
        t5["val"][t5["xs"].index(8 * S)] += S              # ceil(8/4) reported as 3
        bad.append(("C16.helper: not the exact ceiling", t5))
        t6 = cp(hp)
        t6["gout"][7] = 0
        bad.append(("C16.helper: gradient", t6))
    rj = next((t for t in okt if t["kind"] == "reject" and t["fn"]["m"] == "mpic_latency"), None)
    if rj is not None:
        t7 = cp(rj)
        t7["obs"][next(i for i, q in enumerate(t7["pts"]) if q["w"] == 3)] = [0]     # an undeclared precision accepted
        bad.append(("C16.reject", t7))
    lf = next((t for t in okt if t["kind"] == "life" and t["ev"][-1]["a"] == "eval" and t["ev"][-1]["res"][0] >= 0), None)
    if lf is not None:
        t9 = cp(lf)
        t9["ev"][-1]["frame"] = "added a_precision=8"
        bad.append(("C16.frame", t9))
        t10 = cp(lf)
        t10["ev"][-1]["res"] = limbs(123456789)
        bad.append(("C16.history", t10))
    lr = next((t for t in okt if t["kind"] == "life" and t["ev"][-1]["a"] == "eval" and t["ev"][-1]["res"] == [-1]), None)
    if lr is not None:
        t11 = cp(lr)
        t11["ev"][-1].update(res=[0], fresh=[0])           # a rejected description accepted after a history
        bad.append(("C16.reject", t11))
    pt = next((t for t in okt if t["kind"] == "points" and t["fn"]["m"] == "mpic_latency" and [-1] in t["obs"]), None)
    if pt is not None:
        t12 = cp(pt)
        j = next(i for i, q in enumerate(t12["pts"]) if q["wf"] != 0 and q["a"] == 8 and q["af"] == 0)
        t12["obs"][j], t12["pos"][j] = limbs(1234), True     # a fractional precision costed instead of rejected
        bad.append(("C16.reject", t12))
    pn = next((t for t in okt if t["kind"] == "points" and t["fn"]["m"] == "ne16_latency"), None)
    if pn is not None:
        t13 = cp(pn)
        j = next(i for i, q in enumerate(t13["pts"]) if q["td"] == 0 and q["w"] == 8 and q["a"] == 8 and q["af"] == 0)
        t13["obs"][j] = [-2]                                 # NaN at a theta fraction of exactly 0
        bad.append(("C16.finite", t13))
    if not bad:
        return 0
    vs, _ = tlc.validate_traces("CostModelsTrace", "CostModelsTrace", [b for _, b in bad], workers=4)
    for (want, _), v in zip(bad, vs):
        if not v.startswith(want):
            raise tlc.MachineryError(f"self-test: corrupted trace expected to be rejected with {want!r}, verdict {v!r}")
    return len(bad)


QUICK_DESIGN = ["CostModelsMC_quick_counts", "CostModelsMC_quick_hw", "CostModelsMC_quick_cin", "CostModelsMC_quick_cout"]
THOROUGH_DESIGN = ["CostModelsMC_thorough_counts", "CostModelsMC_thorough_hw", "CostModelsMC_thorough_cin",
                   "CostModelsMC_thorough_cout"]


def run(tier: str, seed: int, replay=None) -> int:
    R = Run("C16", tier, seed, level="model_checking")
    R.rule = ("scenario = (registered cost function, base layer description, axis): the real function is evaluated along the "
              "whole axis (channels 1..130 in quarter channels = 517 values, kernels {1,3,5,7}, output sizes 1..33, bits "
              "{0,2,4,8}) with every other field fixed; plus depthwise/generic tables, rejection tables of the restricted "
              "models and value/gradient tables of the rounding helpers. Non-trivial = the observed cost actually varies "
              "along the chain (a rejection table with at least one rejection; every dw / helper table). Plus histories on ONE "
              "shared description dict: every maximal history of CostLifeMC (first an evaluation, then evaluations of any "
              "registered function of the layer type / writes of one field, last an evaluation; length 3, thorough also 4), "
              "each call compared with the same call on a freshly built dict and the dict compared before/after the call.")
    R.assumptions = [
        "valid layer descriptions: >= 1 whole channel on each side (effective channel counts below 1 are outside the quantifier), "
        "depthwise functions only on in = out = groups, NE16 kernels 1x1/3x3, DIANA (w,a) in {(2,8),(8,8)}",
        "cost functions are evaluated with float64 0-d tensors for (effective) channel counts so that all integer-valued models "
        "are exact; float32 round-off of very large costs is not examined",
        "exactness of a ceiling helper is claimed for integral arguments; for fractional arguments the clause is 'integer within "
        "one of the exact quotient' (DivAndCeilSTE(16.5, 16) = 1, FloorSTE(4.5, 4) = 1 are accepted)",
        "tolerances: MPIC cycles 2/16000 cycle, MPIC energy relative 1e-6, DIANA 1/160 cycle; all other models exact",
        "histories: the shared description is built like an MPS layer's (activation precision under 'in_precision' only; thorough "
        "also descriptions that carry diana's 'a_precision' as well); field writes replace dictionary entries (bias: inside the nested '_parameters' dict)",
        "NE16 does not declare a weight-precision restriction (w = 3, 16 accepted, w = 0 returns 0 before any check): not claimed",
    ]
    real = Real()

    if replay:
        sc = json.load(open(replay))["scenario"]
        tr = execute(real, sc)
        R.validate("CostModelsTrace", "CostModelsTrace", [tr], [sc], key=_key)
        return R.finish()

    # 1. design level (TLC runs in a background thread while the real functions are evaluated below) ------
    grow = ["GrowCin", "GrowCout", "GrowC", "GrowKx", "GrowKy", "GrowOx", "GrowOy", "GrowW", "GrowA"]
    design_err: List[BaseException] = []

    life_cfgs = [("CostLifeMC_quick", 3)] + ([("CostLifeMC_thorough", 4)] if tier != "quick" else [])
    life_dumps: List[Tuple[str, int, int]] = []
    life_ready = threading.Event()
    dom_dump: List[str] = []

    # two background threads, each with its OWN Run object for the bookkeeping (merged below; no shared counters)
    RA, RB = Run("C16", tier, seed), Run("C16", tier, seed)

    def _design_life() -> None:
        try:
            # boundary / outside of the supported domain: one-step enumeration, replayed by the main thread
            dot = tempfile.mktemp(prefix="c16-dom-", suffix=".dot", dir=tlc.scratch())
            RA.design("CostDomainMC", "CostDomainMC_quick", workers=4, dump_dot=dot)
            dom_dump.append(dot)
            # histories on one shared description: enumerated first, the dump is replayed by the main thread
            for cfg, maxlen in life_cfgs:
                dot = tempfile.mktemp(prefix="c16-life-", suffix=".dot", dir=tlc.scratch())
                res = RA.design("CostLifeMC", cfg, workers=4, dump_dot=dot, timeout=3000)
                life_dumps.append((dot, maxlen, res.distinct))
            life_ready.set()
            # sanity: the three impure variants and "no evaluation is ever rejected" must FAIL
            for cfg in ("CostLifeMC_setdefault", "CostLifeMC_memo_id", "CostLifeMC_pop", "CostLifeMC_rejects"):
                RA.design("CostLifeMC", cfg, expect_ok=False, workers=2)
            # sanity: int() coercion before the table look-up / NE16 without the theta = 0 guard must FAIL
            RA.design("CostDomainMC", "CostDomainMC_trunc", expect_ok=False, workers=2)
            RA.design("CostDomainMC", "CostDomainMC_div0", expect_ok=False, workers=2)
            # non-vacuity: the grids reach the plateaus of the tile functions -> the strict property must fail;
            # for fractional arguments the ceiling idioms are not exact ceilings -> that invariant must fail
            RA.design("CostModelsMC", "CostModelsMC_strict", expect_ok=False, workers=2)
            RA.design("CostModelsMC", "CostModelsMC_fracceil", expect_ok=False, workers=2)
        except BaseException as e:                                      # noqa: BLE001
            design_err.append(e)
            life_ready.set()

    def _design_models() -> None:
        try:
            # vacuity guard: every Grow action is taken (small all-model configuration with coverage on)
            RB.design("CostModelsMC", "CostModelsMC_cov", workers=4, coverage=True,
                      require_cov=[f"CostModelsMC!{a}" for a in grow + ["GrowK13"]])
            for cfg in (QUICK_DESIGN if tier == "quick" else THOROUGH_DESIGN):
                RB.design("CostModelsMC", cfg, workers=8, timeout=6000)
        except BaseException as e:                                      # noqa: BLE001
            design_err.append(e)

    threads = [threading.Thread(target=_design_life, daemon=True), threading.Thread(target=_design_models, daemon=True)]
    for th in threads:
        th.start()

    # 2. the real functions ------------------------------------------------------------------------
    ids = real.ids()
    known = [f for f in ids if "#" not in f["pat"] and f["pat"] in ("U", "dw") and f["l"] in ("conv1d", "conv2d", "linear")
             and f["m"] in FIVEWAY + ["gap8_latency", "ne16_latency", "diana_latency"]]
    scen: List[Dict[str, Any]] = [{"kind": "registry"}]
    scen += chain_scenarios(known, tier, seed)
    scen += dw_scenarios([f for f in known if dict(f, pat="U") in known], tier, seed)
    scen += reject_scenarios(known)
    scen += helper_scenarios(sorted(real.helpers), tier)
    traces = [execute(real, sc) for sc in scen]
    n_pts = sum(_n_points(sc) for sc in scen)
    R.extra["cost_functions_registered"] = len(ids)
    R.extra["points_evaluated_on_real_code"] = n_pts
    R.extra["traces_by_kind"] = {k: sum(1 for s in scen if s["kind"] == k) for k in ("chain", "dw", "reject", "helper", "registry")}
    ex = next(s for s in scen if s["kind"] == "chain" and s["fn"]["m"] == "ne16_latency" and s["axis"] == "cout")
    tx = traces[scen.index(ex)]
    R.sample({"scenario": {k: ex[k] for k in ("fn", "base", "axis")}, "xs[120:132]": ex["xs"][120:132],
              "observed (limbs, unit 1/4 cycle)": tx["obs"][120:132]})
    ex = next(s for s in scen if s["kind"] == "helper" and s["h"] == "ne16.DivAndCeilSTE" and s["N"] == 16)
    tx = traces[scen.index(ex)]
    R.sample({"scenario": {"helper": ex["h"], "N": 16, "gin": ex["gin"]}, "xs (quarters)": tx["xs"][60:70], "val*4": tx["val"][60:70],
              "gout": tx["gout"][60:70]})

    # 3. histories on one shared dict (CostLife): every maximal history TLC enumerated ---------------------
    life_ready.wait()
    if design_err:
        raise design_err[0]
    lscen: List[Dict[str, Any]] = []
    for dot, maxlen, distinct in life_dumps:
        part = life_scenarios_from_dump(dot, maxlen, "mps")
        if not part:
            raise tlc.MachineryError("CostLifeMC dump contains no maximal history")
        lscen += part
        if maxlen == 3 and tier != "quick":       # descriptions that also carry diana's own key, on the histories that ask diana
            lscen += [dict(sc, style="both") for sc in part if any(a.get("m") == "diana_latency" for a in sc["actions"])]
    if not dom_dump:
        raise tlc.MachineryError("CostDomainMC produced no dump")
    pscen = points_scenarios_from_dump(dom_dump[0])
    R.extra["boundary_domain_points"] = sum(len(sc["pts"]) for sc in pscen)
    lscen += pscen                                  # validated together with the histories
    ltraces = [execute(real, sc) for sc in lscen]
    R.extra["histories_on_shared_description"] = sum(1 for sc in lscen if sc["kind"] == "life")
    R.extra["evaluations_in_histories"] = sum(_n_points(sc) for sc in lscen)
    n_pts += R.extra["evaluations_in_histories"]
    R.extra["points_evaluated_on_real_code"] = n_pts
    ex = next(i for i, sc in enumerate(lscen) if sc["kind"] == "life" and sc["actions"][0].get("m") == "diana_latency"
              and sc["actions"][1].get("f") == "a")
    R.sample({"scenario": {k: lscen[ex][k] for k in ("l", "style", "init", "actions")}, "observed": ltraces[ex]["ev"]})

    for th in threads:
        th.join()
    if design_err:
        raise design_err[0]
    for X in (RA, RB):
        R.states += X.states
        R.transitions += X.transitions
        R.design_runs += X.design_runs
    allv = R.validate("CostModelsTrace", "CostModelsTrace", traces + ltraces, scen + lscen, nontrivial=_nontrivial, key=_key,
                      label="real cost functions: axis chains / tables + histories on one shared description",
                      workers=8, chunk=40000)
    verdicts, lverdicts = allv[:len(traces)], allv[len(traces):]
    R.extra["corrupted_traces_rejected"] = _self_test(traces + ltraces, verdicts + lverdicts)
    R.evaluations = n_pts
    R.exhaustive = False
    return R.finish()
