"""C09 (MPS half) + last sentence of C05: channel pruning by the 0-bit weight precision of a PER_CHANNEL mixed-precision
search.  Specs: MPSFeat (library, EXTENDS FeatGraph), MPSFeatMC (design level), MPSFeatTrace (trace validation).

spec -> code : TLC grows every architecture of the bounded grammar (as FeatGraphMC does, 1-D and 2-D), seals it and chooses
               every per-channel zero / non-zero pattern of every prunable sharing component; the dumped states are built
               for real (archgen.GrammarNet -> plinio MPS, PER_CHANNEL, candidates (0, 2, 8)) and the pattern is written
               into the raw coefficients of the key layer of every component.
code -> spec : what the real model then reports (summary), is charged for (input_features_calculator, what the cost
               functions are shown, the params_bit cost of every layer, again after one more channel was pruned), emits
               (zero pattern of every layer output) and exports (parts of every exported layer, a run of the exported
               network) is logged; TLC (MPSFeatTrace) recomputes the alive pattern that reaches every layer from the logged
               architecture and the observed selected precisions with the operators of FeatGraph / MPSFeat and compares.
               Seeded random architectures / patterns beyond the bounds (up to ~10 nodes, widths <= 6, 3-input concats,
               exclusions, strides) are validated the same way.

`add_to_run(R, tier, seed)` feeds everything into a given harness.core.Run (called by the C09 check);
`run(tier, seed, replay)` is the stand-alone entry (`./check C09_MPS`).
"""
from __future__ import annotations

import copy
import json
import random
import time
from typing import Any, Dict, List

from .. import mpsfeat_gen as G
from .. import pitgen, tlc
from ..core import Run, use_repo

RULE = ("MPS scenario = (architecture, weight-search type and candidate precisions, per-layer set of channels whose weight "
        "precision is 0, mode eval / hard-sampling); sources: every 'masked' state TLC enumerates for MPSFeatMC (grammar "
        "architectures of <= 3 operator nodes in the quick tier, <= 4 in the thorough tier, 1-D and 2-D, width 2 x every "
        "zero/non-zero pattern of every prunable sharing component; stratified sample of the dump where it is large) and seeded "
        "random architectures / patterns beyond the bounds. Non-trivial = at least one channel is observed at 0 bit; distinct = "
        "canonical JSON of the scenario.")
ASSUMPTIONS = [
    "MPS: the search prunes only with w_search_type = PER_CHANNEL and 0 among the weight candidates; shared quantizers on "
    "(disable_shared_quantizers=True is documented for searches without the 0-bit precision and is not generated); "
    "no layer reuse, no sigmoid; 1-D networks without BatchNorm (MPS folds BatchNorm for Conv2d / Linear only)",
    "MPS: 'alive' = selected weight precision non-zero (summary()); bound to the tensors by the observed zero pattern of every "
    "layer output in the forward pass (a channel at 0 bit must be exactly zero; the converse is not required: a PACT "
    "quantiser may clamp an alive channel to zero)",
    "MPS: feature counts are exact (|x1000 - 1000 n| <= 1); layer costs are float32, logged x1000: |lc*C - 1000*Num| <= C + Num/500; "
    "the per-precision weighting of the layer cost (n_j / C, finding F05 of C05) is taken as implemented, the clauses decide the "
    "input-feature factor only",
    "MPS: export() keeps pruned channels as an explicit 0-bit sub-layer of a QuantList, so 'exported with' is decided as: the "
    "precision classes of the exported layer hold exactly the alive / pruned channels, every part has the input width of the "
    "tensor that reaches it, the exported network runs and returns the original output shape. Whether the exported network "
    "computes the same function (QuantList regroups channels by precision) is recorded as an observation only",
]


def _key(sc):
    return {k: v for k, v in sc.items() if not k.startswith("_")}


def _sig(st) -> str:
    return ",".join(sorted(n["op"] + ("d" if n["dw"] else "") + ("x" if n["excl"] else "") for n in st["arch"]["nodes"]))


def _state_scenarios(states, rng: random.Random, limit: int, src: str, small_all: int = 0):
    """'masked' states -> scenarios; all states with <= small_all nodes, a sample of the rest stratified by op multiset."""
    masked = [s for s in states if s["phase"] == "masked"]
    keep = [s for s in masked if len(s["arch"]["nodes"]) <= small_all]
    rest = [s for s in masked if len(s["arch"]["nodes"]) > small_all]
    if limit and len(rest) > limit:
        buckets: Dict[str, list] = {}
        for s in rest:
            buckets.setdefault(_sig(s), []).append(s)
        keys = sorted(buckets)
        out = []
        while len(out) < limit and keys:
            for k in list(keys):
                b = buckets[k]
                if not b:
                    keys.remove(k)
                    continue
                out.append(b.pop(rng.randrange(len(b))))
                if len(out) >= limit:
                    break
        rest = out
    scs = []
    for i, s in enumerate(keep + rest):
        scs.append(G.scenario_from_state(s, mode="hard" if rng.random() < 0.15 else "eval", seed=rng.randrange(10 ** 6),
                                         variant=True, check_mask=(i % 40 == 0), export=True, src=src))
    return scs, len(masked)


def _corrupt(tr, rng):
    """A copy of an accepted trace with ONE observed field changed; the trace spec must reject it."""
    c = copy.deepcopy(tr)
    kinds = ["told", "pr_in", "pr_out", "lc", "oe", "nz", "su_w", "cost"]
    if c["E"]["done"] and c["E"]["ok"] and c["E"]["L"]:
        kinds += ["e_out", "e_in", "shape"]
    if c["V"]["done"]:
        kinds += ["v_lc"]
    kind = rng.choice(kinds)
    r = rng.choice(c["L"])
    if kind == "told":
        r["told"] += 1000
    elif kind == "pr_in":
        r["pr_in"] += 1000
    elif kind == "pr_out":
        r["pr_out"] += 1000
    elif kind == "lc":
        r["lc"] += max(500, r["lc"] // 20)
    elif kind == "oe":
        r["oe"] += 1000
    elif kind == "nz":
        dead = [i for i, b in enumerate(r["su_w"]) if b == 0]
        if not dead:
            return None, kind
        r["nz"][dead[0]] = 1
    elif kind == "su_w":
        alive = [i for i, b in enumerate(r["su_w"]) if b != 0]
        if not alive or 0 not in r["cand_w"]:
            return None, kind
        r["su_w"][alive[0]] = 0
        r["am_w"][alive[0]] = 0
    elif kind == "cost":
        c["cost_pb"] += max(1000, c["cost_pb"] // 50)
    elif kind == "e_out":
        e = rng.choice(c["E"]["L"])
        e["parts"][0]["out"] += 1
    elif kind == "e_in":
        e = rng.choice(c["E"]["L"])
        e["parts"][0]["in"] += 1
    elif kind == "shape":
        c["E"]["shape_ok"] = False
    elif kind == "v_lc":
        v = rng.choice(c["V"]["L"])
        base = [l for l in c["L"] if l["n"] == v["n"]][0]
        v["lc"] = base["lc"] + 2000          # pruning one more channel RAISED the cost of a layer
    return c, kind


def add_to_run(R: Run, tier: str, seed: int, *, tlc_workers: int = 8, procs: int = 8) -> None:
    """Design runs + replay of TLC states + seeded random scenarios of the MPS half of C09, fed into R."""
    use_repo()
    quick = tier == "quick"
    rng = random.Random(seed * 6151 + 909)
    kw = {"workers": tlc_workers}
    scs: List[Dict[str, Any]] = []
    replay_info = []
    # ---------------------------------------------------------------- design level (must pass) + dumps for the replay
    plan = [("MPSFeatMC_quick2d", 300 if quick else 0, 2, "tlc-mps-2d"), ("MPSFeatMC_quick1d", 200 if quick else 0, 2, "tlc-mps-1d")]
    if not quick:
        plan += [("MPSFeatMC_thorough2d", 3500, 0, "tlc-mps-2d-4"), ("MPSFeatMC_thorough1d", 2500, 0, "tlc-mps-1d-4"),
                 ("MPSFeatMC_thorough_w23", 1500, 0, "tlc-mps-2d-w23")]
    first = True
    for cfg, limit, small_all, src in plan:
        k2 = dict(kw)
        if first:
            k2.update({"coverage": True, "require_cov": ["FeatGraphMC!Grow", "MPSFeatMC!MSealAndChoose"]})
            first = False
        states = pitgen.dump_states("MPSFeatMC", cfg, R, timeout=3600, **k2)
        s_, n_masked = _state_scenarios(states, rng, limit, src, small_all)
        scs += s_
        replay_info.append({"cfg": cfg, "masked_states": n_masked, "replayed": len(s_)})
    # 4 operator nodes (no exclusions / extras): design level only in the quick tier
    R.design("MPSFeatMC", "MPSFeatMC_n4_2d", timeout=3600, **kw)
    if not quick:
        R.design("MPSFeatMC", "MPSFeatMC_n4_1d", timeout=3600, **kw)
        R.design("MPSFeatMC", "MPSFeatMC_thorough_cat3", timeout=3600, **kw)       # concats of three tensors
    # sanity (non-vacuity), all expected to FAIL: without the Supported() guard both C09 invariants break (the topologies
    # of F60 / F61); an exporter that drops the 0-bit class breaks shape consistency; without the export guard the
    # as-implemented 1-D export fails; some state prunes an input of a conv AND of a linear AND of a depthwise consumer
    def must_violate(cfg, names):
        res = R.design("MPSFeatMC", cfg, expect_ok=False, cont=True, **kw)
        got = {v["name"] for v in res.violations}
        if not set(names) <= got:
            raise tlc.MachineryError(f"sanity config {cfg}: expected violations of {sorted(names)}, TLC reported {sorted(got)}")
    must_violate("MPSFeatMC_asis", ["MInvToldIsActual", "MInvAddAligned"])
    must_violate("MPSFeatMC_dropzero", ["MInvExportShape"])
    must_violate("MPSFeatMC_noguard", ["MInvExportBuilds"])
    must_violate("MPSFeatMC_wit", ["NoPrunedConvInput", "NoPrunedLinInput", "NoPrunedDwInput"])
    # ---------------------------------------------------------------- seeded random scenarios beyond the bounds
    n_rand = 260 if quick else 4500
    for i in range(n_rand):
        sc = G.random_scenario(rng, max_nodes=8 if quick else 10)
        sc["src"] = "random-mps"
        sc["check_mask"] = (i % 50 == 0)
        scs.append(sc)
    t0 = time.time()
    traces = G.run_scenarios(scs, procs=procs)
    exec_s = round(time.time() - t0, 1)
    for sc, tr in zip(scs, traces):
        sc["_nt"] = any(0 in l["su_w"] for l in tr["L"])
    verdicts = R.validate("MPSFeatTrace", "MPSFeatTrace", traces, scs, nontrivial=lambda s: s["_nt"], key=_key,
                          label="MPS: replay of MPSFeatMC states + seeded random scenarios", workers=tlc_workers, chunk=2000)
    by_src: Dict[str, int] = {}
    for s in scs:
        by_src[s["src"]] = by_src.get(s["src"], 0) + 1
    exported = [t for t in traces if t["E"]["done"] and t["E"]["ok"] and t["E"]["run_ok"]]
    info = {
        "exec_wall_s": exec_s, "replay": replay_info, "scenarios_by_source": by_src,
        "constructor_raised": sum(1 for t in traces if not t["build_ok"]),
        "export_ran": len(exported),
        "export_equal_to_eval_model (observation, QuantList regroups channels)": sum(1 for t in exported if t["E"]["equal"]),
        "variants_pruned_one_more": sum(1 for t in traces if t["V"]["done"]),
        "verdict_ok": sum(1 for v in verdicts if v == "ok"),
    }
    ok_i = [i for i, v in enumerate(verdicts) if v == "ok" and traces[i]["L"]]
    for i in ok_i[:: max(1, len(ok_i) // 2)][:2]:
        s, t = scs[i], traces[i]
        R.sample({"scenario": {k: s.get(k) for k in ("arch", "cfg", "dead", "mode", "src")},
                  "observed": {"L": [{k: l[k] for k in ("n", "su_w", "told", "pr_in", "pr_out", "lc", "nz")} for l in t["L"]],
                               "E": {k: t["E"][k] for k in ("ok", "run_ok", "shape_ok", "equal")},
                               "E.parts": [[e["n"], [(p["prec"], p["in"], p["out"]) for p in e["parts"]]] for e in t["E"]["L"]],
                               "V": {"p": t["V"]["p"], "c": t["V"]["c"], "lc": [[l["n"], l["lc"]] for l in t["V"]["L"]]}}})
    # ---------------------------------------------------------------- sensitivity of the trace spec
    crng = random.Random(seed + 4177)
    pick = ok_i if len(ok_i) <= 40 else sorted(crng.sample(ok_i, 40))
    cor = []
    for i in pick:
        c, kind = _corrupt(traces[i], crng)
        if c is not None:
            cor.append((c, kind))
    if cor:
        cv, _ = tlc.validate_traces("MPSFeatTrace", "MPSFeatTrace", [c for c, _ in cor], workers=tlc_workers)
        missed = [k for (c, k), v in zip(cor, cv) if v == "ok" or v.startswith("drift:")]
        info["corrupted_traces_rejected"] = f"{len(cor) - len(missed)}/{len(cor)}"
        if missed:
            raise tlc.MachineryError(f"sensitivity self-test: corrupted traces accepted by MPSFeatTrace (fields: {missed})")
    info["rule"] = RULE
    R.extra["mps"] = info
    if RULE not in R.rule:
        R.rule = (R.rule + " || " if R.rule else "") + RULE
    for a in ASSUMPTIONS:
        if a not in R.assumptions:
            R.assumptions.append(a)


def run(tier: str, seed: int, replay=None) -> int:
    R = Run("C09_MPS", tier, seed, level="model_checking")
    use_repo()
    if replay:
        sc = _key(json.load(open(replay))["scenario"])
        tr = G.run_scenarios([sc], procs=1)
        R.rule, R.assumptions = RULE, list(ASSUMPTIONS)
        R.validate("MPSFeatTrace", "MPSFeatTrace", tr, [sc], key=_key)
        return R.finish()
    add_to_run(R, tier, seed)
    R.exhaustive = False
    return R.finish()
