"""C18 - export(), summary(), cost and get_cost() are observers: they do not change the NAS model.

spec -> code : ObserversMC (Impl = "ref") is explored to closure by TLC for the three kinds of model, in two halves of the
               control state: "modes" (calls {export, export(add_bn=False), summary, cost, get_cost(n), cost_specification := c,
               forward, train(), eval()}) and "options" (calls {export, summary, cost, forward, every single option call that
               changes an option: update_softmax_options(temperature | hard | gumbel | disable_sampling = v), PIT
               train_features / train_rf / train_dilation / discrete_cost := v}).  Both labelled state graphs are dumped and
               EVERY edge (abstract state x call) is executed on real PIT, MPS (per-layer, per-channel) and SuperNet models
               along walks from freshly constructed models, with full_cost on and off.  History configurations make TLC
               enumerate EVERY call sequence up to length 3 (quick) / 5 (thorough) of either half and check the erasure
               property and the specification round trip.
code -> spec : after every call the harness takes an observer-neutral fingerprint of the real object (state_dict bytes by
               class, stored sampled coefficients, all .training flags, requires_grad vector, outputs on a fixed batch, every
               cost, summary, the options stored in every quantiser / combiner / PIT layer and the sampler in force classified
               by behaviour, deep-copyability, public attribute key sets - everything that executes model code runs on a
               faithful deep copy) and, for every non-observer call, the fingerprint of a second object on which the same
               sequence WITHOUT the observer calls is run.  TLC (ObserversTrace) validates every step: observers change
               nothing, the setter changes the costs only, full run = erased run, cost and export are functions of (core,
               options, specification), with the same Observers operators.  Seeded random sequences (length 5..14, all calls
               of both halves mixed, other temperatures) on further model variants go through the same trace spec.
"""
from __future__ import annotations

import json
import random
import tempfile
from typing import Any, Dict, List

from ..core import Run, canon, use_repo
from .. import tlc
from ..tlc import MachineryError
from .. import ckobs
from .c11 import _covering_walks

OBS = ckobs.OBSERVER_OPS


def _parse_label(lab: str) -> Dict[str, Any]:
    lab = lab.strip()
    if lab.startswith("Upd(") and lab.endswith(")"):
        o, v = tlc.parse_value("<<" + lab[4:-1] + ">>")
        return {"a": "upd", "o": o, "v": int(v)}
    if lab == "FreezeBN":
        return {"a": "freezebn"}
    if not (lab.startswith("Do(") and lab.endswith(")")):
        raise MachineryError(f"edge label {lab!r}")
    return dict(tlc.parse_value(lab[3:-1]))


def _init_of(kind: str, st: Dict[str, Any], fc: bool, half: str) -> Dict[str, Any]:
    """constructor arguments of an initial state.  modes half: the wrapper exactly as constructed (no mode call: PIT / MPS
    take the mode of the user's network, SuperNet leaves the layers in eval mode under a wrapper flag that is True);
    options half: followed by an explicit nas.train() / nas.eval()."""
    opt, core = st["core"]["opt"], st["core"]
    init = {"hard": bool(opt["hard"]), "gumbel": bool(opt["gumbel"]), "cs": st["cs"], "fc": fc, "raw": True}
    if half == "modes":
        init["train"] = bool(core["st"]) if kind != "sn" else True
    else:
        init["train"] = bool(core["wt"])
        init["setmode"] = bool(core["wt"])
    return init


OPTS = {"pit": ["tf", "trf", "td", "dc"], "mps": ["temp", "hard", "gumbel", "disable"], "sn": ["temp", "hard"]}


def _random_scenario(kind: str, variant: str, rng: random.Random, length: int) -> Dict[str, Any]:
    init = {"train": rng.random() < 0.7, "hard": kind != "pit" and rng.random() < 0.3,
            "gumbel": kind == "sn" and rng.random() < 0.3,
            "cs": rng.choice(["A", "A", "D", "B"]), "fc": rng.random() < 0.5, "raw": True}
    if rng.random() < 0.4:
        init["setmode"] = rng.random() < 0.6
    cs = init["cs"]
    acts: List[Dict[str, Any]] = []
    for _ in range(length):
        u = rng.random()
        if u < 0.20:
            acts.append({"a": "export", "nobn": kind == "pit" and rng.random() < 0.3})
        elif u < 0.29:
            acts.append({"a": "summary"})
        elif u < 0.35:
            acts.append({"a": "inspect"})
        elif u < 0.49:
            acts.append({"a": "cost"} if cs != "D" else {"a": "getcost", "n": rng.choice(["a", "b"])})
        elif u < 0.57:
            cs = rng.choice([c for c in ("A", "B", "D") if c != cs])
            how = rng.choice(["s", "f", "f", "i"])
            acts.append({"a": "setcs", "c": cs, "how": how if not (how == "i" and cs == "D") else "f"})
        elif u < 0.70:
            acts.append({"a": "forward"})
        elif u < 0.77:
            acts.append({"a": "mode", "v": rng.random() < 0.5})
        elif u < 0.83:
            acts.append({"a": "seedmode", "v": rng.random() < 0.5})
        elif u < 0.87 and kind != "mps":
            acts.append({"a": "freezebn"})
        else:
            o = rng.choice(OPTS[kind])
            acts.append({"a": "upd", "o": o, "v": rng.choice([250, 500, 1000, 2000, 4000]) if o == "temp" else rng.randint(0, 1)})
    return {"kind": kind, "variant": variant, "init": init, "wseed": rng.randint(0, 999), "acts": acts, "src": "random"}


def _corruption_sanity(traces: List[Dict[str, Any]], strict: bool = True) -> None:
    """non-vacuity of the trace specification: corrupted copies of a recorded (accepted) trace must be rejected with the
    right clause.  The corruption is injected at a summary() call before which the model was still deep-copyable."""
    import copy

    def spot(t):
        prev = t["init"]
        for i, e in enumerate(t["ev"]):
            if e["act"]["a"] == "summary" and prev["copy_ok"] and e["obs"]["copy_ok"] and any(x["ref"]["has"] for x in t["ev"]):
                return i
            prev = e["obs"]
        return None
    base = next((t for t in traces if spot(t) is not None), None)
    if base is None:
        if strict:
            raise MachineryError("C18: no trace with a summary() call on a copyable model and a non-observer call")
        return
    k = spot(base)
    j = next(i for i, e in enumerate(base["ev"]) if e["ref"]["has"])
    muts = []

    def bump(t, frm, field):
        for e in t["ev"][frm:]:
            e["obs"][field] += 1000
    t = copy.deepcopy(base); bump(t, k, "pnet"); muts.append(("C18.neutral", t))
    t = copy.deepcopy(base); bump(t, k, "cost"); muts.append(("C18.neutral", t))
    t = copy.deepcopy(base); t["ev"][j]["ref"]["obs"] = dict(t["ev"][j]["ref"]["obs"], out=t["ev"][j]["ref"]["obs"]["out"] + 1000)
    muts.append(("C18.erasure", t))
    t = copy.deepcopy(base); t["ev"][k]["err"] = "RuntimeError: injected"; muts.append(("C18.raises", t))
    t = copy.deepcopy(base); bump(t, k, "dkeys")
    t["ev"][k]["dk"] = {"new": [{"m": "Conv2d", "k": "injected", "nas": False}], "nnew": 1, "del": [], "ndel": 0}
    muts.append(("C18.usable", t))
    t = copy.deepcopy(base)
    for e in t["ev"][k:]:
        e["obs"]["copy_ok"] = False
    muts.append(("C18.usable", t))
    # a cost read whose gradient differs from the gradient twin's
    gb = next(((t, i) for t in traces for i, e in enumerate(t["ev"]) if e["tw"]["has"]), None)
    if gb is not None:
        t = copy.deepcopy(gb[0]); t["ev"][gb[1]]["ret"]["g"] += 1000; muts.append(("C18.gradlink", t))
        t = copy.deepcopy(gb[0]); t["ev"][gb[1]]["ret"]["rg"] = not t["ev"][gb[1]]["ret"]["rg"]; muts.append(("C18.gradlink", t))
    elif strict:
        raise MachineryError("C18: no trace with a cost read compared with the gradient twin")
    t = copy.deepcopy(base); bump(t, k, "glink"); muts.append(("C18.gradlink", t))
    verdicts, _ = tlc.validate_traces("ObserversTrace", "ObserversTrace", [m for _, m in muts], workers=2)
    for (want, _), v in zip(muts, verdicts):
        if not v.startswith(want):
            raise MachineryError(f"C18 trace specification accepted a corrupted trace: expected {want}, verdict {v[:120]}")


def _key(sc):
    return {k: sc[k] for k in ("kind", "variant", "init", "wseed", "acts")}


def run(tier: str, seed: int, replay=None) -> int:
    R = Run("C18", tier, seed, level="model_checking")
    R.rule = ("scenario = (kind of model, model variant, constructor arguments {initial mode, hard_softmax, Gumbel sampler "
              "(SuperNet), cost specification, full_cost}, sequence of calls over {export(), export(add_bn=False), summary(), cost, "
              "get_cost(name), cost_specification := A|B|{a:A,b:B}, forward, train(), eval(), update_softmax_options(one option), "
              "PIT train_features / train_rf / train_dilation / discrete_cost := v}).  The sequences are walks from initial states "
              "that cover EVERY edge of the two state graphs (modes half, options half) TLC computes to closure for ObserversMC "
              "per kind, executed on real models (thorough: a complete edge cover per variant x full_cost in the modes half and per "
              "variant in the options half; quick: one complete cover per kind and half, variant and full_cost alternating over its walks); plus seeded random sequences mixing all calls on further "
              "variants.  Every scenario is executed on three objects (full; without observer calls; without observer calls except the cost reads).  Non-trivial = the sequence "
              "contains an observer call that is followed by a later call.")
    R.assumptions = [
        "CPU, one thread, float32; Gumbel sampling included: the full run and the erased run each own a random stream that is "
        "saved / restored around every call and observation, so both see the same noise",
        "the two halves of the control state (modes / BatchNorm counter / cost specification; option record / sampler) are "
        "explored separately at design level (they are independent in the model); the random sequences mix them",
        "'the sampler in force' is classified by behaviour on a copy (theta_alpha untouched = none, depends on the random stream "
        "= gumbel, else softmax), for every quantiser / combiner with more than one alternative; stored options (temperature, "
        "hard, gumbel, disable_sampling; PIT getters and per-layer flags) are read from the live object",
        "the random stream is NOT among the compared components: export() of PIT/MPS initialises the re-created layers with "
        "the global RNG; the harness restores the RNG state after every observer call and records the fact (evidence: "
        "observer_calls_that_advanced_rng)",
        "outputs are compared to float round-off: |a-b| <= 1e-6*(1+max|a|) in float32 (bit-identical in every run so far)",
        "everything that executes model code for the fingerprint (probing forward passes, cost, summary) runs on a deep copy "
        "in which non-leaf tensors held as buffers/attributes are replaced by their detached selves (that is how a grad-enabled "
        "forward leaves every MPS model; not an effect of observers)",
        "gradient link: (a) per quantiser / combiner, requires_grad of the stored theta_alpha and the gradient of a fixed linear "
        "functional of it w.r.t. alpha (pure torch on the stored tensors, retain_graph) are part of the fingerprint; (b) every cost "
        "read of the full run records requires_grad and the gradient w.r.t. every parameter (torch.autograd.grad, retain_graph, no "
        ".grad written) and is compared with the same read on a third object that made the non-observer calls and the cost reads "
        "only; the erased run and the gradient twin use the built-in specification objects",
        "'usable' = after an observer call (a) a strict copy.deepcopy (only detaching non-leaf tensors) still succeeds if it did "
        "before and (b) vars() of every module has the same PUBLIC key set (names not starting with '_'; private caches / memos "
        "are not compared) as before the call",
        "architectural coefficients are made generic (distinct) before the initial forward pass; 'cost specification A/B' = "
        "params/ops (PIT, SuperNet) or params_bit/ops_bit (MPS), D = the dictionary of both",
        "concrete models are a fixed family (1-D TCN with fused BN / strided conv / shared add group, 2-D CNN with stand-alone "
        "BN, flatten-before-classifier CNN with depthwise conv, fold_bn; MPS residual and sequential nets, per-layer / "
        "per-channel / 0-bit; SuperNet with two blocks), not all grammar architectures",
    ]
    use_repo()

    if replay:
        sc = json.load(open(replay))["scenario"]
        tr = ckobs.run_c18(sc)
        R.validate("ObserversTrace", "ObserversTrace", [tr], [sc], key=_key)
        return R.finish()

    quick = tier == "quick"
    sfx = "quick" if quick else "thorough"
    rng = random.Random(seed)
    variants = {"pit": ["tcn", "cnn2d"], "mps": ["layer", "channel"], "sn": ["std"]} if quick else \
               {"pit": ["tcn", "cnn2d", "flat", "tcn_foldbn"], "mps": ["layer", "channel", "channel0", "seq"], "sn": ["std"]}
    maxlen = 24 if quick else 32
    scen: List[Dict[str, Any]] = []
    graph_info = {}
    edges_total = 0
    need = {"modes": {"export", "summary", "cost", "getcost", "inspect", "setcs", "forward", "mode", "seedmode"},
            "options": {"export", "summary", "cost", "forward", "upd"}}
    for kind in ("pit", "mps", "sn"):
        for half, tag in (("modes", ""), ("options", "opt")):
            # 1. design level: closure + every sequence up to MaxLen, for both halves of the control state
            dot = tempfile.mktemp(prefix=f"c18-{kind}-{half}-", suffix=".dot", dir=tlc.scratch())
            res = R.design("ObserversMC", f"ObserversMC_{kind}_{tag + '_' if tag else ''}{sfx}", dump_dot=dot, workers=4)
            R.design("ObserversMC", f"ObserversMC_{kind}_{tag}seq_{sfx}", workers=4 if quick else 8)
            nodes, edges, init = tlc.parse_dot(dot)
            if len(nodes) != res.distinct or not init:
                raise MachineryError(f"dump of {kind}/{half}: {len(nodes)} states, TLC reported {res.distinct}")
            cid = {n: canon(st) for n, st in nodes.items()}
            nodes = {cid[n]: st for n, st in nodes.items()}
            edges = sorted((cid[s], cid[d], lab) for s, d, lab in edges)
            init = sorted(cid[n] for n in init)
            calls = [_parse_label(lab) for _, _, lab in edges]
            kinds_seen = {c["a"] for c in calls}
            if not (need[half] | ({"freezebn"} if half == "modes" and kind != "mps" else set())) <= kinds_seen:
                raise MachineryError(f"vacuity guard: calls {need[half] - kinds_seen} never taken in ObserversMC/{kind}/{half}")
            if half == "options" and {c["o"] for c in calls if c["a"] == "upd"} != set(OPTS[kind]):
                raise MachineryError(f"vacuity guard: not every option of {kind} is changed in ObserversMC/{kind}/options")
            graph_info[f"{kind}/{half}"] = {"states": len(nodes), "edges": len(edges), "initial": len(init)}
            # 2. spec -> code: complete edge covers.  thorough: one per (variant, full_cost); quick: full_cost alternates
            #    over the variants (modes half; SuperNet, one variant: both) / one cover per variant, full_cost alternating
            #    (options half)
            # thorough: a complete edge cover per (variant, full_cost) in the modes half, per variant (full_cost alternating
            # over the walks) in the options half; quick: ONE complete cover per kind and half, the variant and full_cost
            # alternating over its walks
            if quick:
                plans = [(None, None)]
            elif half == "modes":
                plans = [(v, fc) for v in variants[kind] for fc in (False, True)]
            else:
                plans = [(v, None) for v in variants[kind]]     # options half: full_cost alternates over the walks
            for variant0, fc0 in plans:
                    walks = _covering_walks(nodes, edges, init, maxlen, random.Random(seed * 7919 + len(scen)))
                    covered = set()
                    for wi, (start, walk) in enumerate(walks):
                        covered.update(walk)
                        variant = variant0 if variant0 is not None else variants[kind][wi % len(variants[kind])]
                        fc = fc0 if fc0 is not None else bool((wi // len(variants[kind])) % 2)
                        scen.append({"kind": kind, "variant": variant, "init": _init_of(kind, nodes[start], fc, half),
                                     "wseed": seed, "acts": [calls[k] for k in walk], "src": "graph", "half": half})
                    if len(covered) != len(edges):
                        raise MachineryError(f"{kind}/{variant0}/{half}: walks cover {len(covered)} of {len(edges)} edges")
                    edges_total += len(edges)
    # sanity (non-vacuity): the literal model of the pinned export violates the invariants / action properties,
    # and with the candidate repair of F16 the MPS model still re-samples its coefficients (F35)
    R.design("ObserversMC", "ObserversMC_pit_pinned", expect_ok=False, workers=2)
    R.design("ObserversMC", "ObserversMC_sn_pinned_neutral", expect_ok=False, workers=2)
    R.design("ObserversMC", "ObserversMC_pit_pinned_seq", expect_ok=False, workers=2)
    R.design("ObserversMC", "ObserversMC_mps_f16", expect_ok=False, workers=2)
    # ... and a cost computation that updates the live vars(module) adds attributes (F36 / F37): not neutral, not erasable
    R.design("ObserversMC", "ObserversMC_mps_costkeys", expect_ok=False, workers=2)
    R.design("ObserversMC", "ObserversMC_sn_costkeys_seq", expect_ok=False, workers=2)
    # ... and an export() that switches sampling back ON instead of back to what it was changes the options
    R.design("ObserversMC", "ObserversMC_mps_optreset", expect_ok=False, workers=2)
    R.design("ObserversMC", "ObserversMC_mps_optreset_seq", expect_ok=False, workers=2)
    # ... and an export() that puts the inner model in the mode of the WRAPPER instead of the mode it had is seen right
    # after SuperNet(...) (wrapper flag True, layers in eval mode)
    R.design("ObserversMC", "ObserversMC_sn_wrapmode", expect_ok=False, workers=2)
    R.design("ObserversMC", "ObserversMC_sn_wrapmode_seq", expect_ok=False, workers=2)
    # ... and an export() that restores ONE flag for the whole inner model thaws individually frozen BatchNorm layers
    R.design("ObserversMC", "ObserversMC_pit_rootmode", expect_ok=False, workers=2)
    R.design("ObserversMC", "ObserversMC_pit_rootmode_seq", expect_ok=False, workers=2)
    # ... and an export() that puts the stored coefficients back by VALUE cuts the autograd link to the parameters
    R.design("ObserversMC", "ObserversMC_mps_valuesonly", expect_ok=False, workers=2)
    R.design("ObserversMC", "ObserversMC_sn_valuesonly_seq", expect_ok=False, workers=2)

    # 3. code -> spec: random sequences on all variants
    n_rand = 10 if quick else 150
    for kind in ("pit", "mps", "sn"):
        vs = ckobs.VARIANTS[kind]
        for i in range(n_rand * (2 if kind != "sn" else 1)):
            scen.append(_random_scenario(kind, vs[i % len(vs)], rng, rng.randint(5, 14)))

    by_kind = {k: [s for s in scen if s["kind"] == k] for k in ("pit", "mps", "sn")}
    scen = [by_kind[k][i] for i in range(max(map(len, by_kind.values()))) for k in ("pit", "mps", "sn")
            if i < len(by_kind[k])]
    traces = ckobs.run_pool("run_c18", scen, procs=8)

    def nontrivial(sc):
        a = [x["a"] in OBS for x in sc["acts"]]
        return any(a[:-1])

    n_graph = sum(1 for s in scen if s["src"] == "graph")
    calls_n = sum(len(s["acts"]) for s in scen)
    obs_calls = sum(1 for s in scen for a in s["acts"] if a["a"] in OBS)
    R.sample({"scenario": {k: scen[0][k] for k in ("kind", "variant", "init")} | {"acts": scen[0]["acts"][:6]},
              "observed_initial": traces[0]["init"], "after_first_call": traces[0]["ev"][0]["obs"] if traces[0]["ev"] else None})
    j = next(i for i, s in enumerate(scen) if s["kind"] == "mps")
    R.sample({"scenario": {k: scen[j][k] for k in ("kind", "variant", "init")} | {"acts": scen[j]["acts"][:4]},
              "first_returned_values": [e["ret"] for e in traces[j]["ev"][:4]]})
    R.extra.update({
        "graphs": graph_info, "edges_replayed_on_real_models": edges_total, "graph_walks": n_graph,
        "random_sequences": len(scen) - n_graph, "calls_executed": calls_n, "observer_calls_executed": obs_calls,
        "erased_runs_compared_at_calls": sum(1 for t in traces for e in t["ev"] if e["ref"]["has"]),
        "cost_reads_compared_with_gradient_twin": sum(1 for t in traces for e in t["ev"] if e["tw"]["has"]),
        "cost_reads_that_require_grad": sum(1 for t in traces for e in t["ev"] if e["tw"]["has"] and e["ret"]["rg"]),
        "setter_calls_fresh_object": sum(1 for t in traces for e in t["ev"] if e["act"]["a"] == "setcs" and e["act"]["how"] == "f"),
        "setter_calls_own_object_in_place": sum(1 for t in traces for e in t["ev"] if e["act"]["a"] == "setcs" and e["act"]["how"] == "i"),
        "observer_calls_that_advanced_rng": sum(1 for t in traces for e in t["ev"] if e["rngadv"] and e["act"]["a"] in OBS),
        "observer_calls_after_which_model_not_deepcopyable": sum(
            1 for t in traces for p, e in zip([t["init"]] + [x["obs"] for x in t["ev"]], t["ev"])
            if e["act"]["a"] in OBS and p["copy_ok"] and not e["obs"]["copy_ok"]),
        "observer_calls_that_added_public_attributes": sum(1 for t in traces for e in t["ev"]
                                                          if e["act"]["a"] in OBS and e["dk"]["nnew"] > 0),
        "attributes_added_by_observer_calls": sorted({f'{x["m"]}.{x["k"]}' for t in traces for e in t["ev"]
                                                      if e["act"]["a"] in OBS for x in e["dk"]["new"]})[:40],
        "outputs_equal_only_to_roundoff": sum(1 for t in traces for e in t["ev"]
                                              if e["obs"]["out"] != e["obs"]["outx"] or e["obs"]["oute"] != e["obs"]["outex"]),
    })
    verdicts = R.validate("ObserversTrace", "ObserversTrace", traces, scen, nontrivial=nontrivial, key=_key,
                          label="graph walks + random sequences", chunk=300, workers=8)
    # corrupted copies of ACCEPTED traces must be rejected (skipped only if the tree under test has no accepted trace)
    accepted = [t for t, v in zip(traces, verdicts) if v == "ok" or v.startswith(("known:", "drift:"))]
    if accepted:
        _corruption_sanity(accepted, strict=len(accepted) == len(traces))
    R.evaluations = calls_n
    R.exhaustive = True
    return R.finish()
