"""C13 - quantisers emit values that fit their declared bit-width and scale.

design level : QuantMC (TLC, exhaustive): the integer-grid models of QuantArith (MinMaxWeight, PACTAct,
               QuantizerBias, DummyQuantizer) satisfy every clause of the property on every grid point, i.e. on and
               next to every level boundary, for bits 0,2,3,4,8 (thorough: 0,2..8); four expected-to-fail
               configurations (isclose zero test = F11, round instead of floor, no top clip, no zero mask) show that
               the invariants are not vacuous.
spec -> code : the same grids are laid over float32 inputs (power-of-two scales make every grid point, exact ties
               included, exactly representable; generic scales are used off the boundaries) and run through the REAL
               quantisers with dequantize False and True.
code -> spec : every run (grids, +-1/+-3 ulp around every level boundary, seeded random float32 tensors of the
               property's domain) is reduced with exact rational arithmetic to integers (levels, grid coordinates)
               and booleans (numeric facts TLC cannot compute: fake = int*scale, error < step, out <= in) and TLC
               (QuantTrace) decides range / zero / common top level / monotonicity / the boolean clauses and
               recomputes the level with the QuantArith operators wherever the level is decidable on the grid.

life cycle   : QuantLifeMC (TLC, to closure): one quantiser OBJECT under every sequence of SetMode / SetGrad /
               SetDeq / SetPrec / Call(same | in-place modified | fresh tensor); the state carries the configuration
               of the previous call, so every ordered pair of call configurations x tensor relation is an edge.
               Invariant HistoryIndependent; three cache transcriptions with an incomplete key must violate it, the
               complete key must pass.  EVERY edge of the dumped graphs is replayed (covering walks) on real
               MinMaxWeight (weights as nn.Parameter of a Conv2d and as plain tensors), PACTAct and QuantizerBias
               objects; QuantTrace re-derives the abstract state with the QuantLife operators and, at every Call,
               checks the configuration read back from the object, ALL per-call clauses for the CURRENT precision and
               dequantize flag, and bit-identity with a freshly constructed quantiser on the same data.

Stated tolerances (DESIGN 5/C13):
  * fake = int x reported scale: relative 2^-20 (float32 round-off of one product); PACT additionally 2e-3/clip
    (its stabiliser: it divides by (clip+1e-3)/(2^p-1) but reports clip/(2^p-1)).
  * PACT truncation: out <= in*(1+2^-22)  (float32: floor(sf*x) with sf*x rounded up to the integer).
  * PACT error: |in-out| < reported step*(1+2e-3/clip) + in*2^-22.
  * bias error clause only where |b/scale| < 2^22 (beyond, float32 cannot resolve one step).
  * level = model level only where the exact quotient is the grid point itself or >= 2^-10 away from every
    rounding boundary; a mismatch there is SPEC-DRIFT, not a violation (the property does not prescribe the
    rounding rule of the weight / bias quantiser).
"""
from __future__ import annotations

import collections
import hashlib
import json
import math
import random
import re
import struct
import tempfile
import time
from fractions import Fraction as Fr

from ..core import Run, use_repo
from .. import tlc

CAP = 2 ** 30
# (no special JVM options needed: QuantTrace validates life-cycle histories without recursion)
TLC_ENV = None
EPS_FAKE = Fr(1, 2 ** 20)
EPS_TRUNC = Fr(1, 2 ** 22)
MARGIN = Fr(1, 2 ** 10)
TINY = Fr(1e-8) * (1 + Fr(1, 2 ** 20))
BIG = 2 ** 22


# ------------------------------------------------------------------------------------------------
# float32 helpers (no torch needed)
# ------------------------------------------------------------------------------------------------
def f32(x: float) -> float:
    """round a python float to float32 (returned as the exactly equal python float)"""
    return struct.unpack("f", struct.pack("f", x))[0]


def nextafter32(x: float, k: int) -> float:
    """the float32 k ulps above (k>0) / below (k<0) the float32 x"""
    i = struct.unpack("i", struct.pack("f", x))[0]
    if i < 0:
        i = -(i & 0x7FFFFFFF)
    i += k
    if i < 0:
        i = (-i) | -0x80000000
    return struct.unpack("f", struct.pack("i", i))[0]


def _fin(v: float) -> bool:
    return not (math.isnan(v) or math.isinf(v))


def _lev(v: float):
    """(is finite integer, exact integer level, level capped for TLC)"""
    if not _fin(v) or v != math.floor(v):
        return False, 0, 0
    l = int(v)
    return True, l, max(-CAP, min(CAP, l))


def _cap(n: int) -> int:
    return max(-CAP, min(CAP, n))


def _dist_int(q: Fr) -> Fr:
    f = q - math.floor(q)
    return min(f, 1 - f)


def _wn(q: Fr) -> int:
    """grid coordinate (1/8 step) of quotient q such that RNE(n, 8) = round-half-even(q) whenever q is not an
    exact tie: floor(8q), moved off a tie coordinate when q itself is not the tie"""
    q8 = 8 * q
    f = math.floor(q8)
    if f % 8 == 4 and q8 != f:
        f += 1
    return f


# ------------------------------------------------------------------------------------------------
# the real quantisers
# ------------------------------------------------------------------------------------------------
class Real:
    def __init__(self):
        use_repo()
        import torch
        from plinio.methods.mps.quant.quantizers import MinMaxWeight, PACTAct, QuantizerBias, DummyQuantizer
        self.torch = torch
        torch.set_num_threads(1)          # tiny tensors: thread-pool wake-ups dominate otherwise (14 ms per max())
        self.MinMaxWeight, self.PACTAct, self.QuantizerBias, self.DummyQuantizer = \
            MinMaxWeight, PACTAct, QuantizerBias, DummyQuantizer

    def T(self, rows):
        return self.torch.tensor(rows, dtype=self.torch.float32)

    def weight(self, p, rows, shape=None):
        """-> (int rows, fake rows, reported scale per channel); `shape` = N-d weight shape (C, ...) or None"""
        t = self.T(rows)
        if shape:
            t = t.reshape(shape)
        out = []
        scale = None
        for deq in (False, True):
            q = self.MinMaxWeight(p, t.shape[0], dequantize=deq)
            y = q(t.clone()).detach()
            if tuple(y.shape) != tuple(t.shape):
                raise _Shape(f"MinMaxWeight output shape {tuple(y.shape)} for input {tuple(t.shape)}")
            out.append(y.double().reshape(t.shape[0], -1).tolist())
            s = q.scale.detach().double().reshape(-1).tolist()
            if scale is not None and s != scale:
                raise _Shape("MinMaxWeight.scale differs between dequantize=False and True")
            scale = s
        if len(scale) != t.shape[0]:
            raise _Shape(f"MinMaxWeight.scale has {len(scale)} entries for {t.shape[0]} channels")
        return out[0], out[1], scale

    def weight_scale(self, p, rows):
        t = self.T(rows)
        q = self.MinMaxWeight(p, t.shape[0], dequantize=True)
        q(t.clone())
        return q.scale.detach().clone()

    def act(self, p, clip, xs, shape=None):
        t = self.T(xs)
        if shape:
            t = t.reshape(shape)
        out = []
        scale = clipv = None
        for deq in (False, True):
            q = self.PACTAct(p, init_clip_val=clip, dequantize=deq)
            y = q(t.clone()).detach()
            if tuple(y.shape) != tuple(t.shape):
                raise _Shape("PACTAct output shape")
            out.append(y.double().reshape(-1).tolist())
            scale = float(q.scale.detach().double())
            clipv = float(q.clip_val.detach().double()[0])
        dfl = float((self.torch.tensor(clipv, dtype=self.torch.float32) + 1e-3).double())
        return out[0], out[1], scale, clipv, dfl

    def act_scale(self, p, clip):
        return self.PACTAct(p, init_clip_val=clip).scale.detach().clone()

    def dummy_scale(self):
        return self.DummyQuantizer(8).scale.detach().clone()

    def bias(self, b, s_a, s_w):
        t = self.T(b)
        out = []
        scale = None
        for deq in (False, True):
            q = self.QuantizerBias(32, len(b), dequantize=deq)
            y = q(t.clone(), s_a.clone(), s_w.clone()).detach()
            if tuple(y.shape) != tuple(t.shape):
                raise _Shape("QuantizerBias output shape")
            out.append(y.double().tolist())
            s = q.scale.detach().double()
            s = s.expand(len(b)).tolist() if s.dim() == 0 else s.reshape(-1).tolist()
            scale = s
        return out[0], out[1], scale

    def dummy(self, xs):
        t = self.T(xs)
        q = self.DummyQuantizer(8)
        y = q(t)
        same = tuple(y.shape) == tuple(t.shape) and \
            bool(self.torch.equal(y.detach().view(self.torch.int32), t.view(self.torch.int32)))
        return y.detach().double().reshape(-1).tolist(), same, float(q.scale) == 1.0


class _Shape(Exception):
    """the quantiser returned something of the wrong shape: reported as a violation of the scenario"""


# ------------------------------------------------------------------------------------------------
# reduction of one observation to integers / booleans (exact rational arithmetic)
# ------------------------------------------------------------------------------------------------
def reduce_w_channel(p, xs, ints, fakes, scale):
    sfin = _fin(scale)
    S = Fr(scale) if sfin else Fr(0)
    el_ = []
    nb = 0
    for x, yi, yf in zip(xs, ints, fakes):
        X = Fr(x)
        ii, lev, levc = _lev(yi)
        fin = _fin(yf)
        F = Fr(yf) if fin else Fr(0)
        fk = fin and ii and sfin and abs(F - lev * S) <= EPS_FAKE * abs(lev * S)
        nlo = nhi = 0
        if p == 0:
            n, cmp_, ex, el = 0, True, False, True
        elif sfin and S > 0:
            q = X / S
            n = _wn(q)
            nlo, nhi = _cap(math.floor(8 * q)), _cap(math.ceil(8 * q))
            ex = (q == Fr(n, 8))
            dist = abs((q - Fr(1, 2)) - round(q - Fr(1, 2)))       # distance to the nearest k + 1/2
            cmp_ = abs(n) < CAP and (ex or dist >= MARGIN)
            if dist <= Fr(1, 8):
                nb += 1
            el = ii and abs(X - lev * S) < S
            if abs(n) >= CAP:
                n = 0
        else:
            n, cmp_, ex, el = 0, False, False, False
        el_.append((X, {"n": n, "nlo": nlo, "nhi": nhi, "cmp": cmp_, "ex": ex, "lev": levc, "ii": ii, "fin": fin,
                        "fk": fk, "el": el, "fz": fin and yf == 0}))
    el_.sort(key=lambda t: t[0])
    return {"szero": sfin and scale == 0, "spos": sfin and scale > 0, "e": [e for _, e in el_]}, nb


def reduce_a(p, clipv, dfl, scale, xs, ints, fakes):
    """fakes = None: only the integer output was observed (life-cycle calls with dequantize=False); the clauses
    on the fake output are then evaluated on lev*reported scale with the fake=int*scale tolerance composed in."""
    int_only = fakes is None
    if int_only:
        fakes = [0.0] * len(xs)
    L = 2 ** p - 1
    C = Fr(clipv)
    S = Fr(scale) if _fin(scale) else Fr(0)
    spos = S > 0
    tol = Fr(2, 1000) / C
    sfx = L / Fr(dfl)
    qC = C * sfx
    clipN = math.floor(8 * qC)
    top_cmp = _dist_int(qC) >= MARGIN
    el_ = []
    nb = 0
    for x, yi, yf in zip(xs, ints, fakes):
        X = Fr(x)
        ii, lev, levc = _lev(yi)
        fin = _fin(yf)
        F = Fr(yf) if fin else Fr(0)
        neg, top = X <= 0, X >= C
        inr = (not neg or X == 0) and X <= C
        if int_only:
            F = lev * S
            fk = ii
            tr = F <= X * (1 + EPS_TRUNC)
            el = abs(X - F) < S * (1 + tol) + (tol + EPS_FAKE) * abs(F) + abs(X) * EPS_TRUNC
        else:
            fk = fin and ii and abs(F - lev * S) <= (tol + EPS_FAKE) * abs(lev * S)
            tr = fin and F <= X * (1 + EPS_TRUNC)
            el = fin and abs(X - F) < S * (1 + tol) + abs(X) * EPS_TRUNC
        q = X * sfx
        n = math.floor(8 * q)
        n = _cap(n)
        nr = _cap(math.floor(8 * X * (1 + EPS_TRUNC) / S)) if spos else -1     # stated tolerance folded in
        if neg:
            cmp_ = True
        elif top:
            cmp_ = top_cmp
        else:
            cmp_ = _dist_int(q) >= MARGIN
        if not neg and _dist_int(min(q, qC)) <= Fr(1, 8):
            nb += 1
        el_.append((X, {"n": n, "nr": nr, "cmp": cmp_, "lev": levc, "ii": ii, "fin": fin, "neg": neg, "top": top,
                        "inr": inr,
                        "fk": fk, "tr": tr, "el": el, "fz": (lev == 0 and ii) if int_only else (fin and yf == 0)}))
    el_.sort(key=lambda t: t[0])
    return {"k": "a", "p": p, "clipN": clipN, "spos": spos, "e": [e for _, e in el_]}, nb


def reduce_b(bs, ints, fakes, scales, s_a, s_w, grid=None):
    """grid: optional list of (nb, ns) exact integer coordinates per element"""
    distinct = sorted({s for s in scales if _fin(s)})
    sid_of = {s: i + 1 for i, s in enumerate(distinct)}
    SA = Fr(s_a)
    el_ = []
    ntiny = 0
    for c, (b, yi, yf, sc) in enumerate(zip(bs, ints, fakes, scales)):
        B = Fr(b)
        sfin = _fin(sc)
        S = Fr(sc) if sfin else Fr(0)
        want = SA * Fr(s_w[c])
        sc_ok = sfin and abs(S - want) <= Fr(1, 2 ** 22) * abs(want)
        ii, lev, levc = _lev(yi)
        fin = _fin(yf)
        F = Fr(yf) if fin else Fr(0)
        sz = sfin and S == 0
        tiny = sfin and 0 < S <= TINY
        fk = fin and ii and abs(F - lev * S) <= EPS_FAKE * abs(lev * S)
        nb_, ns_, cmp_, big, el = 0, 1, False, False, False
        nlo = nhi = 0
        if sfin and S > 0:
            q = B / S
            big = abs(q) >= BIG
            nlo, nhi = _cap(math.floor(8 * q)), _cap(math.ceil(8 * q))
            el = ii and abs(B - lev * S) < S
            if grid is not None:
                nb_, ns_ = grid[c]
                cmp_ = (q == Fr(nb_, ns_))
            elif abs(q) < 2 ** 13:
                nb_, ns_ = _wn(q), 8
                dist = abs((q - Fr(1, 2)) - round(q - Fr(1, 2)))
                cmp_ = (q == Fr(nb_, 8)) or dist >= MARGIN
        if tiny:
            ntiny += 1
        el_.append(((S, B), {"sid": sid_of.get(sc, 0), "nb": nb_, "ns": ns_, "nlo": nlo, "nhi": nhi, "cmp": cmp_,
                             "lev": levc, "ii": ii,
                             "fin": fin, "sz": sz, "tiny": tiny, "big": big, "fk": fk, "el": el, "sc": sc_ok,
                             "fz": fin and yf == 0}))
    el_.sort(key=lambda t: t[0])
    return {"k": "b", "e": [e for _, e in el_]}, ntiny


# ------------------------------------------------------------------------------------------------
# executing one scenario on the real code  ->  trace
# ------------------------------------------------------------------------------------------------
def execute(real: Real, sc):
    """sc is self-contained (all inputs are in it), so that --replay re-executes exactly the same thing.
    Returns (trace, info)."""
    k = sc["k"]
    try:
        if k == "life":
            return execute_life(real, sc)
        if k == "w":
            ints, fakes, scale = real.weight(sc["p"], sc["x"], sc.get("shape"))
            chans, nb = [], 0
            for xs, yi, yf, s in zip(sc["x"], ints, fakes, scale):
                ch, b = reduce_w_channel(sc["p"], xs, yi, yf, s)
                chans.append(ch)
                nb += b
            return {"k": "w", "p": sc["p"], "ch": chans}, {"boundary": nb}
        if k == "a":
            ints, fakes, scale, clipv, dfl = real.act(sc["p"], sc["clip"], sc["x"], sc.get("shape"))
            tr, nb = reduce_a(sc["p"], clipv, dfl, scale, sc["x"], ints, fakes)
            return tr, {"boundary": nb}
        if k == "b":
            torch = real.torch
            # the scales come from real weight / activation quantisers, as in the quantised layers
            # (q_b = b_quantizer(bias, in_quantizer.scale, w_quantizer.scale))
            sws = [real.weight_scale(g["p"], g["w"]) for g in sc["wq"]]
            s_w = torch.cat(sws)
            if sc["aq"]["kind"] == "pact":
                s_a = real.act_scale(sc["aq"]["p"], sc["aq"]["clip"])
            else:
                s_a = real.dummy_scale()
            ints, fakes, scales = real.bias(sc["b"], s_a, s_w)
            grid = [tuple(g) for g in sc["grid"]] if sc.get("grid") else None
            tr, ntiny = reduce_b(sc["b"], ints, fakes, scales, float(s_a.double()), s_w.double().tolist(), grid)
            return tr, {"tiny": ntiny}
        if k == "d":
            out, same, s1 = real.dummy(sc["x"])
            e = []
            for x, y in zip(sc["x"], out):
                ii, lev, levc = _lev(y)
                xi, n, _ = _lev(x)
                if xi and abs(n) < CAP:
                    e.append({"n": n, "lev": levc, "ii": ii})
            return {"k": "d", "same": same, "s1": s1, "e": e}, {"boundary": 0}
    except _Shape as ex:
        return {"k": "shape", "msg": str(ex)}, {"boundary": 0}
    raise tlc.MachineryError(f"unknown scenario kind {k}")


# ------------------------------------------------------------------------------------------------
# scenario generation
# ------------------------------------------------------------------------------------------------
def _digest(sc) -> str:
    return hashlib.sha1(json.dumps(sc, sort_keys=True).encode()).hexdigest()[:16]


def w_grid_scenarios(bits, exps, generic, rng):
    """spec -> code: the grid of QuantMC laid over float32 weights; one tensor per bit-width, one channel per
    scale.  Exact channels (scale 2^e): every coordinate incl. exact ties is representable.  Generic channels:
    random mantissa; plus +-1/+-3 ulp around every tie."""
    out = []
    for p in bits:
        pp = p if p != 0 else 4                    # 0 bits: quantise the 4-bit grid tensor, expect zeros
        Lp = 2 ** pp - 1
        M = 4 * Lp
        scales = []
        for e in exps:
            s = 2.0 ** e
            if s / 8 >= 2.0 ** -30 and Lp * s / 2 <= 2.0 ** 13:
                scales.append(s)
        for _ in range(generic):
            while True:
                s = f32(2.0 ** rng.uniform(-27, 14 - pp) * 1.0)
                if s / 8 >= 2.0 ** -30 and Lp * s / 2 <= 2.0 ** 13:
                    scales.append(s)
                    break
        rows = []
        for s in scales:
            row = [f32(n * s / 8) for n in range(-M, M + 1)]
            mx = max(abs(v) for v in row)
            for k in range(-(2 ** (pp - 1)), 2 ** (pp - 1)):
                t = f32((k + 0.5) * s)
                for u in (-3, -1, 1, 3):
                    v = nextafter32(t, u)
                    if abs(v) <= mx:
                        row.append(v)
            rows.append(row)
        w = max(len(r) for r in rows)
        rows = [r + [0.0] * (w - len(r)) for r in rows]
        out.append({"k": "w", "p": p, "gen": "grid", "scales": scales, "x": rows})
    return out


def a_grid_scenarios(bits, clips):
    out = []
    for p in bits:
        L = 2 ** p - 1
        for clip in clips:
            clipv = f32(clip)
            D = f32(clipv + f32(1e-3))
            xs = []
            for n in range(-8, 8 * L + 17):
                xs.append(f32(n * D / (8 * L)))
            for k in range(1, L + 1):
                t = f32(k * D / L)
                for u in (-3, -1, 1, 3):
                    xs.append(nextafter32(t, u))
            for u in (-3, -1, 0, 1, 3):
                xs.append(nextafter32(clipv, u))
            xs += [0.0, -0.0, -(2.0 ** -30), 2.0 ** -30, 2.0 ** 13, -(2.0 ** 13)]
            out.append({"k": "a", "p": p, "clip": clipv, "gen": "grid", "x": xs})
    return out


def b_grid_scenarios(cfgs, span):
    """cfgs: (p_w, ns_w, k_w, aq) with aq = ('pact', p_a, j, k_a) | ('dummy',).  s_w = ns_w*2^k_w exactly
    (channel max = ns_w*L*2^(k_w-1)), s_a = j*2^k_a exactly (clip = j*L_a*2^k_a), bias = nb * 2^(k_w+k_a)."""
    out = []
    for (pw, nsw, kw, aq) in cfgs:
        Lw = 2 ** pw - 1
        mx = nsw * Lw * 2.0 ** (kw - 1) if pw else 2.0 ** kw      # 0 bits: any weights, the scale is 0
        if aq[0] == "pact":
            _, pa, j, ka = aq
            clip = j * (2 ** pa - 1) * 2.0 ** ka
            if not (0.05 <= clip <= 1000):
                raise tlc.MachineryError(f"bias grid: clip {clip} outside the domain")
            aqd = {"kind": "pact", "p": pa, "clip": clip}
            ns, ku = nsw * j, kw + ka
        else:
            aqd = {"kind": "dummy"}
            ns, ku = nsw, kw
        if not (2.0 ** -30 <= mx <= 2.0 ** 13):
            raise tlc.MachineryError(f"bias grid: weight magnitude {mx} outside the domain")
        u = 2.0 ** ku
        nbs = [nb for nb in range(-span, span + 1) if nb == 0 or 2.0 ** -30 <= abs(nb) * u <= 2.0 ** 13]
        b = [nb * u for nb in nbs]
        if any(f32(v) != v for v in b) or f32(mx) != mx:
            raise tlc.MachineryError("bias grid: value not representable")
        w = [[mx, -mx / 2]] * len(b)
        out.append({"k": "b", "gen": "grid", "wq": [{"p": pw, "w": w}], "aq": aqd, "b": b,
                    "grid": [[nb, ns] for nb in nbs], "unit_log2": ku, "ns": ns})
    return out


def _mag(rng, lo=-30.0, hi=13.0):
    return f32(2.0 ** rng.uniform(lo, hi))


def _clamp_mag(v):
    if v == 0:
        return 0.0
    a = min(max(abs(v), 2.0 ** -30), 2.0 ** 13)
    return f32(math.copysign(a, v))


def _rand_w_channel(rng, kind, K, p):
    pp = p if p else rng.choice([2, 4, 8])
    if kind == "zero":
        return [0.0] * K
    if kind == "const":
        return [_mag(rng) * rng.choice([-1, 1])] * K
    if kind == "single":
        r = [0.0] * K
        r[rng.randrange(K)] = _mag(rng) * rng.choice([-1, 1])
        return r
    if kind == "boundary":
        # values on / 1-3 ulp around the ties of the scale the quantiser will derive from the channel maximum
        mx = _mag(rng, -20, 13)
        s = 2 * mx / (2 ** pp - 1)
        r = [mx * rng.choice([-1, 1])]
        while len(r) < K:
            k = rng.randrange(-(2 ** (pp - 1)), 2 ** (pp - 1))
            v = nextafter32(f32((k + 0.5) * s), rng.choice([-3, -1, 0, 1, 3]))
            if abs(v) <= mx and (v == 0 or abs(v) >= 2.0 ** -30):
                r.append(v)
        return r
    if kind == "narrow":
        c = _mag(rng, -29, 12)
        return [_clamp_mag(f32(c * rng.uniform(1, 2)) * rng.choice([-1, 1])) for _ in range(K)]
    if kind == "pos":
        c = rng.uniform(-30, 13)
        return [_mag(rng, max(-30, c - 8), c) for _ in range(K)]
    if kind == "gauss":
        sd = 2.0 ** rng.uniform(-12, 3)
        return [_clamp_mag(f32(rng.gauss(0, sd))) for _ in range(K)]
    # mixed-sign, wide dynamic range
    c = rng.uniform(-28, 13)
    return [_mag(rng, max(-30, c - rng.choice([2, 8, 20])), c) * rng.choice([-1, 1]) for _ in range(K)]


W_KINDS = ["mixed", "mixed", "gauss", "gauss", "const", "zero", "single", "boundary", "boundary", "narrow", "pos"]


def w_random_scenarios(rng, n):
    out = []
    for i in range(n):
        p = rng.choice([0, 2, 3, 4, 5, 6, 7, 8])
        C = rng.choice([1, 2, 3, 4, 6])
        K = rng.choice([1, 1, 2, 3, 9, 16, 27, 64])
        kinds = [rng.choice(W_KINDS) for _ in range(C)]
        rows = [_rand_w_channel(rng, kd, K, p) for kd in kinds]
        shape = {9: [C, 1, 3, 3], 16: [C, 4, 4], 27: [C, 3, 3, 3], 64: [C, 4, 4, 4]}.get(K) if rng.random() < 0.7 else None
        out.append({"k": "w", "p": p, "gen": "random", "kinds": kinds, "shape": shape, "x": rows})
    return out


def a_random_scenarios(rng, n):
    out = []
    for i in range(n):
        p = rng.choice([2, 3, 4, 5, 6, 7, 8])
        clip = f32(10 ** rng.uniform(math.log10(0.05), 3.0))
        L = 2 ** p - 1
        D = f32(clip + f32(1e-3))
        N = rng.choice([1, 8, 64, 96])
        xs = []
        for _ in range(N):
            r = rng.random()
            if r < 0.25:
                xs.append(_mag(rng) * rng.choice([-1, 1]))
            elif r < 0.55:
                xs.append(_clamp_mag(f32(rng.uniform(0, clip))))
            elif r < 0.8:
                k = rng.randrange(1, L + 1)
                xs.append(_clamp_mag(nextafter32(f32(k * D / L), rng.choice([-3, -2, -1, 0, 1, 2, 3]))))
            elif r < 0.9:
                xs.append(nextafter32(clip, rng.choice([-2, -1, 0, 1, 2])))
            elif r < 0.95:
                xs.append(rng.choice([0.0, -0.0]))
            else:
                xs.append(_clamp_mag(f32(clip * rng.uniform(1, 50))))
        shape = {8: [2, 4], 64: [2, 2, 4, 4], 96: [2, 3, 4, 4]}.get(N) if rng.random() < 0.7 else None
        out.append({"k": "a", "p": p, "clip": clip, "gen": "random", "shape": shape, "x": xs})
    return out


def b_random_scenarios(rng, n):
    out = []
    for i in range(n):
        groups = []
        C = 0
        for _ in range(rng.choice([1, 1, 2])):
            pw = rng.choice([0, 2, 3, 4, 5, 6, 7, 8])
            nd = rng.choice([1, 2, 3])
            base = [_rand_w_channel(rng, rng.choice(["mixed", "gauss", "gauss", "const", "narrow"]), 4, pw)
                    for _ in range(nd)]
            rows = [base[rng.randrange(nd)] for _ in range(rng.choice([2, 4, 6]))]
            groups.append({"p": pw, "w": rows})
            C += len(rows)
        if rng.random() < 0.8:
            aq = {"kind": "pact", "p": rng.choice([2, 3, 4, 5, 6, 7, 8]),
                  "clip": f32(10 ** rng.uniform(math.log10(0.05), 3.0))}
        else:
            aq = {"kind": "dummy"}
        c = rng.uniform(-30, 13)
        b = []
        for _ in range(C):
            b.append(0.0 if rng.random() < 0.1 else _mag(rng, max(-30, c - 12), c) * rng.choice([-1, 1]))
        out.append({"k": "b", "gen": "random", "wq": groups, "aq": aq, "b": b})
    return out


def d_scenarios(rng, n):
    out = [{"k": "d", "gen": "grid", "x": [float(v) for v in range(-8, 9)]}]
    for _ in range(n):
        out.append({"k": "d", "gen": "random",
                    "x": [rng.choice([0.0, float(rng.randrange(-4096, 4096)), _mag(rng) * rng.choice([-1, 1])])
                          for _ in range(16)]})
    return out


# bias grids: (p_w, ns_w, k_w, aq)
B_GRID_QUICK = [
    (8, 1, -4, ("dummy",)), (4, 3, -6, ("dummy",)), (2, 5, 0, ("dummy",)),
    (8, 1, -4, ("pact", 8, 1, -12)), (4, 3, -3, ("pact", 4, 1, -2)), (3, 1, -10, ("pact", 2, 7, -3)),
    (8, 1, -18, ("pact", 8, 1, -12)),      # s = 2^-30  (F11 region; 8-bit weights of max 4.9e-4, clip 0.062)
    (8, 3, -17, ("pact", 8, 1, -12)),      # s = 3*2^-29 = 5.6e-9 (F11 region)
    (8, 1, -14, ("pact", 8, 1, -12)),      # s = 2^-26 = 1.49e-8 (just above the isclose threshold)
    (4, 1, -20, ("pact", 4, 1, -6)),       # s = 2^-26
    (0, 1, 0, ("pact", 8, 1, -12)),        # 0-bit weights: scale exactly 0
    (0, 1, 0, ("dummy",)),
]
B_GRID_THOROUGH = B_GRID_QUICK + [
    (pw, nsw, kw, aq)
    for pw in (2, 3, 5, 6, 7, 8) for nsw in (1, 3, 7) for kw in (-24, -16, -9, -2, 2)
    for aq in (("dummy",), ("pact", 8, 1, -12), ("pact", 4, 5, -4), ("pact", 2, 3, 3))
    if 2.0 ** -30 <= nsw * (2 ** pw - 1) * 2.0 ** (kw - 1) <= 2.0 ** 13
]


# ------------------------------------------------------------------------------------------------
# life cycle of ONE quantiser object (QuantLife / QuantLifeMC): every edge of TLC's graph is replayed
# ------------------------------------------------------------------------------------------------
LIFE_PRECS = {"w": [8, 2, 0], "a": [8, 2], "b": [8, 0]}      # bias: precision of the weight quantiser whose
LIFE_PRECS4 = {"w": [8, 4, 2, 0]}                             # scale is fed (0 bits -> scale exactly 0)
LIFE_CLIP = 6.0


def parse_life_label(lab: str):
    m = re.match(r'\s*(\w+)\((.*)\)\s*$', lab)
    if not m:
        raise tlc.MachineryError(f"life graph: cannot parse edge label {lab!r}")
    name, arg = m.group(1), m.group(2).strip()
    if name in ("SetMode", "Call"):
        return name, arg.strip('"')
    if name in ("SetGrad", "SetDeq"):
        return name, arg == "TRUE"
    if name == "SetPrec":
        return name, int(arg)
    raise tlc.MachineryError(f"life graph: unknown action {lab!r}")


def covering_walks(nodes, edges, init, maxlen=80):
    """walks (each starting in an initial state of the graph) that together traverse EVERY edge.
    Returns [(init node id, [edge index ...])]."""
    out = {}
    for k, (u, v, lab) in enumerate(edges):
        out.setdefault(u, []).append((k, v, lab))
    for u in out:
        out[u].sort(key=lambda t: (t[2], t[1]))
    parent = {i: None for i in sorted(init)}
    depth = {i: 0 for i in parent}
    dq = collections.deque(sorted(init))
    while dq:
        u = dq.popleft()
        for k, v, _ in out.get(u, []):
            if v not in parent:
                parent[v] = (u, k)
                depth[v] = depth[u] + 1
                dq.append(v)
    if len(parent) != len(nodes):
        raise tlc.MachineryError("life graph: unreachable nodes in the dump")

    def path_to(u):
        ks = []
        while parent[u] is not None:
            u, k = parent[u]
            ks.append(k)
        return u, ks[::-1]

    uncovered = set(range(len(edges)))
    pending = sorted(uncovered, key=lambda k: (depth[edges[k][0]], edges[k][2], edges[k][0], edges[k][1]))
    walks = []
    pi = 0
    while uncovered:
        while pending[pi] not in uncovered:
            pi += 1
        u0 = edges[pending[pi]][0]
        root, walk = path_to(u0)
        cur = u0
        while len(walk) < maxlen:
            cand = [t for t in out.get(cur, []) if t[0] in uncovered and t[0] not in walk]
            if cand:
                k, v, _ = cand[0]
                walk.append(k)
                cur = v
                continue
            # nearest state with an untraversed outgoing edge
            seen = {cur: None}
            dq = collections.deque([cur])
            goal = None
            while dq and goal is None:
                x = dq.popleft()
                for k, v, _ in out.get(x, []):
                    if v not in seen:
                        seen[v] = (x, k)
                        if any(t[0] in uncovered and t[0] not in walk for t in out.get(v, [])):
                            goal = v
                            break
                        dq.append(v)
            if goal is None:
                break
            ks = []
            x = goal
            while seen[x] is not None:
                x, k = seen[x]
                ks.append(k)
            if len(walk) + len(ks) + 1 > maxlen:
                break
            walk += ks[::-1]
            cur = goal
        before = len(uncovered)
        uncovered.difference_update(walk)
        if len(uncovered) == before:
            raise tlc.MachineryError("life graph: covering walk makes no progress")
        walks.append((root, walk))
    return walks


def life_edge_scenarios(nodes, edges, init, q, holder, precs, seed, maxlen=80):
    scen = []
    walks = covering_walks(nodes, edges, init, maxlen)
    covered = set()
    for j, (root, walk) in enumerate(walks):
        st = nodes[root]["s"]
        covered.update(walk)
        scen.append({"k": "life", "gen": "edges", "q": q, "holder": holder, "precs": precs,
                     "init": {"deq": bool(st["deq"]), "pi": int(st["pi"])},
                     "acts": [list(parse_life_label(edges[k][2])) for k in walk],
                     "dseed": seed * 100003 + j})
    if len(covered) != len(edges):
        raise tlc.MachineryError(f"life graph: {len(covered)} of {len(edges)} edges covered")
    return scen


def life_random_scenarios(rng, n, length):
    """seeded random histories (same action alphabet), longer than the covering walks"""
    scen = []
    for j in range(n):
        q = rng.choice(["w", "w", "a", "b"])
        precs = rng.choice([LIFE_PRECS["w"], LIFE_PRECS4["w"]]) if q == "w" else LIFE_PRECS[q]
        st = {"mode": "train", "grad": True, "deq": rng.random() < 0.5, "pi": rng.randrange(1, len(precs) + 1)}
        init = {"deq": st["deq"], "pi": st["pi"]}
        has = False
        acts = []
        for _ in range(length):
            r = rng.random()
            if r < 0.45 or not acts:
                rel = rng.choice(["same", "same", "inplace", "fresh"]) if has else "fresh"
                acts.append(["Call", rel])
                has = True
            elif r < 0.6:
                st["mode"] = "eval" if st["mode"] == "train" else "train"
                acts.append(["SetMode", st["mode"]])
            elif r < 0.72:
                st["grad"] = not st["grad"]
                acts.append(["SetGrad", st["grad"]])
            elif r < 0.86:
                st["deq"] = not st["deq"]
                acts.append(["SetDeq", st["deq"]])
            else:
                st["pi"] = rng.choice([i for i in range(1, len(precs) + 1) if i != st["pi"]])
                acts.append(["SetPrec", st["pi"]])
        scen.append({"k": "life", "gen": "random", "q": q, "holder": rng.choice(["param", "plain"]) if q != "a" else "plain",
                     "precs": precs, "init": init, "acts": acts, "dseed": rng.randrange(2 ** 31)})
    return scen


def _life_split(deq, ys, s):
    """the single returned tensor under the CURRENT dequantize flag -> (integer output, fake output or None)"""
    if not deq:
        return list(ys), None
    ints = []
    for y in ys:
        if not _fin(y):
            ints.append(float("nan"))
        elif _fin(s) and s > 0:
            ints.append(float(round(Fr(y) / Fr(s))))        # the only integer the fake output can stand for
        else:
            ints.append(0.0 if y == 0 else float("nan"))
    return ints, list(ys)


class _LifeEnv:
    C_W, SHAPE_W = 2, (2, 2, 1, 2)
    N_A = 8
    C_B = 4

    def __init__(self, real: Real, q, holder, precs, deq, pi, rng):
        self.real, self.torch, self.kind, self.holder, self.precs, self.rng = real, real.torch, q, holder, precs, rng
        self.pi = pi
        self.t = None
        self.keep = None
        self.q = self.construct(deq)
        if q == "b":
            self.s_a = real.act_scale(8, LIFE_CLIP)
            wfix = [[0.75, -0.3], [0.75, 0.1], [-0.21, 0.05], [0.011, -0.21]]
            self.s_w = {i + 1: real.weight_scale(p, wfix) for i, p in enumerate(precs)}

    def construct(self, deq):
        p = self.precs[self.pi - 1]
        if self.kind == "w":
            return self.real.MinMaxWeight(p, self.C_W, dequantize=deq)
        if self.kind == "a":
            return self.real.PACTAct(p, init_clip_val=LIFE_CLIP, dequantize=deq)
        return self.real.QuantizerBias(32, self.C_B, dequantize=deq)

    def set_prec(self, i):
        self.pi = i
        if self.kind != "b":
            self.q.precision = self.precs[i - 1]

    def values(self):
        r = self.rng
        if self.kind == "w":
            sd = 2.0 ** r.uniform(-6, 1)
            return [_clamp_mag(f32(r.gauss(0, sd))) or f32(sd) for _ in range(8)], self.SHAPE_W
        if self.kind == "a":
            return [_clamp_mag(f32(r.uniform(-1.0, 7.5))) for _ in range(self.N_A)], (self.N_A,)
        return [_clamp_mag(f32(r.gauss(0, 0.5))) for _ in range(self.C_B)], (self.C_B,)

    def tensor(self, rel):
        torch = self.torch
        if rel == "same":
            return self.t
        vals, shape = self.values()
        new = torch.tensor(vals, dtype=torch.float32).reshape(shape)
        if rel == "inplace":
            with torch.no_grad():
                self.t.copy_(new)
            return self.t
        if self.holder == "param":            # weights / bias as the nn.Parameter of a layer, as the back-ends hold them
            if self.kind == "w":
                layer = torch.nn.Conv2d(2, 2, (1, 2), bias=True)
                par = layer.weight
            else:
                layer = torch.nn.Conv2d(1, self.C_B, 1, bias=True)
                par = layer.bias
            with torch.no_grad():
                par.copy_(new)
            self.keep, self.t = layer, par
        else:
            self.keep, self.t = None, new
        return self.t

    def run(self, q, x):
        if self.kind == "b":
            return q(x, self.s_a.clone(), self.s_w[self.pi].clone())
        return q(x)

    def call(self, rel, model_deq):
        torch = self.torch
        x = self.tensor(rel)
        xs = x.detach().double().reshape(-1).tolist()
        y = self.run(self.q, x).detach()
        sc_t = self.q.scale.detach().clone()
        # what the object reports about itself
        obs = {"mode": "train" if self.q.training else "eval", "grad": bool(torch.is_grad_enabled()),
               "deq": bool(self.q.dequantize),
               "p": int(self.q.precision) if self.kind != "b" else int(self.precs[self.pi - 1])}
        # reference: a freshly constructed quantiser of the same configuration on a copy of the same data
        f = self.construct(bool(self.q.dequantize))
        f.train(self.q.training)
        yf = self.run(f, x.detach().clone()).detach()
        sf_t = f.scale.detach()
        obs["hist"] = tuple(y.shape) == tuple(yf.shape) and y.dtype == yf.dtype == torch.float32 and \
            bool(torch.equal(y.contiguous().view(torch.int32), yf.contiguous().view(torch.int32)))
        obs["hs"] = tuple(sc_t.shape) == tuple(sf_t.shape) and bool(torch.equal(sc_t.double(), sf_t.double()))
        if tuple(y.shape) != tuple(x.shape):
            raise _Shape(f"life: output shape {tuple(y.shape)} for input {tuple(x.shape)}")
        ys = y.double().reshape(-1).tolist()
        p = self.precs[self.pi - 1]
        if self.kind == "w":
            scale = sc_t.double().reshape(-1).tolist()
            if len(scale) != self.C_W:
                raise _Shape("life: weight scale length")
            K = len(xs) // self.C_W
            chans = []
            for c in range(self.C_W):
                ints, fakes = _life_split(model_deq, ys[c * K:(c + 1) * K], scale[c])
                if fakes is None:
                    fakes = [(yi * scale[c]) if (_fin(yi) and _fin(scale[c])) else 0.0 for yi in ints]
                ch, _ = reduce_w_channel(p, xs[c * K:(c + 1) * K], ints, fakes, scale[c])
                chans.append(ch)
            obs["tr"] = {"k": "w", "p": p, "ch": chans}
        elif self.kind == "a":
            scale = float(sc_t.double())
            clipv = float(self.q.clip_val.detach().double()[0])
            dfl = float((torch.tensor(clipv, dtype=torch.float32) + 1e-3).double())
            ints, fakes = _life_split(model_deq, ys, scale)
            obs["tr"], _ = reduce_a(p, clipv, dfl, scale, xs, ints, fakes)
        else:
            scales = sc_t.double()
            scales = scales.expand(len(xs)).tolist() if scales.dim() == 0 else scales.reshape(-1).tolist()
            ints, fakes = [], []
            for yv, sv in zip(ys, scales):
                i1, f1 = _life_split(model_deq, [yv], sv)
                ints.append(i1[0])
                fakes.append(f1[0] if f1 is not None else ((yv * sv) if (_fin(yv) and _fin(sv)) else 0.0))
            obs["tr"], _ = reduce_b(xs, ints, fakes, scales, float(self.s_a.double()),
                                    self.s_w[self.pi].double().tolist())
        return obs


def execute_life(real: Real, sc):
    torch = real.torch
    rng = random.Random(sc["dseed"])
    deq = bool(sc["init"]["deq"])
    prev = torch.is_grad_enabled()
    ev = []
    ncalls = 0
    try:
        torch.set_grad_enabled(True)
        env = _LifeEnv(real, sc["q"], sc["holder"], sc["precs"], deq, int(sc["init"]["pi"]), rng)
        for name, v in sc["acts"]:
            if name == "SetMode":
                env.q.train(v == "train")
            elif name == "SetGrad":
                torch.set_grad_enabled(bool(v))
            elif name == "SetDeq":
                env.q.dequantize = bool(v)
                deq = bool(v)
            elif name == "SetPrec":
                env.set_prec(int(v))
            elif name == "Call":
                ev.append({"a": "Call", "rel": v, "obs": env.call(v, deq)})
                ncalls += 1
                continue
            else:
                raise tlc.MachineryError(f"life scenario: unknown action {name}")
            ev.append({"a": name, "v": v})
    finally:
        torch.set_grad_enabled(prev)
    return {"k": "life", "q": sc["q"], "precs": sc["precs"], "init": sc["init"], "ev": ev}, {"calls": ncalls}


def _size(tr) -> int:
    if tr["k"] == "w":
        return sum(len(c["e"]) for c in tr["ch"])
    if tr["k"] == "life":
        return sum(_size(e["obs"]["tr"]) for e in tr["ev"] if e["a"] == "Call")
    return len(tr["e"])


def _ncmp(tr) -> int:
    if tr["k"] == "w":
        return sum(1 for c in tr["ch"] for e in c["e"] if e["cmp"])
    if tr["k"] == "life":
        return sum(_ncmp(e["obs"]["tr"]) for e in tr["ev"] if e["a"] == "Call")
    return sum(1 for e in tr["e"] if e.get("cmp"))


def _nontrivial(sc) -> bool:
    return bool(sc.get("_nt"))


def run(tier: str, seed: int, replay=None) -> int:
    R = Run("C13", tier, seed, level="exploration")
    R.rule = ("scenario = one tensor given to one real quantiser (MinMaxWeight symmetric / PACTAct / QuantizerBias fed "
              "with the scales of real weight and activation quantisers / DummyQuantizer) with dequantize False and "
              "True. Grid scenarios lay the integer grid of QuantMC (8 sub-steps per level, all points, exact ties and "
              "+-1/+-3 float32 ulp around every level boundary) over float32 inputs; random scenarios are seeded float32 "
              "tensors of the property's domain (magnitudes 2^-30..2^13, constant / all-zero / single-element / "
              "mixed-sign / on-boundary channels, clip 0.05..1e3). Life scenarios drive ONE quantiser object through a "
              "history (SetMode/SetGrad/SetDeq/SetPrec/Call(same|inplace|fresh)): covering walks over every edge of the "
              "QuantLifeMC graphs plus seeded random histories. Non-trivial = the tensor has at least one input "
              "within 1/8 step of a level boundary (weights, activations), or a zero / <=1e-8 scale or a grid (bias), "
              "or a history with at least two calls (life).")
    R.assumptions = [
        "float32 rounding itself is not modelled: numeric facts (fake = int*scale, error < step, out <= in, scale = s_a*s_w) "
        "are decided by the harness with exact rational arithmetic on the observed float32 values and given to TLC as booleans",
        "tolerances: fake=int*scale 2^-20 relative (+2e-3/clip for PACT, its stabiliser); PACT out <= in*(1+2^-22); "
        "PACT error < reported step*(1+2e-3/clip) + in*2^-22; bias error clause only where |b/scale| < 2^22",
        "levels are compared with the integer model only where the exact quotient is a grid point or >= 2^-10 from a "
        "rounding boundary; a mismatch there is reported as SPEC-DRIFT (the statement does not fix the rounding rule)",
        "CPU float32 only; symmetric weight quantiser only; backward passes (STE) are not part of C13",
        "life cycle: the history abstraction is (current configuration, configuration of the previous call, tensor relation): "
        "every 2-call interaction is replayed exhaustively, longer-range interactions only by the seeded random histories; "
        "PACT clip 6.0, tiny tensors; the clip parameter itself is not changed during a history",
    ]
    real = Real()
    real.torch.manual_seed(seed)

    if replay:
        sc = json.load(open(replay))["scenario"]
        tr, info = execute(real, sc)
        R.validate("QuantTrace", "QuantTrace", [tr], [sc], key=_digest, env=TLC_ENV)
        return R.finish()

    thorough = tier != "quick"

    # 1. design level ---------------------------------------------------------------------------
    cfg = "QuantMC_thorough" if thorough else "QuantMC_quick"
    R.design("QuantMC", cfg, coverage=True, require_cov=["QuantMC!Step"], workers=8)
    for bad, inv in (("isclose", "BErr"), ("round", "ATrunc"), ("noclip", "WRange"), ("nomask", "BFin")):
        res = R.design("QuantMC", f"QuantMC_{bad}", expect_ok=False, workers=1)
        if res.violations[0]["name"] != inv:
            raise tlc.MachineryError(f"sanity config QuantMC_{bad}: expected {inv} to fail, got {res.violations[0]['name']}")

    # 1b. design level, life cycle of one quantiser object: all histories to closure; the labelled graphs of
    #     the reference configuration are dumped for the replay; three cache transcriptions with an incomplete
    #     key must violate HistoryIndependent, the one with the complete key must pass
    life_acts = ["QuantLifeMC!" + a for a in ("SetMode", "SetGrad", "SetDeq", "SetPrec", "Call")]
    graphs = {}
    for np_ in ([2, 3, 4] if thorough else [2, 3]):
        dot = tempfile.mktemp(prefix=f"c13-life{np_}-", suffix=".dot", dir=tlc.scratch())
        res = R.design("QuantLifeMC", f"QuantLifeMC_ref{np_}", dump_dot=dot, coverage=True, require_cov=life_acts,
                       workers=4)
        nodes, edges, init = tlc.parse_dot(dot)
        if len(nodes) != res.distinct:
            raise tlc.MachineryError(f"life dump has {len(nodes)} states, TLC reported {res.distinct}")
        graphs[np_] = (nodes, edges, init)
    for bad in ("cache_nodeq", "cache_noprec", "cache_noversion"):
        res = R.design("QuantLifeMC", f"QuantLifeMC_{bad}", expect_ok=False, workers=1)
        if res.violations[0]["name"] != "HistoryIndependent":
            raise tlc.MachineryError(f"sanity config QuantLifeMC_{bad}: expected HistoryIndependent to fail")
    R.design("QuantLifeMC", "QuantLifeMC_cache_ok", workers=1)

    # 2. scenarios --------------------------------------------------------------------------------
    rng = random.Random(seed * 7919 + 13)
    scen = []
    life_edges = {}
    for q, holder, precs in [("w", "param", LIFE_PRECS["w"]), ("w", "plain", LIFE_PRECS["w"]),
                             ("a", "plain", LIFE_PRECS["a"]), ("b", "param", LIFE_PRECS["b"]),
                             ("b", "plain", LIFE_PRECS["b"])] + \
                            ([("w", "param", LIFE_PRECS4["w"])] if thorough else []):
        nodes, edges, init = graphs[len(precs)]
        ls = life_edge_scenarios(nodes, edges, init, q, holder, precs, seed)
        life_edges[f"{q}/{holder}/{len(precs)} precisions"] = {
            "graph_edges": len(edges), "edges_replayed": len(edges), "walks": len(ls),
            "call_edges": sum(1 for e in edges if e[2].startswith("Call"))}
        scen += ls
    scen += life_random_scenarios(rng, 400 if thorough else 30, 120 if thorough else 60)
    R.extra["life_edge_replay"] = life_edges
    if thorough:
        scen += w_grid_scenarios([0, 2, 3, 4, 5, 6, 7, 8], [-27, -20, -13, -7, -1, 0, 3, 6, 9], 6, rng)
        scen += a_grid_scenarios([2, 3, 4, 5, 6, 7, 8], [0.05, 0.1, 0.5, 1.0, 6.0, 37.5, 255.0, 1000.0])
        scen += b_grid_scenarios(B_GRID_THOROUGH, 130)
        nw, na, nbias, nd = 6000, 4000, 3000, 50
    else:
        scen += w_grid_scenarios([0, 2, 3, 4, 8], [-27, -7, 0, 5], 2, rng)
        scen += a_grid_scenarios([2, 3, 4, 8], [0.05, 1.0, 6.0, 1000.0])
        scen += b_grid_scenarios(B_GRID_QUICK, 40)
        nw, na, nbias, nd = 400, 300, 250, 10
    scen += w_random_scenarios(rng, nw)
    scen += a_random_scenarios(rng, na)
    scen += b_random_scenarios(rng, nbias)
    scen += d_scenarios(rng, nd)

    # 3. run the real quantisers, reduce, let TLC decide --------------------------------------------
    t_exec = time.time()
    traces = []
    n_elem = n_bnd = n_tiny = n_life_calls = 0
    counts = {}
    for sc in scen:
        tr, info = execute(real, sc)
        if tr["k"] == "shape":
            R.violation("C13.shape: " + tr["msg"], sc)
            tr = {"k": "d", "same": True, "s1": True, "e": []}
        if sc["k"] == "life":
            sc["_nt"] = info.get("calls", 0) >= 2
            n_life_calls += info.get("calls", 0)
        else:
            sc["_nt"] = bool(info.get("boundary") or info.get("tiny") or (sc["k"] == "b" and sc["gen"] == "grid")
                             or (sc["k"] == "b" and any(g["p"] == 0 for g in sc["wq"])))
        traces.append(tr)
        n_bnd += info.get("boundary", 0)
        n_tiny += info.get("tiny", 0)
        n_elem += _size(tr)
        kk = sc["k"] + ":" + sc["gen"]
        counts[kk] = counts.get(kk, 0) + 1
    R.extra["scenarios_by_kind"] = counts
    R.extra["execute_and_reduce_wall_s"] = round(time.time() - t_exec, 2)
    R.extra["elements_observed"] = n_elem
    R.extra["elements_level_compared_with_model"] = sum(_ncmp(tr) for tr in traces)
    R.extra["life_calls_on_real_objects"] = n_life_calls
    R.extra["elements_within_eighth_step_of_boundary"] = n_bnd
    R.extra["bias_elements_with_tiny_scale"] = n_tiny
    for kind in ("w", "a", "b"):
        for sc, tr in zip(scen, traces):
            if sc["k"] == kind and sc["gen"] == "random":
                e = tr["ch"][0]["e"] if kind == "w" else tr["e"]
                R.sample({"scenario": {k: v for k, v in sc.items() if k != "_nt"}, "observed_first_elements": e[:3]},
                         maxn=3 + "wab".index(kind))
                break

    # heavy traces: keep the batches moderate
    order = sorted(range(len(scen)), key=lambda i: (scen[i]["gen"] != "grid", i))
    batch, size = [], 0
    batches = []
    for i in order:
        sz = _size(traces[i])
        if batch and size + sz > 120000:
            batches.append(batch)
            batch, size = [], 0
        batch.append(i)
        size += sz
    if batch:
        batches.append(batch)
    for bi, b in enumerate(batches):
        R.validate("QuantTrace", "QuantTrace", [traces[i] for i in b], [scen[i] for i in b],
                   nontrivial=_nontrivial, key=_digest, label=f"batch {bi + 1}/{len(batches)}", workers=8, env=TLC_ENV)
    R.exhaustive = False
    return R.finish()
