"""C12 - cost is a differentiable, monotone function of the architecture only.

design      : CostDepsMC (TLC): whole mask lattice of a small architecture family over an abstract value domain -
              cost = operator of (arch, masks) only, monotone Raise steps, strict off the keep-alive elements,
              keep-alive slots irrelevant, all-open = original cost; mixing model of MPS / SuperNet decision points.
spec -> code: every lattice state TLC enumerated is written into a real PIT model (GrammarNet -> PIT) and the cost
              of every applicable metric is read there and after every Raise step.
code -> spec: TLC (CostDepsTrace) re-decides monotonicity / all-open on the observed integers and recomputes the
              model cost with the same operators (prediction); the full probe protocol on random PIT / SuperNet /
              MPS / ODiMO_MPS models (gradient bits, network gradients, weight / input independence, single-element
              raises, ordered parameter pairs) is validated the same way.

Tolerances: see specs/CostDepsTrace.tla (float32 costs: 1e-5 relative for lattice states, 1e-4..1e-5 of the full
scale for probes).  Mask magnitudes of probes are drawn away from 0 (d|x|/dx = 0 there) and from the threshold.
"""
from __future__ import annotations

import copy
import json
import random
import time
from typing import Any, Dict, List

from .. import costdeps, pitgen, tlc
from ..archgen import norm_arch
from ..core import Run, use_repo

VALS = {"quick": [0, 6, 10], "thorough": [0, 3, 6, 10, 15]}


# ------------------------------------------------------------------------------------------ lattice scenarios
def _fun(f) -> Dict[str, Any]:
    return {str(k): list(v) for k, v in pitgen.fun_items(f)} if f else {}


def _lat_scenarios(states, vals: List[int], seed: int) -> List[Dict[str, Any]]:
    scs = []
    for s in states:
        arch = pitgen.arch_from_tla(s["arch"])
        A = {"th": _fun(s["A"]["th"]), "tb": _fun(s["A"]["tb"]), "tg": _fun(s["A"]["tg"])}
        ka = set(s["st"]["ka"])
        succ = []
        for e in sorted(s["st"]["els"]):
            if e in ka:
                continue
            k, n, i = e
            cur = A[{"a": "th", "b": "tb", "g": "tg"}[k]][str(n)][i - 1]
            nxt = [v for v in vals if v > cur]
            if nxt:
                succ.append([k, int(n), int(i), min(nxt)])
        scs.append({"kind": "lat", "arch": arch, "A": A, "succ": succ, "seed": seed, "src": "tlc-lattice"})
    return scs


# ------------------------------------------------------------------------------------------ probe scenarios
def _filter_archs(R: Run, archs: List[Dict[str, Any]]) -> List[Dict[str, Any]]:
    """Domain pre-pass decided by TLC (FeatGraph!Supported): not evidence, only selects what is generated."""
    if not archs:
        return []
    verdicts, st = tlc.validate_traces("CostDepsTrace", "CostDepsTrace", [{"kind": "filter", "arch": a} for a in archs])
    R.states += st["distinct"]
    keep = [a for a, v in zip(archs, verdicts) if v == "ok"]
    R.extra["random_archs_outside_domain_skipped"] = R.extra.get("random_archs_outside_domain_skipped", 0) + len(archs) - len(keep)
    return keep


def _family_archs() -> List[Dict[str, Any]]:
    def mk(dim, op, ins, out=0, k=1, s=1, bias=True, dw=False):
        return {"op": op, "ins": ins, "out": out, "k": k, "s": s, "bias": bias, "dw": dw, "causal": dim == 1 and op == "conv"}
    return [norm_arch(a) for a in [
        {"dim": 1, "c0": 2, "sp": 4, "nodes": [mk(1, "conv", [0], 3, 3), mk(1, "relu", [1]), mk(1, "conv", [2], 2, 2, bias=False)]},
        {"dim": 2, "c0": 2, "sp": 2, "nodes": [mk(2, "conv", [0], 3, 3), mk(2, "conv", [1], 3, 3, bias=False), mk(2, "add", [1, 2]),
                                                mk(2, "flat", [3]), mk(2, "lin", [4], 2)]},
        {"dim": 2, "c0": 2, "sp": 2, "nodes": [mk(2, "conv", [0], 2, 3), mk(2, "conv", [1], 0, 3, dw=True), mk(2, "conv", [0], 3, 1, bias=False),
                                                mk(2, "cat", [2, 3]), mk(2, "conv", [4], 2, 1)]},
        {"dim": 1, "c0": 2, "sp": 8, "nodes": [mk(1, "conv", [0], 3, 3, s=2), mk(1, "pool", [1]), mk(1, "flat", [2]), mk(1, "lin", [3], 3),
                                                mk(1, "relu", [4]), mk(1, "lin", [5], 2, bias=False)]},
        {"dim": 1, "c0": 1, "sp": 4, "nodes": [mk(1, "conv", [0], 2, 4), mk(1, "conv", [1], 2, 1)]},
        {"dim": 2, "c0": 2, "sp": 2, "nodes": [mk(2, "conv", [0], 3, 3), mk(2, "conv", [1], 3, 3), mk(2, "relu", [2]), mk(2, "add", [3, 1]),
                                                dict(mk(2, "conv", [4], 3, 3), reuse=2), mk(2, "relu", [5]), mk(2, "add", [6, 4]),
                                                mk(2, "conv", [7], 2, 1)]},
        {"dim": 2, "c0": 2, "sp": 2, "nodes": [mk(2, "conv", [0], 3, 3), mk(2, "flat", [1]), mk(2, "lin", [2], 2)]},
        {"dim": 2, "c0": 3, "sp": 4, "nodes": [mk(2, "conv", [0], 6, 3), mk(2, "relu", [1]), mk(2, "pool", [2]), mk(2, "flat", [3]),
                                                mk(2, "lin", [4], 5), mk(2, "relu", [5]), mk(2, "lin", [6], 3)]},
        # a channel concat of two tensors the search cannot prune, of DIFFERENT widths (the network input and the output of
        # a layer excluded from the search), feeding searchable layers
        {"dim": 2, "c0": 2, "sp": 2, "nodes": [dict(mk(2, "conv", [0], 3, 3), excl=True), mk(2, "cat", [0, 1]), mk(2, "conv", [2], 3, 3),
                                                mk(2, "relu", [3]), mk(2, "conv", [4], 2, 1)]},
        {"dim": 1, "c0": 1, "sp": 6, "nodes": [dict(mk(1, "conv", [0], 4, 3), excl=True), mk(1, "relu", [1]), mk(1, "cat", [2, 0]),
                                                mk(1, "conv", [3], 3, 3), mk(1, "conv", [4], 2, 1)]},
    ]]


def _pit_candidates(rng: random.Random, n_arch: int) -> List[Dict[str, Any]]:
    cands = []
    while len(cands) < 3 * n_arch:
        dim = rng.choice([1, 1, 2])
        a = pitgen.random_arch(rng, dim=dim, max_nodes=rng.randint(2, 8), kernels=(1, 2, 3, 4, 5, 6, 7, 8, 9))
        if any(nd["op"] in ("conv", "lin") and not nd["excl"] for nd in a["nodes"]):
            cands.append(norm_arch(a))
    return cands


def _pit_probe_scenarios(archs: List[Dict[str, Any]], rng: random.Random, seed: int) -> List[Dict[str, Any]]:
    archs = _family_archs() + archs
    scs = []
    for j, a in enumerate(archs):
        metrics = [m for m in costdeps.PIT_METRICS if costdeps.pit_applicable(m, a)]
        flags = {"features": True, "rf": True, "dilation": True}
        if j % 5 == 4:          # some models with a part of the search switched off
            flags = {"features": rng.random() < 0.5, "rf": rng.random() < 0.5, "dilation": rng.random() < 0.5}
        for m in metrics:
            for disc in (False, True):
                scs.append({"kind": "probe", "method": "pit", "arch": a, "metric": m, "disc": disc, "flags": flags,
                            "single": (j + len(m)) % 4 == 0, "seed": seed * 1000 + j, "src": "pit"})
    return scs


def _dep_archs() -> List[Dict[str, Any]]:
    """Two-layer producer -> consumer networks: (producer type, consumer type, architecture)."""
    out = []
    for dim in (1, 2):
        def conv(p, out_, k):
            return {"op": "conv", "ins": [p], "out": out_, "k": k, "causal": dim == 1}

        def dw(p):
            return {"op": "conv", "ins": [p], "dw": True, "k": 3, "causal": dim == 1}
        cname = f"conv{dim}d"
        base = {"dim": dim, "c0": 2, "sp": 4 if dim == 1 else 2}
        out += [
            (cname, cname, dict(base, nodes=[conv(0, 3, 3), conv(1, 2, 3 if dim == 2 else 2)])),
            (cname, "linear(flatten)", dict(base, nodes=[conv(0, 3, 3), {"op": "flat", "ins": [1]}, {"op": "lin", "ins": [2], "out": 2}])),
            (cname + "+dw", cname, dict(base, nodes=[conv(0, 3, 3), dw(1), conv(2, 2, 1)])),
            (cname + "+dw", "linear(flatten)", dict(base, nodes=[conv(0, 3, 3), dw(1), {"op": "flat", "ins": [2]}, {"op": "lin", "ins": [3], "out": 2}])),
            ("linear", "linear", dict(base, nodes=[{"op": "flat", "ins": [0]}, {"op": "lin", "ins": [1], "out": 5}, {"op": "relu", "ins": [2]},
                                                    {"op": "lin", "ins": [3], "out": 2}])),
        ]
    return [(p, c, norm_arch(a)) for p, c, a in out]


def _dep_probe_scenarios(seed: int) -> List[Dict[str, Any]]:
    scs = []
    for j, (pt, ct, a) in enumerate(_dep_archs()):
        for m in costdeps.PIT_METRICS:
            for disc in (False, True):
                scs.append({"kind": "probe", "method": "pit", "arch": a, "metric": m, "disc": disc, "single": (j + len(m)) % 3 == 0,
                            "flags": {"features": True, "rf": True, "dilation": True}, "seed": seed * 1000 + 500 + j, "src": "dep",
                            "dep": True, "ptype": pt, "ctype": ct, "n_pairs": 1})
    return scs


def _hist_scenarios(R: Run, quick: bool, seed: int, rng: random.Random) -> List[Dict[str, Any]]:
    """The call histories TLC enumerated (CostDepsHistMC).  A history is replayed with a cost read after EVERY call, so a history
    covers its prefixes.  thorough: every history of full length (4); quick: every history of length 2 (hence every history of
    length <= 2) and a seeded third of the histories of length 3."""
    scs = []
    n = 3 if quick else 4
    for method, variants in (("pit", [""]), ("mps", ["layer", "channel"]), ("sn", [""])):
        states = pitgen.dump_states("CostDepsHistMC", f"CostDepsHistMC_{method}_{'quick' if quick else 'thorough'}", R, workers=3, timeout=3600)
        full = sorted([list(a) for a in st["hist"]] for st in states if len(st["hist"]) == n)
        if not full:
            raise tlc.MachineryError("no history of full length in the dump of CostDepsHistMC " + method)
        for v in variants:
            hs = list(full)
            if quick:
                hs = sorted([list(a) for a in st["hist"]] for st in states if len(st["hist"]) == 2) + rng.sample(full, max(1, len(full) // 3))
            scs += [{"kind": "hist", "method": method, "variant": v, "hist": h, "seed": seed, "src": "hist-" + method} for h in hs]
    R.extra["histories_enumerated_by_tlc"] = R.extra.get("histories_enumerated_by_tlc", 0)
    return scs


_DLOCK = None


def _concurrent_design(R: Run) -> None:
    """Make R.design safe to call from several threads (TLC runs outside the lock, the bookkeeping of Run.design inside)."""
    import threading
    lock = threading.Lock()

    def design(module, cfg, *, expect_ok=True, require_cov=(), **kw):
        res = tlc.run_tlc(module, cfg, **kw)
        with lock:
            R.states += res.distinct
            R.transitions += res.generated
            R.design_runs.append({"module": module, "cfg": cfg, "distinct": res.distinct, "generated": res.generated,
                                  "depth": res.depth, "wall_s": round(res.wall_s, 2), "ok": res.ok})
        if expect_ok and not res.ok:
            v = res.violations[0]
            raise tlc.MachineryError(f"design config {module}/{cfg} violates {v['name']}: {json.dumps(v['state'], default=str)[:800]}")
        if not expect_ok and res.ok:
            raise tlc.MachineryError(f"design config {module}/{cfg} was expected to exhibit a violation (sanity) but passed")
        for act in require_cov:
            c = res.coverage.get(act)
            if c is None or c[0] == 0:
                raise tlc.MachineryError(f"vacuity guard: action {act} never taken in {module}/{cfg}")
        return res
    R.design = design  # type: ignore[method-assign]


def _validate_concurrently(R: Run, groups, nontrivial) -> List[str]:
    """groups: [(label, traces, scenarios)].  The TLC runs go in parallel; Run.validate then classifies group by group."""
    from concurrent.futures import ThreadPoolExecutor
    with ThreadPoolExecutor(max_workers=len(groups)) as ex:
        futs = [ex.submit(tlc.validate_traces, "CostDepsTrace", "CostDepsTrace", tr, chunk=1200, workers=5) for _, tr, _ in groups]
        pre = [f.result() for f in futs]
    verdicts: List[str] = []
    orig = tlc.validate_traces
    try:
        for (label, tr, sc), res in zip(groups, pre):
            tlc.validate_traces = lambda *a, _r=res, **k: _r          # Run.validate receives the result computed above
            verdicts += R.validate("CostDepsTrace", "CostDepsTrace", tr, sc, nontrivial=nontrivial, key=_key, label=label)
    finally:
        tlc.validate_traces = orig
    return verdicts


def _sn_probe_scenarios(rng: random.Random, n: int, seed: int) -> List[Dict[str, Any]]:
    from .. import sn_gen
    scs = []
    for j in range(n):
        net = sn_gen.random_net(rng, "quick")
        # the default (deterministic) sampler: soft-max without Gumbel noise, soft selection
        net.update(gumbel=False, hard0=False)
        for b in net["blocks"]:
            b["kinds"] = b["kinds"][:6]
        metrics = ["params", "params_no_bias", "ops", "ops_no_bias", "gap8_latency"]
        for m in metrics:
            scs.append({"kind": "probe", "method": "sn", "net": net, "metric": m, "metrics": metrics, "single": (j + len(m)) % 3 == 0,
                        "full": j % 2 == 1, "seed": seed * 1000 + j, "src": "sn"})
    return scs


def _mps_candidates(rng: random.Random, n: int) -> List[Dict[str, Any]]:
    cands = []
    while len(cands) < 3 * n:
        a = pitgen.random_arch(rng, dim=2, max_nodes=rng.randint(2, 6), kernels=(1, 3), widths=(2, 3, 4, 6))
        for nd in a["nodes"]:
            if nd["op"] == "conv" and nd["dw"]:
                nd["k"] = 3           # NE16 supports 3x3 depthwise only
        # MPS conversion of networks with concatenations fails or succeeds from run to run on the pinned tree
        # (per-channel quantiser sharing across a concat; outside C12) - such networks are not generated
        if any(nd["op"] in ("conv", "lin") for nd in a["nodes"]) and not any(nd.get("reuse") or nd["op"] in ("cat", "catt")
                                                                               for nd in a["nodes"]):
            cands.append(norm_arch(a))
    return cands


def _mps_probe_scenarios(archs: List[Dict[str, Any]], rng: random.Random, seed: int) -> List[Dict[str, Any]]:
    scs = []
    # a network that ENDS in a depthwise convolution (its producer sits in the output-connected component): always generated
    tail_dw = norm_arch({"dim": 2, "c0": 1, "sp": 4, "nodes": [{"op": "conv", "ins": [0], "out": 3, "k": 1, "bn": True},
                                                                {"op": "conv", "ins": [1], "dw": True, "k": 3, "bn": True}]})
    for j, a in enumerate([tail_dw] + archs):
        w = "channel" if j % 2 else "layer"
        wp = rng.choice([[2, 4, 8], [0, 2, 4, 8], [2, 8]]) if w == "channel" else rng.choice([[2, 4, 8], [2, 8], [4, 8]])
        for m in costdeps.MPS_METRICS:
            ap = [8] if (m == "ne16_latency" or rng.random() < 0.6) else [4, 8]
            scs.append({"kind": "probe", "method": "mps", "arch": a, "metric": m, "metrics": [m], "w": w, "wp": wp, "ap": ap,
                        "single": (j + len(m)) % 3 == 0, "seed": seed * 1000 + j, "src": "mps", "cu_budget": 24})
    return scs


def _odimo_probe_scenarios(mps_archs: List[Dict[str, Any]], n: int, seed: int) -> List[Dict[str, Any]]:
    scs = []
    fixed = norm_arch({"dim": 2, "c0": 3, "sp": 8, "nodes": [
        {"op": "conv", "ins": [0], "out": 8, "k": 3}, {"op": "relu", "ins": [1]}, {"op": "conv", "ins": [2], "out": 8, "k": 3},
        {"op": "relu", "ins": [3]}, {"op": "pool", "ins": [4]}, {"op": "flat", "ins": [5]}, {"op": "lin", "ins": [6], "out": 4}]})
    archs = [fixed] + [a for a in mps_archs if not any(nd["op"] == "conv" and nd["dw"] for nd in a["nodes"])][:n]
    for j, a in enumerate(archs):
        scs.append({"kind": "probe", "method": "odimo", "arch": a, "metric": "diana_latency", "metrics": ["diana_latency"],
                    "w": "channel", "wp": [2, 8], "ap": [8], "default_cost": j % 2 == 0, "single": j % 2 == 1,
                    "seed": seed * 1000 + j, "src": "odimo", "cu_budget": 24})
    return scs


# ------------------------------------------------------------------------------------------ bookkeeping
def _key(sc):
    return {k: sc.get(k) for k in ("kind", "method", "arch", "net", "A", "metric", "disc", "single", "flags", "w", "wp", "ap", "full",
                                   "default_cost", "seed", "hist", "variant", "dep")}


def _self_test(traces: List[Dict[str, Any]], verdicts: List[str]) -> int:
    """Corrupted copies of ACCEPTED traces must be rejected with the right clause (the comparison really is TLC's)."""
    muts, want = [], []
    n_disc = n_latg = n_hist = n_dep = 0
    for t, v in zip(traces, verdicts):
        if v != "ok":
            continue
        if t["kind"] == "probe" and t["ev"]["ok"] and not t.get("skip"):
            if t["pert"] and len(muts) < 40:
                m = copy.deepcopy(t)
                m["pert"][0] = m["c"] + 60000
                muts.append(m), want.append("C12.weights")
                m = copy.deepcopy(t)
                m["ng"]["nonzero"] = 1
                muts.append(m), want.append("C12.netgrad")
            ups = [i for i, e in enumerate(t["E"]) if e["tr"] and e["k"] in ("a", "b", "g", "w") and e["cu"] > t["c"] + 5000 and e["nz"]]
            if ups and len(muts) < 60:
                m = copy.deepcopy(t)
                m["E"][ups[0]]["nz"] = False
                muts.append(m), want.append("C12.gradient")
            if t["pairs"] and t["pairs"][0]["chi"] > t["pairs"][0]["clo"] + 5000 and len(muts) < 80:
                m = copy.deepcopy(t)
                m["pairs"][0]["clo"], m["pairs"][0]["chi"] = m["pairs"][0]["chi"], m["pairs"][0]["clo"]
                muts.append(m), want.append("C12.monotone")
        if t["kind"] == "probe" and t["method"] == "pit" and t["disc"] and t["ev"]["ok"] and n_disc < 12:
            # a non-keep-alive, trainable element of the discrete cost loses its gradient
            cand = [i for i, e in enumerate(t["E"]) if e["tr"] and e["k"] in ("a", "b", "g") and e["nz"] and not e["ka"]
                    and t["metric"] != "gap8_latency"]
            if cand:
                m = copy.deepcopy(t)
                m["E"][cand[-1]]["nz"] = False
                m["E"][cand[-1]]["cu"] = -1           # so that only the lattice clause can object
                muts.append(m), want.append("C12.gradient")
                n_disc += 1
        if t["kind"] == "hist" and n_hist < 12 and len(t["ev"]) >= 3 and t["ev"][-1]["a"] not in ("set", "fwd", "mode") and t["ev"][-1]["reads"]:
            m = copy.deepcopy(t)                     # an observer call moves the cost
            m["ev"][-1]["reads"][0]["c"] += 70000
            muts.append(m), want.append("C12.history")
            n_hist += 1
        if t["kind"] == "probe" and t.get("dep") and t["ev"]["ok"] and n_dep < 12 and t["metric"] in ("params", "ops"):
            cand = [i for i, e in enumerate(t["E"]) if e["k"] == "a" and e["tr"] and e["nz"] and not e["ka"]]
            if cand:
                m = copy.deepcopy(t)
                m["E"][cand[0]]["nz"] = False
                m["E"][cand[0]]["cu"] = -1
                m["disc"] = False                    # leave only the dependency clause to object
                muts.append(m), want.append("C12.dependency")
                n_dep += 1
        if t["kind"] == "lat" and n_latg < 12:
            cand = [(i, j) for i, o in enumerate(t["obs"]) if o["d"] and o["ok"] for j, e in enumerate(t["els"])
                    if e["tr"] and e["v"] != 0 and o["nz"][j] and o["m"] != "gap8_latency"]
            if cand:
                i, j = cand[len(cand) // 2]
                m = copy.deepcopy(t)
                m["obs"][i]["nz"][j] = False
                muts.append(m), want.append("C12.gradient")
                n_latg += 1
        if t["kind"] == "lat" and t["succ"] and len(muts) < 148:
            j = len(t["obs"]) - 1
            if t["succ"][0]["obs"][0]["c"] > t["obs"][0]["c"] + 100:
                m = copy.deepcopy(t)
                m["succ"][0]["obs"][0]["c"] = max(0, t["obs"][0]["c"] - t["obs"][0]["c"] // 10 - 100)
                if m["succ"][0]["obs"][0]["c"] < t["obs"][0]["c"] - 50:
                    muts.append(m), want.append("C12.monotone")
            m = copy.deepcopy(t)
            m["obs"][j]["c"] += m["obs"][j]["c"] // 50 + 1000
            muts.append(m), want.append("")            # cost prediction or monotone clause: anything but ok
    if not muts:
        raise tlc.MachineryError("C12 self-test: no accepted trace to corrupt")
    vs, _ = tlc.validate_traces("CostDepsTrace", "CostDepsTrace", muts)
    for v, w, m in zip(vs, want, muts):
        if v == "ok" or (w and not v.startswith(w)):
            raise tlc.MachineryError(f"C12 self-test: corrupted trace not rejected as {w or 'anything'}: verdict {v[:200]}")
    return len(muts)


def run(tier: str, seed: int, replay=None) -> int:
    R = Run("C12", tier, seed, level="model_checking")
    use_repo()
    quick = tier == "quick"
    rng = random.Random(seed * 104729 + 12)
    R.rule = ("scenario = (model, metric, mode, parameter values). 'lat': every state of the mask lattice of CostDepsMC's architecture "
              "family (TLC dump) written into a real PIT model, with all its Raise successors; 'probe': the observation protocol on one "
              "real PIT (family + seeded random grammar architectures in FeatGraph!Supported) / SuperNet / MPS / ODiMO_MPS model and one "
              "built-in metric ('dep': two-layer producer -> consumer networks, the dependency matrix); 'hist': every call history of "
              "CostDepsHistMC (switches, modes, forward, export, summary, parameter change; <= 3 calls quick, 4 thorough) replayed on a real "
              "PIT (Conv1d with non-trivial beta / gamma), MPS (per layer, per channel) and SuperNet model with a cost read after every call. "
              "Non-trivial = a lattice state with at least one successor, a probe, or a history with at least one observer call.")
    R.assumptions = [
        "PIT networks come from the grammar of specs/FeatGraph.tla restricted by TLC to Supported() architectures; fold_bn off",
        "costs are evaluated by plinio in float32: equal / ordered up to the tolerances stated in specs/CostDepsTrace.tla",
        "probe mask values are drawn with |v| in [0.05,0.44] u [0.56,0.95] u [1.05,1.8] u {0.3,0.6,1,1.5}: away from 0 (torch.abs has derivative 0 "
        "there) and from the threshold; lattice states use the exact abstract magnitudes, elements at exactly 0 are exempt from the gradient clause",
        "discrete cost: 'element whose increase raises the metric' is decided on the lattice by CostDeps!DiscRelevant (corner contexts of the other "
        "elements, MaskAlgebra!Kept), and the gradient must be non-zero at every observed parameter value",
        "SuperNet / MPS use the default deterministic sampler (soft-max, no Gumbel noise, soft selection), training mode; the cost is read after a forward pass",
        "'increase raises the metric' is observed with one finite increase (|mask| + 0.6, alpha + 1.5) and a margin of 5000 units",
        "history: PIT cost = F(parameter values, discrete_cost); MPS / SuperNet cost = G(coefficients sampled by the last forward pass) - "
        "export(), summary(), requires_grad switches and train()/eval() by themselves are observers; after a parameter change without a forward "
        "pass nothing is required; a call that raises ends the history (counted, not judged)",
        "gap8_latency on 1-D networks: Conv1d layers cost 0 (no registered model), Linear layers are charged",
        "ne16_latency: architectures with kernels outside {1x1, 3x3} / non-3x3 depthwise are documented restrictions (skipped, counted)",
        "MPS / ODiMO networks: 2-D grammar architectures without concatenation and without weight sharing (MPS conversion of concat "
        "topologies is not deterministic on the pinned tree); models whose construction raises are skipped and counted",
    ]
    if replay:
        sc = json.load(open(replay))["scenario"]
        tr = costdeps.run_all([sc], procs=1)
        R.validate("CostDepsTrace", "CostDepsTrace", tr, [sc], key=_key)
        return R.finish()

    # ------------------------------------------------------------------ 1. design level
    # the design configurations are independent TLC runs: several at a time (same bookkeeping as Run.design, under a lock)
    _concurrent_design(R)
    out: Dict[str, Any] = {}

    def j_lattice():
        cfg = "CostDepsMC_quick" if quick else "CostDepsMC_thorough"
        st = [(s, VALS[tier]) for s in pitgen.dump_states("CostDepsMC", cfg, R, workers=8, timeout=5400)]
        if not quick:       # the wide 1-D chain (6 free elements) over its own value set
            st += [(s, [0, 6, 10, 15]) for s in pitgen.dump_states("CostDepsMC", "CostDepsMC_thorough_chain", R, workers=8, timeout=5400)]
        out["states"] = st

    def j_deps():
        # (a) weights / inputs are in the state but not in the cost: vacuity guard = both actions really fired
        deps = pitgen.dump_states("CostDepsMC", "CostDepsMC_deps", R, workers=4)
        if not (any(s["wv"] == 1 for s in deps) and any(s["xv"] == 1 for s in deps)
                and len({json.dumps(s["A"], sort_keys=True, default=str) for s in deps}) > 1):
            raise tlc.MachineryError("vacuity guard: Perturb / NewInput / Raise not all taken in CostDepsMC_deps")
        R.design("CostDepsMC", "CostDepsMC_mix_quick" if quick else "CostDepsMC_mix_thorough", workers=4)
        R.design("CostDepsMC", "CostDepsMC_bad", expect_ok=False, workers=2)      # sanity: keep-alive elements are not strict

    def j_time():
        # straight-through gradient of the discrete cost against MaskAlgebra: every Conv1d time mask K <= 9
        R.design("CostDepsMC", "CostDepsMC_time_quick" if quick else "CostDepsMC_time_thorough", workers=6, timeout=5400)
        R.design("CostDepsMC", "CostDepsMC_time_half", workers=2)                 # a constant factor in the backward pass: same support
        for bad in ("CostDepsMC_time_clipped", "CostDepsMC_time_zeroabove", "CostDepsMC_lat_clipped"):
            R.design("CostDepsMC", bad, expect_ok=False, workers=2)               # sanity: these backward rules lose gradients

    def j_hist():
        # history dimension: every call history of bounded length; sanity variants must fail
        out["hist"] = _hist_scenarios(R, quick, seed, rng_h)
        R.design("CostDepsHistMC", "CostDepsHistMC_inplace", expect_ok=False, workers=2)        # eval sample written in place
        R.design("CostDepsHistMC", "CostDepsHistMC_dropsfrozen", expect_ok=False, workers=2)    # frozen dilation mask dropped
        R.design("CostDepsHistMC", "CostDepsHistMC_effmatch", expect_ok=False, workers=2)       # functions matched on effective sizes
    rng_h = random.Random(seed * 7 + 3)
    from concurrent.futures import ThreadPoolExecutor
    with ThreadPoolExecutor(max_workers=4) as ex:
        for f in [ex.submit(j) for j in (j_lattice, j_time, j_deps, j_hist)]:
            f.result()
    states, hist_scs = out["states"], out["hist"]

    # ------------------------------------------------------------------ 2. scenarios
    scs = []
    for vals in ([0, 6, 10], [0, 3, 6, 10, 15], [0, 6, 10, 15]):
        scs += _lat_scenarios([s for s, v in states if v == vals], vals, seed)
    scs.sort(key=lambda s: json.dumps(s["arch"], sort_keys=True))         # consecutive states share the real model
    n_lat = len(scs)
    mult = 1 if quick else 6
    n_pit, n_mps = 16 * mult, 12 * mult
    c_pit, c_mps = _pit_candidates(rng, n_pit), _mps_candidates(rng, n_mps + 3 * mult)
    ok_archs = _filter_archs(R, c_pit + c_mps)                          # ONE domain pre-pass by TLC
    ok_keys = {json.dumps(a, sort_keys=True) for a in ok_archs}
    a_pit = [a for a in c_pit if json.dumps(a, sort_keys=True) in ok_keys][:n_pit]
    a_mps = [a for a in c_mps if json.dumps(a, sort_keys=True) in ok_keys]
    scs += _pit_probe_scenarios(a_pit, rng, seed)
    scs += _sn_probe_scenarios(rng, 6 * mult, seed)
    scs += _mps_probe_scenarios(a_mps[:n_mps], rng, seed)
    scs += _odimo_probe_scenarios(a_mps[n_mps:], 3 * mult, seed)
    scs += _dep_probe_scenarios(seed)
    scs += hist_scs
    t0 = time.time()
    traces = costdeps.run_all(scs, procs=10)
    R.extra["exec_wall_s"] = round(time.time() - t0, 1)

    # constructs plinio / the cost model rejects with a documented error: skipped and counted
    keep = [(s, t) for s, t in zip(scs, traces) if not t.get("skip")]
    skipped: Dict[str, int] = {}
    for s, t in zip(scs, traces):
        if t.get("skip"):
            k = s["src"] + ": " + t["skip"][:60]
            skipped[k] = skipped.get(k, 0) + 1
    R.extra["skipped"] = skipped
    scs2 = [s for s, _ in keep]
    tr2 = [t for _, t in keep]
    by_src: Dict[str, int] = {}
    for s in scs2:
        by_src[s["src"]] = by_src.get(s["src"], 0) + 1
    R.extra["scenarios_by_source"] = by_src
    for src in ("pit", "sn", "mps", "dep"):
        if not any(s["src"] == src and t["kind"] == "probe" and t["ev"]["ok"] for s, t in keep):
            raise tlc.MachineryError(f"no evaluable {src} probe was produced")
    # the recorded dependency matrix (TLC decides which entries must be TRUE; here: what was observed)
    dm = []
    for s, t in keep:
        if s["src"] == "dep" and t["ev"]["ok"]:
            dm.append({"producer": s["ptype"], "consumer": s["ctype"], "metric": s["metric"], "discrete": s["disc"],
                       "producer_mask_gradients_nonzero": [e["nz"] for e in t["E"] if e["k"] == "a" and not e["ka"]]})
    R.extra["dependency_matrix_observed"] = dm
    R.extra["history_calls_raised"] = sum(1 for _, t in keep if t["kind"] == "hist" and not all(e["ok"] for e in t["ev"]))

    def nontrivial(sc):
        if sc["kind"] == "hist":
            return any(a[0] not in ("set", "fwd", "mode") for a in sc["hist"])
        return bool(sc.get("succ")) if sc["kind"] == "lat" else True
    groups = []
    for label, kind in (("lattice states", "lat"), ("probes", "probe"), ("histories", "hist")):
        idx = [i for i, t in enumerate(tr2) if t["kind"] == kind]
        groups.append((label, [tr2[i] for i in idx], [scs2[i] for i in idx]))
    order = [i for kind in ("lat", "probe", "hist") for i, t in enumerate(tr2) if t["kind"] == kind]
    tr2, scs2 = [tr2[i] for i in order], [scs2[i] for i in order]
    verdicts = _validate_concurrently(R, [g for g in groups if g[1]], nontrivial)
    for v in verdicts:
        if v.startswith("trace:"):
            raise tlc.MachineryError("malformed trace: " + v)
    R.extra["self_test_corrupted_traces_rejected"] = _self_test(tr2, verdicts)
    R.extra["lattice_states_replayed"] = n_lat
    R.extra["gradient_elements_observed"] = sum(len(t["E"]) for t in tr2 if t["kind"] == "probe")
    R.extra["single_element_raises_measured"] = sum(1 for t in tr2 if t["kind"] == "probe" for e in t["E"] if e["cu"] >= 0)
    R.extra["ordered_pairs"] = sum(len(t["pairs"]) for t in tr2 if t["kind"] == "probe") + sum(len(t["succ"]) * len(t["obs"]) for t in tr2 if t["kind"] == "lat")
    R.extra["histories_replayed"] = sum(1 for t in tr2 if t["kind"] == "hist")
    R.extra["cost_reads_in_histories"] = sum(len(e["reads"]) for t in tr2 if t["kind"] == "hist" for e in t["ev"])
    for s, t in list(zip(scs2, tr2))[:: max(1, len(scs2) // 4)][:4]:
        if t["kind"] == "hist":
            R.sample({"scenario": {k: s.get(k) for k in ("method", "variant", "hist")}, "observed": [(e["a"], e["b"], [r["c"] for r in e["reads"]]) for e in t["ev"]]})
        elif t["kind"] == "lat":
            R.sample({"scenario": {"arch": s["arch"], "A": s["A"], "succ": s["succ"][:2]}, "observed": {"obs": t["obs"][:4], "orig": t["orig"][:2]}})
        else:
            R.sample({"scenario": {k: s.get(k) for k in ("method", "metric", "disc", "single", "w", "wp", "ap", "seed")},
                      "observed": {"c": t["c"], "k10": t["k10"], "ng": t["ng"], "pert": t["pert"], "inp": t["inp"], "E": t["E"][:4],
                                   "pairs": [{"clo": p["clo"], "chi": p["chi"]} for p in t["pairs"]], "open": t["open"]}})
    R.exhaustive = False
    return R.finish()
