"""C08 - see pitfam.py (shared PIT graph/mask family driver) and DESIGN.md section 5."""
from .pitfam import run_family


def run(tier, seed, replay=None):
    return run_family("C08", tier, seed, replay)
