"""Shared driver of the PIT graph/mask family: C01, C04, C08, C09 (specs: MaskAlgebra, FeatGraph, PITTrace).

spec -> code : states dumped by TLC from MaskAlgebraMC / FeatGraphMC are executed on the real PIT model
code -> spec : every executed scenario (also the seeded random ones, outside the exhaustive bounds) is logged
               and validated by TLC with PITTrace, which recomputes every reference value from the logged
               architecture and masks with the operators of FeatGraph / MaskAlgebra.
"""
from __future__ import annotations

import json
import random
from typing import Any, Dict, List

from .. import pitgen, tlc
from ..core import Run, use_repo

BIG = pitgen.BIG


def _props(pid):
    return {"C01": pid == "C01", "C04": pid == "C04", "C08": pid == "C08", "C09": pid == "C09"}


def single_layer_arch(K: int, d0: int, cin=2, cout=3, k2=2, sp=12, bias=True, bn=False, stride=1):
    return {"dim": 1, "c0": cin, "sp": sp, "nodes": [
        {"op": "conv", "ins": [0], "out": cout, "k": K, "d": d0, "s": stride, "causal": True, "bias": bias, "bn": bn},
        {"op": "relu", "ins": [1]},
        {"op": "conv", "ins": [2], "out": 2, "k": k2, "d": 1, "causal": True, "bias": True}]}


def glen(K):
    return max((K - 1).bit_length(), 1)


COSTSETS = [
    [{"name": "p", "metric": "params"}, {"name": "o", "metric": "ops"}],
    [{"name": "pn", "metric": "params_no_bias"}, {"name": "on", "metric": "ops_no_bias"}],
    [{"name": "p", "metric": "params", "full": True}, {"name": "o", "metric": "ops", "full": True}],
    [{"name": "only", "metric": "params", "single": True}],
    [{"name": "only", "metric": "ops", "single": True}],
]
COSTSETS_2D = COSTSETS + [[{"name": "g", "metric": "gap8_latency"}, {"name": "p", "metric": "params"}],
                          [{"name": "g", "metric": "gap8_latency", "full": True}]]


def _graph_state_scenarios(states, pid, rng, limit, folds=(False,), costs=False) -> List[Dict[str, Any]]:
    masked = [s for s in states if s["phase"] == "masked"]
    if limit and len(masked) > limit:
        # stratify by number of nodes and op multiset so that rare shapes survive the sampling
        buckets: Dict[str, list] = {}
        for s in masked:
            key = ",".join(sorted(n["op"] + ("d" if n["dw"] else "") + ("x" if n["excl"] else "") for n in s["arch"]["nodes"]))
            buckets.setdefault(key, []).append(s)
        keys = sorted(buckets)
        out = []
        while len(out) < limit and keys:
            for k in list(keys):
                b = buckets[k]
                if not b:
                    keys.remove(k)
                    continue
                out.append(b.pop(rng.randrange(len(b))))
                if len(out) >= limit:
                    break
        masked = out
    scs = []
    for s in masked:
        arch = pitgen.arch_from_tla(s["arch"])
        reps = pitgen.comp_reps(arch)
        alive = pitgen.alive_for_layers(arch, pitgen.fun_items(s["f"]), reps)
        # layers whose width the MODEL says is frozen (tied to the network input / output): try to prune them anyway -
        # "for every value of the architectural parameters" they must keep their full width
        from ..archgen import shapes as _shapes
        sh_ = _shapes(arch)
        for n_ in reps:
            if str(n_) not in alive and rng.random() < 0.7:
                w_ = sh_[n_]["ch"]
                alive[str(n_)] = sorted({c for c in range(1, w_ + 1) if rng.random() < 0.5} | {w_})
        for fold in folds:
            sc = {"arch": arch, "fold": fold, "seed": rng.randrange(10 ** 6), "alive": alive, "tm": {},
                  "props": _props(pid), "src": "tlc-graph"}
            if costs:
                sc["costs"] = rng.choice(COSTSETS)
            scs.append(sc)
    return scs


def _is_open(s) -> bool:
    b = s["b"]
    vals = [v for _, v in pitgen.fun_items(b)] if not isinstance(b, dict) else list(b.values())
    return all(v > 5 for v in vals)


def _pattern_scenarios(states, pid, rng, d0s=(1, 2, 3)) -> List[Dict[str, Any]]:
    scs = []
    for s in states:
        K = s["K"]
        b = [v for _, v in sorted(pitgen.fun_items(s["b"]))] if not isinstance(s["b"], dict) else [s["b"][i] for i in range(K)]
        g = [s["g"][i] for i in range(glen(K))] if isinstance(s["g"], dict) else list(s["g"])
        d0 = s["d0"]
        if d0 not in d0s:
            continue
        k2 = rng.choice([1, 2, 3])
        arch = single_layer_arch(K, d0, k2=k2, bias=rng.random() < 0.7, bn=rng.random() < 0.3)
        tm = {"1": {"b": b, "g": g}}
        if k2 > 1 and rng.random() < 0.5:
            tm["3"] = {"b": [rng.choice([0, 10]) for _ in range(k2)], "g": [rng.choice([0, 10]) for _ in range(glen(k2))]}
        scs.append({"arch": arch, "fold": rng.random() < 0.3, "seed": rng.randrange(10 ** 6),
                    "alive": {"1": sorted({c for c in (1, 2, 3) if rng.random() < 0.6} | {3})},
                    "tm": tm, "props": _props(pid), "src": "tlc-pattern"})
    return scs


def _random_scenarios(pid, rng, n, *, costs=False, findings=False) -> List[Dict[str, Any]]:
    scs = []
    while len(scs) < n:
        dim = rng.choice([1, 1, 2])
        arch = pitgen.random_arch(rng, dim=dim, max_nodes=rng.randint(2, 8), allow_excl=findings and rng.random() < 0.5,
                                  kernels=(1, 2, 3, 4, 5, 7, 9), standalone_bn=True, explicit_sym_pad=True)
        if not any(nd["op"] in ("conv", "lin") and not nd["excl"] for nd in arch["nodes"]) or pitgen.rejected_fusion(arch):
            continue
        pitgen.drop_affine(rng, arch)
        # (time masks on explicitly, symmetrically padded layers: outside C01's domain, inside that of the others)
        m = pitgen.random_masks(rng, arch, p_prune=rng.choice([0.2, 0.5, 0.8]), noncausal_time=(pid != "C01"))
        sc = {"arch": arch, "fold": rng.random() < 0.4, "seed": rng.randrange(10 ** 6), "alive": m["alive"], "tm": m["tm"],
              "props": _props(pid), "src": "random"}
        if costs:
            sc["costs"] = rng.choice(COSTSETS_2D if dim == 2 else COSTSETS)
        scs.append(sc)
    return scs


def _trained_scenarios(pid, rng, n, *, costs=False) -> List[Dict[str, Any]]:
    """Masks reached by a real optimizer (SGD on the architectural parameters, loss + strength * cost)."""
    scs = []
    while len(scs) < n:
        dim = rng.choice([1, 1, 2])
        arch = pitgen.random_arch(rng, dim=dim, max_nodes=rng.randint(3, 8), kernels=(1, 2, 3, 4, 5, 7, 9),
                                  standalone_bn=True, explicit_sym_pad=True)
        if not any(nd["op"] in ("conv", "lin") and not nd["excl"] for nd in arch["nodes"]) or pitgen.rejected_fusion(arch):
            continue
        pitgen.drop_affine(rng, arch)
        sc = {"arch": arch, "fold": rng.random() < 0.4, "seed": rng.randrange(10 ** 6), "alive": {}, "tm": {},
              "train": {"steps": rng.randint(1, 8), "lr": rng.choice([0.05, 0.2, 0.5, 2.0]),
                        "strength": rng.choice([1e-3, 1e-2, 0.1, 1.0]), "task": rng.choice([0.0, 0.01, 1.0]),
                        "discrete": rng.random() < 0.3, "seed": rng.randrange(10 ** 6)},
              "props": _props(pid), "src": "trained"}
        sc["costs"] = rng.choice(COSTSETS_2D if dim == 2 else COSTSETS) if costs else [{"name": "p", "metric": "params"}]
        scs.append(sc)
    return scs


def _c08_adversarial(rng, n) -> List[Dict[str, Any]]:
    """Arbitrary real mask parameters incl. all-zero / negative / huge / denormal values, written raw."""
    specials = [0.0, -0.0, 1e30, -1e30, 0.5, -0.5, 0.4999999, 0.5000001, 1e-38, -1e-38, 1.0, -1.0, 3.0e38, 0.25]
    scs = []
    from ..archgen import shapes
    while len(scs) < n:
        dim = rng.choice([1, 1, 2])
        arch = pitgen.random_arch(rng, dim=dim, max_nodes=rng.randint(2, 7), kernels=(1, 2, 3, 4, 5, 6, 7, 8, 9),
                                  standalone_bn=True, explicit_sym_pad=True)
        if not any(nd["op"] in ("conv", "lin") and not nd["excl"] for nd in arch["nodes"]) or pitgen.rejected_fusion(arch):
            continue
        pitgen.drop_affine(rng, arch)
        sh = shapes(arch)
        alpha, tmraw = {}, {}
        mode = rng.choice(["zero", "neg", "huge", "mix", "mix", "rand"])

        def val():
            if mode == "zero":
                return 0.0
            if mode == "neg":
                return -abs(rng.gauss(0, 1))
            if mode == "huge":
                return rng.choice([1e30, -1e30])
            if mode == "mix":
                return rng.choice(specials)
            return rng.gauss(0, 0.6)
        for i, nd in enumerate(arch["nodes"], start=1):
            if nd["op"] in ("conv", "lin") and not nd["excl"]:
                alpha[str(i)] = [val() for _ in range(sh[i]["ch"])]
                # rf / dilation masks only where the PIT README allows them: padding='same' or an explicit causal pad
                # (an un-padded convolution changes its output length when taps are pruned: documented as unsupported)
                if dim == 1 and nd["op"] == "conv" and nd["s"] == 1 and not nd.get("valid"):
                    tmraw[str(i)] = {"beta": [val() for _ in range(nd["k"])], "gamma": [val() for _ in range(glen(nd["k"]))]}
        scs.append({"arch": arch, "fold": rng.random() < 0.3, "seed": rng.randrange(10 ** 6), "alpha": alpha, "tmraw": tmraw,
                    "props": _props("C08"), "src": "adversarial-" + mode})
    return scs


PRE_OPS = ["freeze_features", "freeze_rf", "freeze_dilation", "train_net_only", "train_nas_only", "train_net_and_nas",
           "summary", "cost", "continuous_cost", "discrete_cost", "train_mode_roundtrip", "export", "respec", "respec_switch",
           "fork"]


def _add_histories(scs, rng, frac=0.4):
    """A random history of calls (trainability switches, observers, mode round trips) between writing the masks and
    observing: none of them may change what the masked network computes, reports or exports."""
    for sc in scs:
        if "pre" not in sc and rng.random() < frac:
            sc["pre"] = [rng.choice(PRE_OPS) for _ in range(rng.randint(1, 4))]
            # the masks are written at a random point of the history (calls before it see the fresh model)
            sc["pre"].insert(rng.randint(0, len(sc["pre"])), "set_masks")
        if "xb" not in sc and rng.random() < 0.2:
            sc["xb"] = rng.choice([2, 3, 4])        # conversion traced with a mini-batch (input_example) instead of a shape
        if "variant" not in sc:
            # autoconvert on (default) / off with user-placed PIT layers / exclusion by type instead of by name
            sc["variant"] = rng.choices(["auto", "manual", "types"], weights=[6, 3, 1])[0]


def _life_base(which, rng, pid):
    """Two fixed pruned networks on which every call history of PITLifeMC is replayed."""
    if which == 0:      # 1-D: causal conv (K=5) -> relu -> shared group with a depthwise conv -> flatten -> linear
        arch = {"dim": 1, "c0": 2, "sp": 8, "nodes": [
            {"op": "conv", "ins": [0], "out": 4, "k": 5, "d": 1, "causal": True, "bn": True},
            {"op": "relu", "ins": [1]},
            {"op": "conv", "ins": [2], "out": 4, "k": 3, "d": 2, "causal": True},
            {"op": "add", "ins": [2, 3]},
            {"op": "conv", "ins": [4], "dw": True, "k": 3, "causal": True},
            {"op": "pool", "ins": [5]},
            {"op": "flat", "ins": [6]},
            {"op": "lin", "ins": [7], "out": 3}]}
        sc = {"arch": arch, "alive": {"1": [2, 4], "3": [2, 4]},
              "tm": {"1": {"b": [0, 0, 10, 10, 10], "g": [0, 10, 10]}, "3": {"b": [0, 10, 10], "g": [10, 10]}}}
    else:               # 2-D: conv+bn -> dw -> conv -> pool -> flatten -> linear
        arch = {"dim": 2, "c0": 3, "sp": 4, "nodes": [
            {"op": "conv", "ins": [0], "out": 6, "k": 3, "bn": True},
            {"op": "conv", "ins": [1], "dw": True, "k": 3},
            {"op": "relu", "ins": [2]},
            {"op": "conv", "ins": [3], "out": 4, "k": 1, "bias": False},
            {"op": "pool", "ins": [4]},
            {"op": "flat", "ins": [5]},
            {"op": "lin", "ins": [6], "out": 2}]}
        sc = {"arch": arch, "alive": {"1": [1, 4, 6], "4": [2, 4]}, "tm": {}}
    sc.update({"fold": rng.random() < 0.5, "seed": rng.randrange(10 ** 6), "props": _props(pid)})
    if pid == "C04":
        sc["costs"] = rng.choice(COSTSETS_2D if which else COSTSETS)
    return sc


def _key(sc):
    return {k: sc.get(k) for k in ("arch", "fold", "alive", "alpha", "tm", "tmraw", "costs", "pre", "variant", "train")}


def _nontrivial(sc) -> bool:
    """Something is pruned (channel, tap or dilation) in the scenario."""
    from ..archgen import shapes
    sh = shapes(sc["arch"])
    for n, al in sc.get("alive", {}).items():
        if len(al) < sh[int(n)]["ch"]:
            return True
    for n, bg in sc.get("tm", {}).items():
        if any(v <= 5 for v in bg["b"][:-1]) or any(v <= 5 for v in bg["g"][:-1]):
            return True
    for n, vals in sc.get("alpha", {}).items():
        if any(abs(v) <= 0.5 for v in vals[:-1]):
            return True
    if sc.get("_pruned_observed"):
        return True
    return False


def run_family(pid: str, tier: str, seed: int, replay=None) -> int:
    R = Run(pid, tier, seed, level="model_checking")
    use_repo()
    rng = random.Random(seed * 7919 + int(pid[1:]))
    quick = tier == "quick"
    R.assumptions = [
        "networks are built from the grammar of specs/FeatGraph.tla (conv incl. depthwise / linear / fused BN / relu / pooling / "
        "flatten / add / channel concat / time concat); 1-D convolutions are causally left-padded (ConstantPad1d + padding 0)",
        "float64 models; generic (random, non-degenerate) weights, positive biases and BN statistics; 'equal' means |diff| <= 1e-9*(1+max|y|)",
        "every BatchNorm re-created by export() is given the sliced statistics of the BatchNorm it replaces",
    ]
    if replay:
        sc = json.load(open(replay))["scenario"]
        tr = pitgen.run_scenarios([sc], procs=1)
        R.validate("PITTrace", "PITTrace", tr, [sc], key=_key)
        return R.finish()

    scs: List[Dict[str, Any]] = []
    # ---------------------------------------------------------------- design level + TLC-enumerated scenarios
    if pid in ("C01", "C08"):
        pat = pitgen.dump_states("MaskAlgebraMC", "MaskAlgebraMC_patterns_last", R)
        R.design("MaskAlgebraMC", "MaskAlgebraMC_values_last" if quick else "MaskAlgebraMC_values_last_thorough", workers=16)
        R.design("MaskAlgebraMC", "MaskAlgebraMC_patterns_tap0", expect_ok=False)      # sanity: the pinned anchoring violates
        if pid == "C01":
            scs += _pattern_scenarios(pat, pid, rng, d0s=(1, 2, 3))
            # non-saturated magnitudes (sums of 0.3 / 0.6 crossing the threshold): sample of the value-domain states
            vals = pitgen.dump_states("MaskAlgebraMC", "MaskAlgebraMC_values_small", R)
            vals = [v for v in vals if v["K"] >= 3]
            rng.shuffle(vals)
            vs = _pattern_scenarios(vals[: (400 if quick else 6000)], pid, rng, d0s=(1,))
            for sc in vs:
                sc["src"] = "tlc-values"
            scs += vs
            # wide kernels (K = 5, 7, 9: three / four dilation levels) x EVERY value assignment of the dilation parameters
            gv = pitgen.dump_states("MaskAlgebraMC", "MaskAlgebraMC_values_gamma", R)
            if quick:                  # the open receptive field always, the once-cut one for a seeded half
                gv = [v for v in gv if _is_open(v) or rng.random() < 0.5]
            gs = _pattern_scenarios(gv, pid, rng, d0s=(1,))
            for sc in gs:
                sc["src"] = "tlc-gamma-values"
            scs += gs
            # non-causal layouts (padding='same'; explicit symmetric ConstantPad1d): C01 covers them while no tap is pruned
            # (ExportEquivalentSameOpen); the design config below shows that with a pruned tap a re-centred kernel reads
            # other samples - the reason why the property restricts time pruning to causally padded layers
            R.design("MaskAlgebraMC", "MaskAlgebraMC_patterns_same", expect_ok=False)
            for K in (2, 3, 4, 5, 7, 9):
                for lay in ("zeros", "replicate", "circular", "sym"):
                    d0 = 1 + K % 2
                    if lay == "sym" and ((K - 1) * d0) % 2:
                        d0 = 2
                    arch = single_layer_arch(K, d0, k2=1)
                    arch["nodes"][0].update({"causal": False, "sym": True} if lay == "sym" else {"causal": False, "pm": lay})
                    scs.append({"arch": arch, "fold": K % 2 == 0, "seed": K * 31, "alive": {"1": [1, 3]},
                                "tm": {"1": {"b": [10] * K, "g": [10] * glen(K)}},
                                "props": _props(pid), "src": "non-causal-open"})
    if pid in ("C09", "C01", "C04"):
        # a ONE-channel tensor flattened into the features of a linear layer, spelled x.squeeze(1) (archgen: flat at an even
        # position) and nn.Flatten (odd position): alive x T features either way
        for nodes in ([{"op": "conv", "ins": [0], "out": 1, "k": 3, "causal": True}, {"op": "flat", "ins": [1]},
                       {"op": "lin", "ins": [2], "out": 3}],
                      [{"op": "conv", "ins": [0], "out": 1, "k": 2, "causal": True}, {"op": "relu", "ins": [1]}, {"op": "flat", "ins": [2]},
                       {"op": "lin", "ins": [3], "out": 2}],
                      [{"op": "conv", "ins": [0], "out": 3, "k": 3, "causal": True}, {"op": "conv", "ins": [1], "out": 1, "k": 1, "causal": True},
                       {"op": "relu", "ins": [2]}, {"op": "flat", "ins": [3]}, {"op": "lin", "ins": [4], "out": 2}]):
            from ..archgen import norm_arch as _na
            arch = _na({"dim": 1, "c0": 2, "sp": 6, "nodes": nodes})
            for al in ([1, 2, 3], [3], [2, 3]):
                alive = {str(i): ([1] if nd["out"] == 1 else [c for c in al if c <= nd["out"]] or [nd["out"]])
                         for i, nd in enumerate(arch["nodes"], start=1) if nd["op"] in ("conv", "lin")}
                scs.append({"arch": arch, "fold": False, "seed": 17 + len(scs), "alive": alive, "tm": {},
                            "props": _props(pid), "src": "one-channel-flatten", "costs": (COSTSETS[0] if pid == "C04" else [])})
    gcfg = "FeatGraphMC_quick" if (pid == "C09") else "FeatGraphMC_tiny"
    if pid == "C09" and not quick:
        R.design("FeatGraphMC", "FeatGraphMC_thorough", workers=16, timeout=7200)
    states = pitgen.dump_states("FeatGraphMC", gcfg, R, workers=16, timeout=3600)
    if pid == "C09":
        # 2-D grammar (rectangular tensors, height-axis concat with positive / negative axis index), <= 3 nodes: all states
        st2 = pitgen.dump_states("FeatGraphMC", "FeatGraphMC_tiny2d", R, workers=16, timeout=3600)
        s2 = _graph_state_scenarios(st2, pid, rng, 0 if not quick else 700)
        for sc in s2:
            sc["src"] = "tlc-graph-2d"
        scs += s2
        R.design("FeatGraphMC", "FeatGraphMC_asis", expect_ok=False)    # sanity: without Supported() the invariants fail
        tiny = [s for s in states if len(s["arch"]["nodes"]) <= 3]
        rest = [s for s in states if len(s["arch"]["nodes"]) > 3]
        scs += _graph_state_scenarios(tiny, pid, rng, 0)
        scs += _graph_state_scenarios(rest, pid, rng, 500 if quick else 8000)
    else:
        lim = {"C01": 500, "C04": 600, "C08": 300}[pid] if quick else 0
        scs += _graph_state_scenarios(states, pid, rng, lim, folds=(False, True) if pid == "C01" else (False,),
                                      costs=(pid == "C04"))
    # every call history up to the bound of PITLifeMC, replayed between writing the masks and observing
    if pid in ("C01", "C04"):
        hs = pitgen.dump_states("PITLifeMC", "PITLifeMC_quick" if quick else "PITLifeMC_thorough", R)
        for st in hs:
            if not st["hist"]:
                continue
            for which in (0, 1):
                sc = _life_base(which, rng, pid)
                sc["pre"] = list(st["hist"])
                sc["src"] = "tlc-life"
                scs.append(sc)
    # layers invoked twice (weight sharing): states of the reuse grammar that contain a reused layer
    rst = []
    if pid in ("C04", "C08", "C09"):
        rst = pitgen.dump_states("FeatGraphMC", "FeatGraphMC_reuse", R, workers=16, timeout=3600)
        rst = [s_ for s_ in rst if any(n["reuse"] for n in s_["arch"]["nodes"])]
        scs_r = _graph_state_scenarios(rst, pid, rng, 250 if quick else 4000, costs=(pid == "C04"))
        for sc in scs_r:
            sc["src"] = "tlc-graph-reuse"
        scs += scs_r
    # C08 on architectures: all-minimum masks on every enumerated architecture
    if pid == "C08":
        seen = set()
        # (weight-shared architectures first: the masker a twice-called layer ends up with depends on the visit order)
        n_reuse = 0
        for s in rst + states:
            if s["phase"] != "masked":
                continue
            k = json.dumps(s["arch"], sort_keys=True, default=str)
            if k in seen:
                continue
            if any(n["reuse"] for n in s["arch"]["nodes"]):
                if quick and n_reuse >= 80:
                    continue
                n_reuse += 1
            seen.add(k)
            arch = pitgen.arch_from_tla(s["arch"])
            from ..archgen import shapes
            sh = shapes(arch)
            alpha = {str(i): [0.0] * sh[i]["ch"] for i, nd in enumerate(arch["nodes"], start=1)
                     if nd["op"] in ("conv", "lin") and not nd["excl"]}
            tmraw = {str(i): {"beta": [0.0] * nd["k"], "gamma": [0.0] * glen(nd["k"])}
                     for i, nd in enumerate(arch["nodes"], start=1)
                     if nd["op"] == "conv" and arch["dim"] == 1 and not nd["excl"] and not nd.get("valid")}
            scs.append({"arch": arch, "fold": False, "seed": 1, "alpha": alpha, "tmraw": tmraw, "props": _props(pid),
                        "src": "all-min"})
            if quick and len(seen) >= 330:
                break
    # ---------------------------------------------------------------- random drivers beyond the exhaustive bounds
    n_rand = {"C01": 250, "C04": 250, "C08": 150, "C09": 200}[pid] * (1 if quick else 12)
    scs += _random_scenarios(pid, rng, n_rand, costs=(pid == "C04"), findings=(pid == "C09"))
    scs += _trained_scenarios(pid, rng, (80 if quick else 1200), costs=(pid == "C04"))
    if pid == "C08":
        scs += _c08_adversarial(rng, 200 if quick else 3000)

    from ..archgen import norm_arch
    for sc in scs:
        sc["arch"] = norm_arch(sc["arch"])
    _add_histories(scs, rng)
    import time as _t
    t0 = _t.time()
    traces = pitgen.run_scenarios(scs)
    R.extra["exec_wall_s"] = round(_t.time() - t0, 1)
    for sc, tr in zip(scs, traces):
        if sc.get("train") and any(0 in l.get("mask", []) or 0 in l.get("tmask", []) for l in tr.get("L", [])):
            sc["_pruned_observed"] = True
    R.validate("PITTrace", "PITTrace", traces, scs, nontrivial=_nontrivial, key=_key, label="all scenarios", chunk=1500)
    by_src: Dict[str, int] = {}
    for s in scs:
        by_src[s["src"]] = by_src.get(s["src"], 0) + 1
    R.extra["scenarios_by_source"] = by_src
    for s, t in list(zip(scs, traces))[:: max(1, len(scs) // 3)][:3]:
        R.sample({"scenario": {k: s.get(k) for k in ("arch", "fold", "alive", "tm", "src", "costs")},
                  "observed": {"L": [{k: l[k] for k in ("n", "mask", "told_n", "sum_in", "sum_out", "tmask")} for l in t["L"]],
                               "E": {k: t["E"][k] for k in ("export_ok", "run_ok", "shape_ok", "out_equal")},
                               "cost": t["cost"]}})
    R.rule = ("scenario = (architecture, fold_bn, per-layer alive channel sets, per-Conv1d abstract rf/dilation masks"
              + (", cost specification" if pid == "C04" else "") + "); sources: every state TLC enumerates for the design configs "
              "(time-mask patterns K<=12 x d0<=3; grammar architectures x alive assignments), stratified samples of the larger dumps, "
              "and seeded random architectures/masks beyond the bounds (up to ~10 nodes, widths <= 6, kernels 1..9, stride 1..2, 1-D and 2-D). "
              "Non-trivial = at least one channel, tap or dilation level is pruned; distinct = canonical JSON of the scenario.")
    if pid == "C09":
        # MPS half of C09 (0-bit channel pruning of a per-channel mixed-precision search): specs MPSFeat*, own driver
        from . import c09_mps
        c09_mps.add_to_run(R, tier, seed)
    return R.finish()
