"""C14 - integer (MATCH / MAUPITI) layers reproduce their fake-quantised counterparts.

design level : IntegerizeMC (TLC, exhaustive one-step enumerations over specs/IntegerArith.tla):
               mode "layer"  tiny integer layers (in/out bits 2/4, two inputs, integer weights and bias, dyadic targets,
                             scale_bit / shift_pos <= 12): |Requant - image of the fake-quantised layer| <= 1 + floor(bound)
                             (and the sharp form <= ceil(bound)), MAUPITI (offset inputs + zero-point + padding value) =
                             MATCH + lo, declared ranges, binary_search = clip(ceil(T*2^sh)), the selected shift is the
                             first strict minimiser of the mean error; the big-number operators used at trace level
                             agree with the plain ones;
               mode "approx" _integer_approximation with two channels under the 32-bit bias*scale constraint;
               mode "edge"   the BOUNDARY of the documented option ranges with unbounded integers: shift_pos 32 (shifts
                             0..31), 1 and 0, scale_bit 1..32, targets tm/2^s with odd tm for EVERY s in 0..31 (the exact shift
                             is the selected one: EdgeEveryShift), level clause / MAUPITI = MATCH + lo / ranges at scales up to
                             2^31; sanity variant "2^shift evaluated in 32-bit two's complement" must fail at shift 31;
               mode "big"    the big-number library against TLC's native integers.
               Expected-to-fail sanity configurations: asis zero-point with mixed activation bits (= F14 at design
               level), round instead of floor, dropped bias, zero-point sign.
spec -> code : every "done" state of the replay configuration is executed on REAL MATCHLinear / MATCHConv2d /
               MAUPITILinear / MAUPITIConv2d objects (constructor and forward; stub quantisers supply exactly dyadic
               scales), every "sel" state of mode "approx" on the real _integer_approximation of the four classes; every
               state of mode "edge" on the real MATCH classes with the state's scale_bit / shift_pos (MAUPITI where its
               constants 16 / 32 can represent the target).  Vacuity guard: every shift 0..31 must have been selected by a
               real MATCH layer, shift 0 and shift 31 also by layers of generated NETWORKS (MATCH options include
               shift_pos 32 with scale_bit 8/16/24/32, (32,1), (1,32), (1,1); low-precision networks with biases below one
               output level let the largest shifts through the 32-bit guard); the histogram of selected shifts is in the
               evidence (coverage.selected_shifts).
code -> spec : seeded random sequential / depthwise-separable 2-D networks -> MPS.export() ->
               integerize_arch(deepcopy(...), backend); every integer layer is compared with its fake-quantised
               counterpart on the image of the activations produced by the integer network itself; TLC
               (IntegerizeTrace) decides ranges / integer-ness, the level clause per layer and per sampled element (bound
               recomputed from the logged operands with big-number arithmetic), the final-logits clause, and recomputes
               scale, zero-point and requantised output of the sampled elements.

life cycle   : IntegerizeLife (TLC): every history (forward / load_state_dict / optimizer step / in-place weight edit /
               conversions with different option sets, bounded length) between MPS.export() and integerize_arch; invariants:
               integer weights and s_w (hence scale / shift / integer bias) come from the CURRENT weights whatever the age
               of the weight-quantiser statistics, the options are those of THIS call (declared defaults where omitted), every
               Quant layer is replaced for every nesting of the model, process defaults and the caller's kwargs are untouched;
               expected-to-fail variants "stale statistics", "sticky defaults", "flat names only".  Every enumerated history
               of maximal length that ends with a conversion is replayed on the real library - each in a process of its own,
               forked from the driver, so that process-level state cannot leak between scenarios - on flat models and on
               models with nested containers (nn.Sequential root, blocks in Sequentials, ModuleDict with word / numeric keys,
               ModuleList, layers reachable through two attribute paths), Conv2d and Linear, both backends; per conversion
               TLC judges (IntegerizeTrace, kind "life", walking the history with the life-cycle operators of IntegerArith):
               type census of the graph of the result, weights version behind s_w and behind the integer weights (reference
               values: the layer's own weight quantiser run on the snapshot of every version), options the layers were built
               with, caller's kwargs unchanged, and all clauses of a network scenario.

Stated tolerances:
  * level clause: |diff| <= max(1 + floor(B), gap) with, per element,
      B = |acc+b| * |scale/2^shift - T|                    (the layer's own scale/shift approximation; T = float32 target)
        + T * (|acc| * |(1+e_in)/(1+e_out) - 1| + |b| * e_out/(1+e_out))     e = 1e-3/clip: PACT divides by clip+1e-3 but
                                                           reports clip/(2^p-1) (the stabiliser tolerance stated for C13)
        + (n_terms+8) * 2^-23 * T * (sum|w*x| + |b|) + 2^-10                  (float32 evaluation of the fake layer)
      gap = (2^p - 1) - top level PACT can emit (1 for every clip >= 0.26; the same stabiliser).
  * final logits: |got - logits| <= e_in * |acc| * unit (+ |acc+b| * |scale/2^shift - T| for MAUPITI)
                  + 2 * (n_terms+8) * 2^-23 * unit * (sum|w*x| + |b|) + 1e-9
                  (+ (|acc'*scale| + |zero_point|) / 2^shift * 2^-22 for MAUPITI: its float32 evaluation of two large
                  cancelling terms; the same term is part of the level bound of every layer).
  * "output = Requant(operands)" (prediction, drift only) is evaluated where the exact value is further from an integer
    than 2^-21 relative round-off of the float32 evaluation.
"""
from __future__ import annotations

import json
import random
import time
from typing import Any, Dict, List

from ..core import Run, use_repo
from .. import tlc
from .. import intnet
from ..pitgen import dump_states

BITS = [2, 4, 8]


def _canon(x: Any) -> str:
    return json.dumps(x, sort_keys=True, default=str)


# ------------------------------------------------------------------------------------------------
# spec -> code: scenarios from TLC dumps
# ------------------------------------------------------------------------------------------------
def _tiny_scenarios(states: List[Dict[str, Any]], rng: random.Random, all_combos: bool, n_states: int, n_predict_mau: int):
    done = sorted((s for s in states if s["ph"] == "done"), key=_canon)      # TLC's dump order depends on the workers
    if n_states and len(done) > n_states:
        done = rng.sample(done, n_states)
    scs = []
    for i, s in enumerate(done):
        combos = [("match", "lin"), ("match", "conv"), ("maupiti", "lin"), ("maupiti", "conv")]
        if s["x"][1] == 0:
            combos += [("match", "convpad"), ("maupiti", "convpad")]
        if not all_combos:
            combos = [combos[(i + rng.randrange(len(combos))) % len(combos)]]
        for bk, cls in combos:
            scs.append({"kind": "tiny", "backend": bk, "cls": cls, "ib": s["ib"], "ob": s["ob"], "w": list(s["w"]),
                        "x": list(s["x"]), "b": s["b"][0], "tm": s["tm"][0], "te": s["te"], "sbit": s["sbit"],
                        "spos": s["spos"], "predict": False})
    # the shift selection depends on (class, target, bias, options) only: predict it once per distinct input
    # (MAUPITI needs the big-number ShiftSelect over 32 shifts: a seeded sample of those)
    seen = set()
    mau = []
    for sc in scs:
        k = (sc["backend"], sc["cls"], sc["tm"], sc["te"], sc["b"], sc["sbit"], sc["spos"])
        if k in seen:
            continue
        seen.add(k)
        if sc["backend"] == "match":
            sc["predict"] = True
        else:
            mau.append(sc)
    for sc in rng.sample(mau, min(n_predict_mau, len(mau))):
        sc["predict"] = True
    return scs


def _edge_scenarios(states: List[Dict[str, Any]], rng: random.Random, n_predict: int):
    """Boundary of the option ranges (IntegerizeMC mode "edge"): every "done" state on the real MATCH classes with the
    state's scale_bit / shift_pos; MAUPITI (constants 16 / 32 whatever the options) once per distinct operand set whose
    target it can represent exactly at its own exact shift.  Every "sel" state on the real _integer_approximation."""
    done = sorted((s for s in states if s["ph"] == "done"), key=_canon)
    tiny, seen = [], set()
    for i, s in enumerate(done):
        base = {"kind": "tiny", "ib": s["ib"], "ob": s["ob"], "w": list(s["w"]), "x": list(s["x"]), "b": s["b"][0],
                "tm": s["tm"][0], "te": s["te"], "sbit": s["sbit"], "spos": s["spos"], "predict": False}
        cls = ("lin", "conv", "convpad")[i % 3] if s["x"][1] == 0 else ("lin", "conv")[i % 2]
        tiny.append(dict(base, backend="match", cls=cls))
        k = (s["ib"], s["ob"], tuple(s["w"]), tuple(s["x"]), s["b"][0], s["tm"][0], s["te"])
        if k not in seen and s["tm"][0] <= 2 ** 15:
            seen.add(k)
            tiny.append(dict(base, backend="maupiti", cls=cls))
    for sc in rng.sample(tiny, min(n_predict, len(tiny))):
        sc["predict"] = True
    approx = []
    for s in sorted((s for s in states if s["ph"] == "sel"), key=_canon):
        for cls in ("lin", "conv"):
            approx.append({"kind": "approx", "backend": "match", "cls": cls, "tms": list(s["tm"]), "te": s["te"],
                           "bs": list(s["b"]), "sbit": s["sbit"], "spos": s["spos"], "predict": False})
    for sc in rng.sample(approx, min(n_predict, len(approx))):
        sc["predict"] = True
    return tiny, approx


def _approx_scenarios(states: List[Dict[str, Any]], rng: random.Random, n_predict: int):
    sel = sorted((s for s in states if s["ph"] == "sel"), key=_canon)
    scs = []
    for s in sel:
        for bk in ("match", "maupiti"):
            for cls in ("lin", "conv"):
                scs.append({"kind": "approx", "backend": bk, "cls": cls, "tms": list(s["tm"]), "te": s["te"],
                            "bs": list(s["b"]), "sbit": s["sbit"], "spos": s["spos"], "predict": bk == "match"})
    # MAUPITI ignores scale_bit / shift_pos (constants 16 / 32 in its code): one replay per distinct input is enough
    seen, out = set(), []
    for sc in scs:
        k = (sc["backend"], sc["cls"], tuple(sc["tms"]), sc["te"], tuple(sc["bs"])) + \
            ((sc["sbit"], sc["spos"]) if sc["backend"] == "match" else ())
        if k not in seen:
            seen.add(k)
            out.append(sc)
    mau = [sc for sc in out if sc["backend"] == "maupiti"]
    for sc in rng.sample(mau, min(n_predict, len(mau))):
        sc["predict"] = True
    return out


# ------------------------------------------------------------------------------------------------
# code -> spec: random networks
# ------------------------------------------------------------------------------------------------
def _conv(rng, **kw):
    d = {"op": "conv", "out": rng.choice([2, 3, 4, 6]), "k": [3, 3], "s": 1, "p": [1, 1], "d": [1, 1], "dws": False,
         "bias": True, "bn": False, "relu": True, "wb": 8, "ab": 8, "clip": 6000}
    d.update(kw)
    return d


def random_net(rng: random.Random, idx: int) -> Dict[str, Any]:
    """A sequential / depthwise-separable 2-D network of the property's grammar (without backend)."""
    uniform = rng.random() < 0.7                       # one activation precision everywhere (input included)
    abits = rng.choice(BITS + [8])
    in_bits = abits if uniform else rng.choice(BITS)

    def ab():
        return abits if uniform else rng.choice(BITS)

    def common():
        bias = rng.random() < 0.95
        bn = rng.random() < 0.35
        return {"bias": bias, "bn": bn, "wb": rng.choice(BITS), "ab": ab(), "clip": rng.choice([1000, 2500, 6000])}
    h = rng.choice([5, 6, 8])
    w = rng.choice([h, h, 8])
    c0 = rng.choice([1, 2, 3])
    layers: List[Dict[str, Any]] = []
    ch, hh, ww = c0, h, w
    special = rng.random()
    for bi in range(rng.choice([1, 2, 2, 3])):
        kind = rng.random()
        if kind < 0.22 and bi > 0:                     # depthwise-separable block
            dws = _conv(rng, dws=True, out=ch, **common())
            dws["relu"] = rng.random() < 0.7
            if special < 0.25:                         # dilated depthwise conv (F30 on MATCH)
                dws.update(k=[3, 1], d=[2, 1], p=[2, 0])
            layers.append(dws)
            layers.append(_conv(rng, k=[1, 1], p=[0, 0], **common()))
            ch = layers[-1]["out"]
        else:
            shape = rng.random()
            if shape < 0.55:
                k, p = [3, 3], rng.choice([[1, 1], [1, 1], [0, 0]])
            elif shape < 0.70:
                k, p = [1, 1], [0, 0]
            elif shape < 0.80:
                k, p = [5, 3], rng.choice([[2, 1], [0, 0]])
            elif shape < 0.90:
                k, p = [3, 1], rng.choice([[1, 0], [0, 0]])
            else:
                k, p = [1, 3], rng.choice([[0, 1], [0, 0]])
            d = [1, 1]
            r = rng.random()
            if k == [3, 1] and r < 0.5:
                d, p = [2, 1], rng.choice([[2, 0], [0, 0]])
            elif k == [1, 3] and r < 0.5:
                d, p = [1, 2], rng.choice([[0, 2], [0, 0]])
            s = 2 if rng.random() < 0.2 else 1
            L = _conv(rng, k=k, p=p, d=d, s=s, **common())
            nh = (hh + 2 * p[0] - d[0] * (k[0] - 1) - 1) // s + 1
            nw = (ww + 2 * p[1] - d[1] * (k[1] - 1) - 1) // s + 1
            if nh < 1 or nw < 1:
                L.update(k=[1, 1], p=[0, 0], d=[1, 1], s=1)
                nh, nw = hh, ww
            hh, ww = nh, nw
            layers.append(L)
            ch = L["out"]
        if hh >= 4 and ww >= 4 and rng.random() < 0.3:
            layers.append({"op": "pool"})
            hh, ww = hh // 2, ww // 2
    if rng.random() < 0.06:                            # network ending in a conv (F31 on MAUPITI)
        layers.append(_conv(rng, k=[1, 1], p=[0, 0], relu=False, out=rng.choice([2, 3]), **common()))
        layers.append({"op": "flat"})
    else:
        layers.append({"op": "flat"})
        if rng.random() < 0.5:
            c = common()
            layers.append({"op": "lin", "out": rng.choice([3, 5, 8]), "relu": True, **c})
        c = common()
        layers.append({"op": "lin", "out": rng.choice([2, 3, 5]), "relu": False, **c})
    return {"kind": "net", "c0": c0, "h": h, "w": w, "in_bits": in_bits, "batch": 2, "gain": rng.choice([1.0, 2.5]),
            "wseed": rng.randrange(1 << 30), "xseed": rng.randrange(1 << 30), "layers": layers, "nsamp": 5, "idx": idx}


# MATCH option sets: ordinary ones and the extremes of the documented ranges (shift_pos 32 = shifts 0..31, shift_pos 1,
# scale_bit 1 / 8 / 32)
EDGE_OPTS = [(32, 32), (24, 32), (16, 32), (8, 32), (32, 1), (1, 32), (1, 1)]


def low_bias_net(rng: random.Random, idx: int) -> Dict[str, Any]:
    """Low activation precision (2 / 4 bits everywhere) and biases below one output level: the networks in which the
    32-bit guard on bias*scale lets the LARGEST shifts through."""
    ab = rng.choice([2, 4])
    c = {"bias": True, "bn": False, "ab": ab, "clip": rng.choice([2500, 6000])}
    layers = [_conv(rng, k=[3, 3], p=[1, 1], wb=rng.choice(BITS), **c)]
    if rng.random() < 0.5:
        layers.append(_conv(rng, k=[1, 1], p=[0, 0], wb=rng.choice(BITS), **c))
    layers.append({"op": "flat"})
    layers.append({"op": "lin", "out": rng.choice([3, 5]), "relu": True, "wb": rng.choice(BITS), **c})
    layers.append({"op": "lin", "out": 3, "relu": False, "wb": 8, **c})
    return {"kind": "net", "c0": 2, "h": 6, "w": 6, "in_bits": ab, "batch": 2, "gain": rng.choice([1.0, 2.5]),
            "bias_gain": rng.choice([0.0, 0.02, 0.1]), "wseed": rng.randrange(1 << 30), "xseed": rng.randrange(1 << 30),
            "layers": layers, "nsamp": 5, "idx": idx}


def net_scenarios(rng: random.Random, n: int, n_low: int) -> List[Dict[str, Any]]:
    scs = []
    for i in range(n):
        base = random_net(rng, i)
        if rng.random() < 0.25:
            sb, sp = rng.choice(EDGE_OPTS)
        else:
            sb, sp = rng.choice([16, 24, 24, 32]), rng.choice([16, 24, 24, 31])
        m = dict(base, backend="match", scale_bit=sb, shift_pos=sp)
        u = dict(base, backend="maupiti", scale_bit=16, shift_pos=32)
        scs += [m, u]
    # two fixed shapes so that every tier meets the scenario classes of F30 (dilated depthwise conv, MATCH) and F31
    # (network ending in a conv, MAUPITI) whatever the seed
    c = {"bias": True, "bn": False, "wb": 8, "ab": 8, "clip": 6000}
    dws = _conv(rng, dws=True, out=3, k=[3, 1], d=[2, 1], p=[2, 0], **c)
    probes = [[_conv(rng, out=3, **c), dws, {"op": "flat"}, {"op": "lin", "out": 3, "relu": False, **c}],
              [_conv(rng, out=3, **c), _conv(rng, out=2, k=[1, 1], p=[0, 0], relu=False, **c), {"op": "flat"}]]
    for j, layers in enumerate(probes):
        base = {"kind": "net", "c0": 2, "h": 6, "w": 6, "in_bits": 8, "batch": 2, "gain": 1.0, "wseed": rng.randrange(1 << 30),
                "xseed": rng.randrange(1 << 30), "layers": layers, "nsamp": 5, "idx": n + n_low + j}
        scs += [dict(base, backend="match", scale_bit=24, shift_pos=24), dict(base, backend="maupiti", scale_bit=16, shift_pos=32)]
    for i in range(n_low):
        base = low_bias_net(rng, n + i)
        sb, sp = EDGE_OPTS[i % 4]                                  # shift_pos 32 with scale_bit 32 / 24 / 16 / 8
        scs += [dict(base, backend="match", scale_bit=sb, shift_pos=sp), dict(base, backend="maupiti", scale_bit=16, shift_pos=32)]
    return scs


def shift_histogram(tiny_tr, net_tr, life_tr) -> Dict[str, Dict[str, Dict[int, int]]]:
    """selected shifts of REAL backend layer objects, per backend and scenario family"""
    h: Dict[str, Dict[str, Dict[int, int]]] = {"match": {}, "maupiti": {}}

    def add(bk, fam, sh):
        d = h[bk].setdefault(fam, {})
        d[sh] = d.get(sh, 0) + 1
    for t in tiny_tr:
        if not t["exc"]:
            add(t["backend"], "tiny", t["shift"])
    for t in net_tr:
        for l in t["layers"]:
            add(t["backend"], "net", l["shift"])
    for t in life_tr:
        for e in t["ev"]:
            if e["a"] == "int":
                for l in e["obs"]["layers"]:
                    add(e["backend"], "life", l["shift"])
    return {bk: {fam: dict(sorted(d.items())) for fam, d in fams.items()} for bk, fams in h.items()}


# ------------------------------------------------------------------------------------------------
# histories between export() and integerize_arch (IntegerizeLife)
# ------------------------------------------------------------------------------------------------
FLAT_LIFE_LAYERS = [
    {"op": "conv", "out": 3, "k": [3, 3], "s": 1, "p": [1, 1], "d": [1, 1], "dws": False, "bias": False, "bn": True,
     "relu": True, "wb": 8, "ab": 8, "clip": 2500},
    {"op": "conv", "out": 3, "k": [3, 3], "s": 1, "p": [1, 1], "d": [1, 1], "dws": True, "bias": True, "bn": False,
     "relu": True, "wb": 8, "ab": 8, "clip": 2500},
    {"op": "flat"},
    {"op": "lin", "out": 4, "bias": True, "bn": False, "relu": True, "wb": 8, "ab": 8, "clip": 2500},
    {"op": "lin", "out": 3, "bias": True, "bn": False, "relu": False, "wb": 8, "ab": 8, "clip": 2500}]
LIFE_BITS = [(8, 8), (4, 4), (8, 4), (2, 8)]


def life_model(nest: str, variant: int) -> Dict[str, Any]:
    wb, ab = LIFE_BITS[variant % len(LIFE_BITS)]
    if nest == "flat":
        layers = [dict(l, **({"wb": wb, "ab": ab} if l["op"] in ("conv", "lin") else {})) for l in FLAT_LIFE_LAYERS]
        return {"nest": "flat", "c0": 2, "h": 6, "w": 6, "in_bits": ab, "wseed": 11 + variant, "gain": 2.0, "layers": layers}
    return {"nest": nest, "c0": 2, "h": 6, "w": 6, "wb": wb, "ab": ab, "wseed": 11 + variant, "gain": 2.0}


def _life_scenarios(states: List[Dict[str, Any]], maxlen: int, n_variants: int, rng: random.Random, all_nests: bool):
    """One scenario per enumerated history of maximal length that ends with a conversion (every shorter history ending
    with a conversion is a prefix of one of them, and every conversion of a history is observed)."""
    hs = sorted((s for s in states if len(s["h"]) == maxlen and s["h"][-1]["a"] == "int"), key=_canon)
    scs = []
    for i, s in enumerate(hs):
        if s["nest"] == "any":
            nests = list(intnet.NESTS) if all_nests else [intnet.NESTS[i % len(intnet.NESTS)]]
        else:
            nests = [s["nest"]]
        for j, nest in enumerate(nests):
            ev = [{"a": e["a"], "k": e["k"]} if e["a"] == "upd" else
                  ({"a": "int", "backend": e["backend"], "sb": e["sb"], "sp": e["sp"]} if e["a"] == "int" else {"a": "fwd"})
                  for e in s["h"]]
            scs.append({"kind": "life", "model": life_model(nest, (i // len(intnet.NESTS) + j) % n_variants),
                        "xseed": rng.randrange(1 << 30), "nsamp": 2, "ev": ev})
    return scs


def _life_nontrivial(sc: Dict[str, Any]) -> bool:
    """Trivial = a flat model converted once, with statistics that are current anyway."""
    stale, ints, opts = False, 0, set()
    dirty = False
    for e in sc["ev"]:
        if e["a"] == "upd":
            dirty = True
        elif e["a"] == "fwd":
            dirty = False
        else:
            ints += 1
            opts.add((e["backend"], e["sb"], e["sp"]))
            stale = stale or dirty
    return stale or len(opts) > 1 or sc["model"]["nest"] != "flat"


def _net_nontrivial(tr: Dict[str, Any]) -> bool:
    """Trivial = no element observed at / across a level boundary: every layer agrees exactly with its fake-quantised
    counterpart and never saturates."""
    if tr["stage"] != "done":
        return True
    return any((not l["last"]) and (l["maxdiff"] != 0 or l["out_max"] >= l["hi"]) for l in tr["layers"])


def _f22_probe() -> Dict[str, Any]:
    """Observation only (F22, not claimed under C14): MPS.export() shares quantiser objects with the NAS model and
    integerize_arch flips their `dequantize` flag; this is why the harness integerizes a deep copy."""
    import torch
    from plinio.methods.mps import MPS, MPSType
    from plinio.methods.mps.quant.backends import Backend, integerize_arch
    sc = {"c0": 1, "h": 4, "w": 4, "in_bits": 8, "wseed": 1, "layers": [
        {"op": "conv", "out": 2, "k": [3, 3], "s": 1, "p": [1, 1], "d": [1, 1], "dws": False, "bias": True, "bn": False,
         "relu": True, "wb": 8, "ab": 8, "clip": 6000}, {"op": "flat"},
        {"op": "lin", "out": 2, "bias": True, "bn": False, "relu": False, "wb": 8, "ab": 8, "clip": 6000}]}
    net = intnet.build_net(sc)
    mps = MPS(net, input_shape=(1, 4, 4), qinfo=intnet.make_qinfo(sc), w_search_type=MPSType.PER_LAYER)
    mps.eval()
    x = torch.rand(1, 1, 4, 4)
    with torch.no_grad():
        before = mps(x).clone()
    fake = mps.export()
    try:
        integerize_arch(fake, Backend.MATCH)
        with torch.no_grad():
            after = mps(x)
        changed = not torch.equal(before, after)
    except Exception as e:                              # pragma: no cover - observation only
        return {"error": type(e).__name__}
    return {"nas_model_output_changed_by_integerize_arch_of_its_export": bool(changed)}


# ------------------------------------------------------------------------------------------------
def run(tier: str, seed: int, replay=None) -> int:
    R = Run("C14", tier, seed, level="model_checking")
    R.rule = ("three scenario families. tiny: one reachable 'done' state of IntegerizeMC/layer_replay (in/out bits, two "
              "integer weights, two input levels, integer bias, dyadic target, scale_bit, shift_pos) x backend class "
              "(MATCH/MAUPITI x Linear/Conv2d/Conv2d-with-padding), executed on the real class (quick: one class per "
              "state, thorough: all). approx: one 'sel' state of IntegerizeMC/approx (two targets, two biases up to 2^27, "
              "options) x the real _integer_approximation of the four classes. net: seeded random sequential / "
              "depthwise-separable 2-D network (1-3 conv blocks with 3x3/1x1/5x3/3x1/1x3 kernels, stride 1-2, square / "
              "non-square / no padding, dilation 2 on either axis, bias on/off, BN folded, max-pool, 1-2 linear layers or a "
              "final conv; weight/activation bits in {2,4,8}, 70% with one activation precision everywhere; PACT clip in "
              "{1, 2.5, 6}) x backend (MATCH scale_bit 16/24/32, shift_pos 16/24/31, 25% with an extreme of the documented "
              "ranges: shift_pos 32 with scale_bit 8/16/24/32, (32,1), (1,32), (1,1); plus 2-/4-bit networks with biases "
              "scaled by 0 / 0.02 / 0.1 and shift_pos 32; MAUPITI). tiny also covers the 'edge' states (8-bit inputs, "
              "weights 127, targets odd/2^s for every s in 0..31, scale_bit 1..32, shift_pos 0/1/32). Non-trivial: tiny = "
              "non-zero accumulator; approx = a bias of at least 2^20 in magnitude; net = some layer differs from its "
              "fake-quantised image by a level or saturates, or the real code raised. life: one history of maximal length of "
              "IntegerizeLife ending with a conversion (events: forward, weight update by load_state_dict / optimizer step / "
              "in-place edit, integerize_arch(deepcopy) with MATCH options omitted / (32,31) / scale_bit only / ... or MAUPITI) "
              "x model (flat, Sequential root, nested blocks, ModuleDict+ModuleList, aliased attributes; quick: nest assigned "
              "round-robin, thorough: every nest for length 3); non-trivial = a conversion after an update with no forward in "
              "between, or two different option sets, or a nested model.")
    R.assumptions = [
        "the fake-quantised counterpart is evaluated by the real Quant* layer (float32) on the dequantised image of the "
        "integer network's own activations; the integer accumulators and the exact bounds are recomputed by the harness in "
        "float64 / Fraction arithmetic from the stored integer tensors",
        "tiny layers are real backend layer objects driven with stub quantisers that supply exactly dyadic scales "
        "(s_x = s_y = 1, s_w = tm/2^te) and integer weights/bias, so that TLC's integer model and the float code see the "
        "same operands",
        "MAUPITI's scale_bit / shift_pos are the constants 16 / 32 of its code; the ShiftSelect prediction for it needs "
        "big-number arithmetic in TLC and is evaluated on a seeded sample of the replays only (property clauses: all)",
        "histories: the conversion works on a deep copy of the fake-quantised model (F22), so a conversion does not refresh "
        "the statistics of the model itself; weight versions are made by scaling every weight/bias tensor by 1.6 or 0.55 plus "
        "10% uniform noise, so that the scale of every version is distinct",
        "per-channel weight precision (QuantList), 1-D layers (integerize_arch raises AttributeError on a QuantConv1d: the "
        "backends only map Conv2d/Linear), average pooling, residual topologies and the ONNX "
        "exporters / annotators are outside this check",
        "PACT clip values are 1, 2.5 or 6 (top-level gap of the stabiliser = 1 level); MATCH dilation on both axes or with a "
        "non-unit kernel on the other axis raises the documented ValueError and is skipped and counted",
    ]
    use_repo()
    rng = random.Random(seed * 1000003 + 14)
    quick = tier == "quick"

    if replay:
        sc = json.load(open(replay))["scenario"]
        tr = intnet.run_scenarios([sc])[0]
        R.validate("IntegerizeTrace", "IntegerizeTrace", [tr], [sc], workers=2)
        return R.finish()

    # ---- 1. design level --------------------------------------------------------------------------------
    W = 8
    R.design("IntegerizeMC", "IntegerizeMC_big_quick" if quick else "IntegerizeMC_big_thorough", workers=W)
    R.design("IntegerizeMC", "IntegerizeMC_layer_quick" if quick else "IntegerizeMC_layer_thorough", workers=W)
    R.design("IntegerizeMC", "IntegerizeMC_asis_uniform", workers=4)        # as-implemented = intended for uniform bits
    # non-vacuity: each wrong transcription must violate the invariant that states the corresponding clause
    for bad, inv in (("f14", ("MaupitiEquiv", "PadOK")), ("nobias", ("LevelDiff",)), ("round", ("LevelDiffSharp",)),
                     ("zpsign", ("MaupitiEquiv",))):
        if quick and bad == "zpsign":
            continue
        res = R.design("IntegerizeMC", f"IntegerizeMC_{bad}", expect_ok=False, workers=2)
        if res.violations[0]["name"] not in inv:
            raise tlc.MachineryError(f"sanity config {bad}: expected {inv} to fail, got {res.violations[0]['name']}")
    # boundary of the documented option ranges with unbounded integers; "2^shift in 32-bit two's complement" must fail
    res = R.design("IntegerizeMC", "IntegerizeMC_wrap32", expect_ok=False, workers=2)
    if res.violations[0]["name"] != "EdgeLevel" or res.violations[0]["state"].get("sh") != 31:
        raise tlc.MachineryError("sanity config wrap32: expected EdgeLevel to fail at shift 31")
    edge_states = dump_states("IntegerizeMC", "IntegerizeMC_edge_quick" if quick else "IntegerizeMC_edge_thorough", R, workers=W)
    layer_states = dump_states("IntegerizeMC", "IntegerizeMC_layer_replay" if quick else "IntegerizeMC_layer_replay_thorough",
                               R, workers=W)
    approx_states = dump_states("IntegerizeMC", "IntegerizeMC_approx_quick" if quick else "IntegerizeMC_approx_thorough",
                                R, workers=W)

    # ---- 2. histories between export() and integerize_arch (IntegerizeLife) -------------------------------------------
    # design level: every history of bounded length satisfies the life-cycle invariants; three wrong transcriptions
    # (stale statistics, sticky process defaults, layers registered under flat names only) must violate theirs
    for bad, inv in (("stale", "CurrentStats"), ("sticky", "OptionsOfThisCall"), ("flatnames", "AllReplaced")):
        res = R.design("IntegerizeLife", f"IntegerizeLife_{bad}", expect_ok=False, workers=2)
        if res.violations[0]["name"] != inv:
            raise tlc.MachineryError(f"sanity config {bad}: expected {inv} to fail, got {res.violations[0]['name']}")
    life = []
    if quick:
        life += _life_scenarios(dump_states("IntegerizeLife", "IntegerizeLife_quick", R, workers=4), 3, 2, rng, False)
        life += _life_scenarios(dump_states("IntegerizeLife", "IntegerizeLife_kinds", R, workers=4), 2, 2, rng, False)
        life += _life_scenarios(dump_states("IntegerizeLife", "IntegerizeLife_nests", R, workers=4), 1, 2, rng, False)
    else:
        life += _life_scenarios(dump_states("IntegerizeLife", "IntegerizeLife_thorough", R, workers=4), 3, 4, rng, False)
        l4 = _life_scenarios(dump_states("IntegerizeLife", "IntegerizeLife_thorough4", R, workers=4), 4, 4, rng, False)
        life += rng.sample(l4, 600)             # length 4: a seeded sample of the 1372 histories
        life += _life_scenarios(dump_states("IntegerizeLife", "IntegerizeLife_nests_thorough", R, workers=4), 2, 4, rng, False)
    # (run before the large replay batches exist: every history is forked from this process)
    t0 = time.time()
    for m in {_canon(sc["model"]): sc["model"] for sc in life}.values():
        intnet.get_fake(m)                      # built once here; the per-scenario child processes inherit them
    life_tr = intnet.run_isolated(life)         # one forked process per history: process-level state cannot leak
    ints = [e for t in life_tr for e in t["ev"] if e["a"] == "int"]
    R.extra["life"] = {
        "histories_replayed": len(life), "conversions_observed": len(ints),
        "conversions_after_update_without_forward": sum(1 for sc in life if _life_nontrivial(sc)),
        "models": len({_canon(sc["model"]) for sc in life}),
        "nests": {n: sum(1 for sc in life if sc["model"]["nest"] == n) for n in intnet.NESTS},
        "integer_layers_compared": sum(len(e["obs"]["layers"]) for e in ints),
        "wall_s": round(time.time() - t0, 1)}
    R.sample({"scenario": life[-1], "observed": [
        {"event": i + 1, "census": e["obs"]["census"], "layers": [{k: l[k] for k in ("name", "sw_ver", "wint_ver", "used_sb", "used_sp",
                                                                                 "shift", "maxdiff")} for l in e["obs"]["layers"]]}
        for i, e in enumerate(life_tr[-1]["ev"]) if e["a"] == "int"]})
    R.validate("IntegerizeTrace", "IntegerizeTrace", life_tr, life, label="histories export -> updates -> conversions",
               nontrivial=_life_nontrivial, workers=W, chunk=1500)

    # ---- 3. spec -> code ----------------------------------------------------------------------------------
    tiny = _tiny_scenarios(layer_states, rng, all_combos=not quick, n_states=2500 if quick else 0,
                           n_predict_mau=40 if quick else 400)
    approx = _approx_scenarios(approx_states, rng, n_predict=40 if quick else 400)
    e_tiny, e_approx = _edge_scenarios(edge_states, rng, n_predict=40 if quick else 300)
    if not quick and len(e_tiny) > 40000:
        e_tiny = rng.sample(e_tiny, 40000)
    tiny += e_tiny
    approx += e_approx
    t0 = time.time()
    tiny_tr = intnet.run_scenarios(tiny)
    approx_tr = intnet.run_scenarios(approx)
    R.extra["replay"] = {"layer_states_done": sum(1 for s in layer_states if s["ph"] == "done"), "tiny_replays": len(tiny),
                         "approx_states_sel": sum(1 for s in approx_states if s["ph"] == "sel"),
                         "approx_replays": len(approx), "edge_tiny_replays": len(e_tiny), "edge_approx_replays": len(e_approx),
                         "wall_s": round(time.time() - t0, 1)}
    R.sample({"scenario": tiny[0], "observed": {k: tiny_tr[0][k] for k in ("scale", "shift", "addend", "out")}})
    R.sample({"scenario": approx[-1], "observed": {k: approx_tr[-1][k] for k in ("scales", "shift", "exc")}})
    R.validate("IntegerizeTrace", "IntegerizeTrace", tiny_tr, tiny, label="tiny layers on the real classes",
               nontrivial=lambda s: s["w"][0] * s["x"][0] + s["w"][1] * s["x"][1] != 0, workers=W, chunk=6000)
    R.validate("IntegerizeTrace", "IntegerizeTrace", approx_tr, approx, label="_integer_approximation",
               nontrivial=lambda s: any(abs(b) >= 2 ** 20 for b in s["bs"]), workers=W, chunk=6000)

    # ---- 4. code -> spec: networks ---------------------------------------------------------------------------
    nets = net_scenarios(rng, 70 if quick else 2300, 16 if quick else 200)
    t0 = time.time()
    net_tr = intnet.run_scenarios(nets)
    bad_stage = [t for t in net_tr if t["stage"] in ("mps", "match")]
    if bad_stage:
        raise tlc.MachineryError(f"{len(bad_stage)} generated networks were rejected before integerize_arch: "
                                 f"{bad_stage[0]['stage']} {bad_stage[0]['exc']} {bad_stage[0]['msg']}")
    nt = {}
    for sc, tr in zip(nets, net_tr):
        nt[intnet_key(sc)] = _net_nontrivial(tr)
    done = [t for t in net_tr if t["stage"] == "done"]
    R.extra["nets"] = {
        "scenarios": len(nets), "ran_to_completion": len(done),
        "raised_in_integerize": sum(1 for t in net_tr if t["stage"] == "integerize"),
        "raised_in_forward": sum(1 for t in net_tr if t["stage"] == "forward"),
        "skipped_documented_match_dilation": sum(1 for t in net_tr if t["stage"] == "integerize" and t["exc"] == "ValueError"),
        "integer_layers_compared": sum(len(t["layers"]) for t in done),
        "elements_compared": sum(l["nelem"] for t in done for l in t["layers"]),
        "sampled_elements_recomputed_by_tlc": sum(len(l["samples"]) for t in done for l in t["layers"]),
        "layers_with_level_difference": sum(1 for t in done for l in t["layers"] if l["maxdiff"] > 0),
        "layers_saturating": sum(1 for t in done for l in t["layers"] if not l["last"] and l["out_max"] >= l["hi"]),
        "max_level_difference_uniform_bits": max([l["maxdiff"] for t in done for l in t["layers"]
                                                  if l["ib"] == l["ob"] or t["backend"] == "match"] or [0]),
        "wall_s": round(time.time() - t0, 1)}
    for sc, tr in zip(nets, net_tr):
        if tr["stage"] == "done":
            R.sample({"scenario": sc, "observed": {"layers": [{k: l[k] for k in ("name", "ib", "ob", "wb", "shift", "maxdiff",
                                                                               "bound1024", "out_min", "out_max")}
                                                             for l in tr["layers"]], "final": tr["final"]}}, maxn=4)
            if len(R.samples) >= 4:
                break
    R.validate("IntegerizeTrace", "IntegerizeTrace", net_tr, nets, label="networks",
               nontrivial=lambda s: nt[intnet_key(s)], workers=W, chunk=1500)
    # every admissible shift must actually have been selected by a real MATCH layer (vacuity guard of the boundary part)
    hist = shift_histogram(tiny_tr, net_tr, life_tr)
    R.extra["selected_shifts"] = hist
    match_all = set().union(*[set(d) for d in hist["match"].values()]) if hist["match"] else set()
    match_net = set(hist["match"].get("net", {}))
    missing = [s_ for s_ in range(32) if s_ not in match_all]
    if missing:
        raise tlc.MachineryError(f"vacuity guard: no real MATCH layer selected the shifts {missing}")
    if 31 not in match_net or 0 not in match_net:
        raise tlc.MachineryError("vacuity guard: no layer of a generated NETWORK selected shift 0 / shift 31 "
                                 f"(network shifts seen: {sorted(match_net)})")
    R.extra["F22_observation"] = _f22_probe()
    R.exhaustive = False
    return R.finish()


def intnet_key(sc: Dict[str, Any]) -> str:
    return json.dumps(sc, sort_keys=True, default=str)
