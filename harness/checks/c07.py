"""C07 - importing a model is behaviour-preserving and leaves the user's model intact.

design level : ImportLifeMC (state machine User/Grow -> Conv(method, mode, fold_bn, autoconvert) -> any history of
               Train / Eval / Export / Summary / Cost / Forward) with the object-level model of specs/ImportLife.tla
               (layer objects carry a CONFIGURATION record; SuperNet blocks carry the options the user set):
                 * as-implemented model on the supported space            -> must hold
                 * reference model on the WHOLE grammar                   -> must hold
                 * as-implemented model on the finding topologies F50..F53 and the sanity variants `droppm` (the copy of a
                   layer loses its padding_mode), `snreset` (SuperNet(...) resets the options of the user's blocks),
                   `stalemode` (export() restores the mode found at import)  -> must FAIL
spec -> code : three dumps of TLC are built for real (harness/import_gen.py): structures (<= 2 nodes, default configuration),
               configurations (one layer, every padding kind/mode, dilation, stride, groups, BatchNorm and SuperNet-option
               preset), histories (every call history of length <= 3 / 4 on one-layer networks)
code -> spec : everything observed (mode flags after every step, masks, attributes of the searchable layers, float64 output
               differences against outputs RECORDED BEFORE the conversion, state_dict / attributes / block options of the caller's
               model, layer sequence of the exported network) is logged and TLC (ImportLifeTrace) decides every clause,
               recomputing the expected layer sequences with the operators the design level checks.
"""
from __future__ import annotations

import json
import os
import random
import re
import tempfile
import threading
from typing import Any, Dict, List, Optional

from .. import import_gen, tlc
from ..core import Run, use_repo

WORKERS = 8
ACTIONS = {"PIT": ("train", "eval", "export", "export_nobn", "summary", "cost", "forward"),
           "SN": ("train", "eval", "export", "summary", "cost", "forward", "icv"),
           "MPS": ("train", "eval", "export", "summary", "cost", "forward", "nassum")}


# ------------------------------------------------------------------------------------------ design runs (background threads)
class _Bg:
    """run_tlc in a thread; the bookkeeping of Run.design is replayed in the main thread (join)."""

    def __init__(self, R: Run, module: str, cfg: str, *, expect_ok=True, require_cov=(), after: Optional["_Bg"] = None, **kw):
        self.R, self.module, self.cfg, self.expect_ok, self.require_cov, self.kw = R, module, cfg, expect_ok, require_cov, kw
        self.after = after               # chains of runs: start when the predecessor has finished (bounds the number of JVMs)
        self.res: Optional[tlc.TLCResult] = None
        self.exc: Optional[BaseException] = None
        self.th = threading.Thread(target=self._go, daemon=True)
        self.th.start()

    def _go(self):
        try:
            if self.after is not None:
                self.after.th.join()
            self.res = tlc.run_tlc(self.module, self.cfg, **self.kw)
        except BaseException as e:       # re-raised in join()
            self.exc = e

    def join(self) -> tlc.TLCResult:
        self.th.join()
        if self.exc is not None:
            raise self.exc
        res = self.res
        assert res is not None
        # Run.design(), with the TLC result already computed
        orig = tlc.run_tlc
        try:
            tlc.run_tlc = lambda *a, **k: res          # type: ignore
            self.R.design(self.module, self.cfg, expect_ok=self.expect_ok, require_cov=self.require_cov)
        finally:
            tlc.run_tlc = orig                          # type: ignore
        return res


# ------------------------------------------------------------------------------------------ scenarios from TLC's dumps
def _conjunct(block: str, var: str) -> str:
    m = re.search(r"(?ms)^/\\ " + var + r" = (.*?)(?=^/\\ |\Z)", block)
    if not m:
        raise tlc.MachineryError(f"dump block without variable {var}: {block[:200]}")
    return m.group(1).strip()


def _dump_scenarios(path: str, expected_states: int) -> List[Dict[str, Any]]:
    """Every `converted` state of the dump = one (architecture, method, configuration, history) scenario, still as raw
    text (parsed lazily, after sampling) plus cheap stratification features."""
    txt = open(path).read()
    blocks = [b for b in re.split(r"(?m)^State \d+:\s*$", txt) if b.strip()]
    if len(blocks) != expected_states:
        raise tlc.MachineryError(f"dump has {len(blocks)} states, TLC reported {expected_states}")
    out = []
    for b in blocks:
        if 'phase = "converted"' not in b:
            continue
        a = _conjunct(b, "arch")
        c = _conjunct(b, "cfg")
        h = _conjunct(b, "hist")
        ops = tuple(re.findall(r'op \|-> "(\w+)"', a))
        feat = (c, ops, "two |-> \"no\"" in a, "bn |-> TRUE" in a, "pl |-> TRUE" in a, "excl |-> TRUE" in a,
                bool(re.search(r"reuse \|-> [1-9]", a)), "dw |-> TRUE" in a, bool(re.search(r"sn \|-> <<\[", a)),
                tuple(re.findall(r'pad \|-> "(\w+)"', a)), tuple(re.findall(r'pm \|-> "(\w+)"', a)),
                "aff |-> FALSE" in a, "trs |-> FALSE" in a, "grp |-> 2" in a, "hard |-> TRUE" in a, "gum |-> TRUE" in a,
                tuple(re.findall(r"fav \|-> (\d)", a)), tuple(re.findall(r"bnref \|-> (\d)", a)), "bn2 |-> TRUE" in a,
                "bnown |-> TRUE" in a, 'two |-> "sep"' in a)
        out.append({"arch_txt": a, "cfg_txt": c, "hist_txt": h, "feat": feat})
    return out


def _materialize(raw: Dict[str, Any], rng: random.Random, src: str, hist=None) -> Dict[str, Any]:
    a = tlc.parse_value(raw["arch_txt"])
    c = tlc.parse_value(raw["cfg_txt"])
    h = list(tlc.parse_value(raw["hist_txt"])) if hist is None else list(hist)
    arch = {"dim": a["dim"], "c0": a["c0"], "sp": a["sp"], "two": a["two"], "ca": a["ca"],
            "nodes": [dict(n, ins=list(n["ins"]), sn=[dict(b) for b in n["sn"]], sno=dict(n["sno"])) for n in a["nodes"]]}
    return {"arch": import_gen.norm_iarch(arch), "method": c["method"], "mode": c["mode"], "fold": bool(c["fold"]),
            "auto": bool(c["auto"]), "hist": h, "kw": random_kw(rng, c["method"]), "seed": rng.randrange(10 ** 6), "src": src}


def _stratified(raws: List[Dict[str, Any]], limit: int, rng: random.Random, key="feat") -> List[Dict[str, Any]]:
    if not limit or len(raws) <= limit:
        return list(raws)
    buckets: Dict[Any, list] = {}
    for r in raws:
        buckets.setdefault(r[key], []).append(r)
    keys = sorted(buckets, key=repr)
    rng.shuffle(keys)
    out = []
    while len(out) < limit and keys:
        for k in list(keys):
            b = buckets[k]
            if not b:
                keys.remove(k)
                continue
            out.append(b.pop(rng.randrange(len(b))))
            if len(out) >= limit:
                break
    return out


def _hist_valid(h: List[str], wm: bool) -> bool:
    for a in h:
        if a == "train":
            wm = True
        elif a == "eval":
            wm = False
        elif a == "forward" and wm:
            return False
    return True


# ------------------------------------------------------------------------------------------ random scenarios (same grammar, larger)
def random_kw(rng: random.Random, method: str) -> List[str]:
    """A random subset of the rarely used public constructor keywords (half of the scenarios use the defaults)."""
    if rng.random() < 0.5:
        return []
    ks = import_gen.KEYWORDS[method]
    return sorted(rng.sample(ks, rng.randint(1, min(3, len(ks)))))


def random_history(rng: random.Random, wm: bool, maxlen: int, method: str = "PIT") -> List[str]:
    h: List[str] = []
    for _ in range(rng.randint(0, maxlen)):
        a = rng.choice([x for x in ACTIONS[method] if not (x == "forward" and wm)])
        if a == "train":
            wm = True
        elif a == "eval":
            wm = False
        h.append(a)
    return h


def random_scenario(rng: random.Random, maxhist: int = 3) -> Dict[str, Any]:
    method = rng.choices(["PIT", "SN", "MPS"], weights=[6, 2.5, 1.5])[0]
    dim = rng.choice([1, 2]) if method != "MPS" else rng.choice([2, 2, 1])
    c0 = rng.choice([2, 3, 4])
    sp = rng.choice([6, 8, 10]) if dim == 1 else rng.choice([4, 6])
    two = rng.choice(["no", "no", "add", "cat", "sep"])
    widths = (2, 3, 4, 6)
    nodes: List[Dict[str, Any]] = []
    cur, ch, s_now, flat = 0, c0, sp, False
    allow_pl = method == "PIT" and rng.random() < 0.5
    allow_excl = method in ("PIT", "MPS") and rng.random() < 0.4
    allow_reuse = rng.random() < 0.3
    p_bn = rng.choice([0.3, 0.6, 0.9])
    odd_bn = rng.random() < 0.25            # BatchNorm without affine parameters / running statistics
    auto = method != "PIT" or rng.random() < 0.7

    def deco(nd, can_pl=True):
        nd["bias"] = rng.random() < 0.6
        nd["bn"] = rng.random() < p_bn
        nd["eps"], nd["mom"] = rng.randrange(2), rng.randrange(2)
        if nd["bn"] and odd_bn:
            nd["aff"] = rng.random() < 0.6
            nd["trs"] = rng.random() < 0.7
        if allow_pl and can_pl and rng.random() < 0.35:
            nd["pl"] = True
        elif allow_excl and rng.random() < 0.3:
            nd["excl"] = True
        return nd

    def conv(src, out, dw=False, same=False):
        """A conv node on tensor `src` with a random configuration that torch accepts at the current size."""
        nd = {"op": "conv", "ins": [src], "out": 0 if dw else out, "dw": dw}
        for _ in range(20):
            pad = rng.choice(["same", "same", "int", "int", "valid", "causal"] if dim == 1 else ["same", "int", "int", "valid"])
            k = rng.choice([1, 2, 3, 5]) if pad in ("same", "causal", "valid") else rng.choice([1, 3, 5])
            d = rng.choice([1, 1, 2, 3]) if dim == 1 else rng.choice([1, 1, 2])
            s = 1 if (same or pad == "same") else rng.choice([1, 1, 2])
            pm = rng.choice(["zeros", "zeros", "reflect", "replicate", "circular"]) if pad in ("same", "int") else "zeros"
            if dim == 2 and k == 2:
                continue                                        # even kernels: 1-D only
            tot = d * (k - 1)                                   # total padding of 'same'; 2 * p of 'int'
            if pm != "zeros" and (tot == 0 or (tot + 1) // 2 >= s_now):
                continue                                        # reflect / circular need 0 < padding < size
            if pad == "valid" and (same or s_now - tot < 1):
                continue
            if same and pad == "valid":
                continue
            nd.update({"k": k, "d": d, "s": s, "pad": pad, "pm": pm})
            break
        else:
            nd.update({"k": 1, "d": 1, "s": 1, "pad": "same", "pm": "zeros"})
        return nd

    def out_sp(nd, sp_in):
        if nd["pad"] == "valid":
            return (sp_in - nd["d"] * (nd["k"] - 1) - 1) // nd["s"] + 1
        return (sp_in - 1) // nd["s"] + 1

    def bn_class(nd):
        return 1 if (nd["op"] == "lin" or dim == 1) else 2

    def share_bn(nd, width):
        """BatchNorm sharing patterns on a fresh conv / linear node: (a) the BatchNorm OBJECT of an earlier call site of another
        layer (same class and width), (c) two BatchNorms in a row."""
        r = rng.random()
        if r < 0.12:
            cands = [i + 1 for i, m in enumerate(nodes) if m["op"] in ("conv", "lin") and not m.get("sn") and m.get("bn")
                     and not m.get("bnref") and (not m.get("reuse") or m.get("bnown")) and bn_class(m) == bn_class(nd)
                     and widths_of.get(i + 1) == width]
            if cands:
                nd["bn"], nd["bnref"] = False, rng.choice(cands)
        elif r < 0.22 and nd.get("bn"):
            nd["bn2"] = True
        return nd

    widths_of: Dict[int, int] = {}
    steps = rng.randint(1, 7)
    n_sn = 0
    lin_seen = False
    if two == "sep":        # two streams: a layer on each input (possibly normalised by ONE BatchNorm object), then merged
        nodes.append({"op": "in2", "ins": []})
        w = rng.choice(widths)
        ka = deco(conv(0, w, same=True))
        kb = deco(conv(1, w, same=True))
        kb.pop("pl", None)
        ka.pop("excl", None)
        nodes.append(ka)
        widths_of[2] = w
        if ka.get("bn") and rng.random() < 0.6:
            kb["bn"], kb["bnref"] = False, 2
        elif rng.random() < 0.2 and kb.get("bn"):
            kb["bn2"] = True
        nodes.append(kb)
        widths_of[3] = w
        nodes.append({"op": "add", "ins": [2, 3]})
        cur, ch = 4, w
    for _ in range(steps):
        if len(nodes) > 11:
            break
        T = len(nodes)
        if not flat:
            # (a depthwise layer directly on cat(xa, xb) is the F19 topology of C09: not generated)
            kind = rng.choices(["conv", "dw", "grp", "relu", "drop", "pool", "res", "reuse", "lin3", "flat"],
                               weights=[5, 0 if (two == "cat" and cur == 0) else 2,
                                        0.8 if (ch >= 4 and ch % 2 == 0 and (method != "PIT" or allow_excl or not auto)) else 0,
                                        2, 1, 1 if s_now >= 2 else 0, 2, 1.2 if allow_reuse else 0,
                                        0.5 if dim == 1 else 0, 1.5])[0]
            if kind == "conv":
                w = rng.choice(widths)
                nd = deco(conv(cur, w))
                if method == "SN" and n_sn < 2 and rng.random() < 0.6:
                    nb = rng.randint(2, 3)
                    nd = {"op": "conv", "ins": [cur], "out": w, "bias": nd["bias"],
                          "sn": [{"k": rng.choice([1, 3, 5]) if dim == 1 else rng.choice([1, 3]), "bn": rng.random() < 0.5}
                                 for _ in range(nb)],
                          "sno": {"hard": rng.random() < 0.4, "gum": rng.random() < 0.3, "temp": rng.choice([10, 10, 5, 20]),
                                  "fav": rng.choice([0, 0] + list(range(1, nb + 1)))},
                          "eps": rng.randrange(2), "mom": rng.randrange(2)}
                    n_sn += 1
                    nodes.append(nd)
                else:
                    nodes.append(share_bn(nd, w))
                    s_now = out_sp(nd, s_now)
                widths_of[T + 1] = w
                cur, ch = T + 1, w
            elif kind == "dw":
                nd = deco(conv(cur, ch, dw=True))
                nodes.append(nd)
                s_now = out_sp(nd, s_now)
                cur = T + 1
            elif kind == "grp":          # grouped (neither full nor depthwise): PIT accepts it only outside the search
                w = rng.choice([4, 6])
                nd = deco(conv(cur, w), can_pl=False)
                nd["grp"] = 2
                nd["pl"] = False
                if method == "PIT" and auto:
                    nd["excl"] = True
                nodes.append(nd)
                s_now = out_sp(nd, s_now)
                cur, ch = T + 1, w
            elif kind in ("relu", "drop") and cur != 0:
                nodes.append({"op": kind, "ins": [cur]})
                cur = T + 1
            elif kind == "pool" and cur != 0 and s_now >= 2:
                nodes.append({"op": "pool", "ins": [cur], "kind": rng.choice(["avg", "max"])})
                s_now //= 2
                cur = T + 1
            elif kind == "res":          # residual block: conv (same width and size) -> relu -> add skip
                nodes.append(deco(conv(cur, ch, same=True)))
                nodes.append({"op": "relu", "ins": [T + 1]})
                nodes.append({"op": "add", "ins": [T + 2, cur]})
                cur = T + 3
            elif kind == "reuse":        # weight-shared block invoked twice:  h' = relu(B(h)) + h ; h'' = relu(B(h')) + h'
                blk = deco(conv(cur, ch, same=True))
                blk.pop("excl", None)
                nodes.append(blk)
                nodes.append({"op": "relu", "ins": [T + 1]})
                nodes.append({"op": "add", "ins": [T + 2, cur]})
                b2 = dict(blk)
                b2.update({"ins": [T + 3], "reuse": T + 1})
                if rng.random() < 0.35:      # (b) the second invocation is followed by its own BatchNorm object (or none)
                    b2.update({"bnown": True, "bn": rng.random() < 0.7, "eps": rng.randrange(2)})
                nodes.append(b2)
                nodes.append({"op": "relu", "ins": [T + 4]})
                nodes.append({"op": "add", "ins": [T + 5, T + 3]})
                cur = T + 6
            elif kind == "lin3" and cur != 0:      # nn.Linear on the (N, C, L) tensor: features on the last axis
                w = rng.choice([2, 3, 4])
                nd = {"op": "lin3", "ins": [cur], "out": w, "bias": rng.random() < 0.6}
                if method == "PIT" and auto and rng.random() < 0.7:
                    nd["excl"] = True              # (searchable: finding F52)
                nodes.append(nd)
                s_now = w
                cur = T + 1
            elif kind == "flat" and ch * s_now ** dim <= 96:
                nodes.append({"op": "flat", "ins": [cur]})
                cur, ch, flat = T + 1, ch * s_now ** dim, True
        else:
            # (a residual sum of flatten(conv) and a linear output is the F24 topology of C09: only linear outputs are added)
            kind = rng.choices(["lin", "relu", "drop", "res"], weights=[4, 2, 1, 1.5 if lin_seen else 0])[0]
            if kind == "lin":
                w = rng.choice(widths)
                nodes.append(share_bn(deco({"op": "lin", "ins": [cur], "out": w}), w))
                widths_of[T + 1] = w
                cur, ch, lin_seen = T + 1, w, True
            elif kind in ("relu", "drop"):
                nodes.append({"op": kind, "ins": [cur]})
                cur = T + 1
            else:
                nodes.append(deco({"op": "lin", "ins": [cur], "out": ch}))
                nodes.append({"op": "add", "ins": [T + 1, cur]})
                cur = T + 2
    if not any(n["op"] in ("conv", "lin") for n in nodes) or rng.random() < 0.7:
        T = len(nodes)
        if not flat:
            if ch * s_now ** dim > 96:
                nodes.append({"op": "conv", "ins": [cur], "out": 2, "k": 1, "pad": "same"})
                T += 1
                cur, ch = T, 2
            if ch * s_now ** dim <= 96:
                nodes.append({"op": "flat", "ins": [cur]})
                T += 1
                cur, ch, flat = T, ch * s_now ** dim, True
        if flat:
            nodes.append(deco({"op": "lin", "ins": [cur], "out": rng.choice([2, 3, 5])}))
        else:
            nodes.append({"op": "conv", "ins": [cur], "out": 2, "k": 1, "pad": "same"})
    arch = {"dim": dim, "c0": c0, "sp": sp, "two": two, "ca": rng.randrange(1, c0) if two == "cat" else 0, "nodes": nodes}
    mode = rng.choice(["train", "eval"])
    return {"arch": import_gen.norm_iarch(arch), "method": method, "mode": mode,
            "fold": method == "PIT" and rng.random() < 0.5, "auto": auto,
            "hist": random_history(rng, True if method == "SN" else mode == "train", maxhist, method),
            "kw": random_kw(rng, method), "seed": rng.randrange(10 ** 6), "src": "random"}


def fixed_scenarios() -> List[Dict[str, Any]]:
    """Hand-written regression scenarios (the shapes of the repository's own test models and of the seeded defects)."""
    scs = []
    # SimplePitNN of the unit tests: user-placed PITConv1d + BatchNorm, plain conv + BatchNorm, linear head
    a = {"dim": 1, "c0": 3, "sp": 8, "nodes": [
        {"op": "conv", "ins": [0], "out": 4, "k": 3, "bn": True, "pl": True, "pad": "same"},
        {"op": "pool", "ins": [1], "kind": "avg"}, {"op": "relu", "ins": [2]},
        {"op": "conv", "ins": [3], "out": 5, "k": 5, "bn": True, "pad": "same"},
        {"op": "pool", "ins": [4], "kind": "avg"}, {"op": "relu", "ins": [5]}, {"op": "drop", "ins": [6]},
        {"op": "flat", "ins": [7]}, {"op": "lin", "ins": [8], "out": 3}]}
    for auto in (True, False):
        for fold in (False, True):
            scs.append({"arch": a, "method": "PIT", "mode": "train", "fold": fold, "auto": auto, "seed": 11, "hist": ["eval", "export"]})
    # ToyBatchNorm-like: depthwise + BN, pointwise + BN (no bias), linear + BatchNorm1d
    b = {"dim": 2, "c0": 3, "sp": 4, "nodes": [
        {"op": "conv", "ins": [0], "dw": True, "k": 3, "pad": "int", "bn": True, "bias": False, "eps": 1},
        {"op": "relu", "ins": [1]},
        {"op": "conv", "ins": [2], "out": 4, "k": 1, "pad": "int", "bn": True, "bias": False, "mom": 1},
        {"op": "relu", "ins": [3]}, {"op": "pool", "ins": [4], "kind": "max"}, {"op": "flat", "ins": [5]},
        {"op": "lin", "ins": [6], "out": 5, "bn": True}, {"op": "relu", "ins": [7]},
        {"op": "lin", "ins": [8], "out": 2}]}
    for mode in ("train", "eval"):
        for fold in (False, True):
            scs.append({"arch": b, "method": "PIT", "mode": mode, "fold": fold, "auto": True, "seed": 12,
                        "hist": ["eval", "export", "forward"] if mode == "train" else ["train", "export", "cost"]})
        scs.append({"arch": b, "method": "MPS", "mode": mode, "fold": False, "auto": True, "seed": 12,
                    "hist": ["eval", "export", "cost"] if mode == "train" else ["train", "export", "summary"]})
    # conv + BN invoked twice (layer reuse)
    c = {"dim": 2, "c0": 2, "sp": 4, "nodes": [
        {"op": "conv", "ins": [0], "out": 2, "k": 3, "pad": "int", "bn": True, "bias": False}, {"op": "relu", "ins": [1]},
        {"op": "conv", "ins": [2], "out": 2, "k": 3, "pad": "int", "bn": True, "bias": False, "reuse": 1},
        {"op": "flat", "ins": [3]}, {"op": "lin", "ins": [4], "out": 3, "bn": True}]}
    for fold in (False, True):
        scs.append({"arch": c, "method": "PIT", "mode": "eval", "fold": fold, "auto": True, "seed": 13, "hist": []})
    # padding modes / dilation / stride / excluded layers followed by (unfused) BatchNorm and Dropout, 1-D and 2-D
    for dim in (1, 2):
        d = {"dim": dim, "c0": 4, "sp": 8 if dim == 1 else 6, "nodes": [
            {"op": "conv", "ins": [0], "out": 4, "k": 3, "pad": "same", "pm": "reflect", "bn": True, "eps": 1},
            {"op": "drop", "ins": [1]},
            {"op": "conv", "ins": [2], "out": 4, "k": 3, "d": 2, "pad": "int", "pm": "circular", "s": 2, "bn": True, "excl": True},
            {"op": "conv", "ins": [3], "out": 4, "k": 3, "pad": "int", "pm": "replicate", "grp": 2, "excl": True, "bias": False},
            {"op": "conv", "ins": [4], "dw": True, "k": 3, "pad": "same", "pm": "circular", "bn": True},
            {"op": "flat", "ins": [5]},
            {"op": "lin", "ins": [6], "out": 3, "bn": True, "excl": True}]}
        for fold in (False, True):
            scs.append({"arch": d, "method": "PIT", "mode": "train", "fold": fold, "auto": True, "seed": 15 + dim,
                        "hist": ["eval", "export", "forward"]})
            scs.append({"arch": d, "method": "PIT", "mode": "eval", "fold": fold, "auto": True, "seed": 17 + dim,
                        "hist": ["train", "export", "eval"]})
    # SuperNet: choice blocks with options the user configured, two-input forward, residual, dropout
    e = {"dim": 2, "c0": 2, "sp": 4, "two": "add", "nodes": [
        {"op": "conv", "ins": [0], "out": 3, "sn": [{"k": 3, "bn": True}, {"k": 1, "bn": False}],
         "sno": {"hard": True, "gum": False, "temp": 5, "fav": 2}},
        {"op": "relu", "ins": [1]},
        {"op": "conv", "ins": [2], "out": 3, "bias": False, "sn": [{"k": 1, "bn": False}, {"k": 3, "bn": False}, {"k": 3, "bn": True}],
         "sno": {"hard": False, "gum": True, "temp": 20, "fav": 3}},
        {"op": "add", "ins": [3, 1]}, {"op": "drop", "ins": [4]}, {"op": "flat", "ins": [5]},
        {"op": "lin", "ins": [6], "out": 3, "bn": True}]}
    for mode in ("train", "eval"):
        scs.append({"arch": e, "method": "SN", "mode": mode, "fold": False, "auto": True, "seed": 14,
                    "hist": ["eval", "export", "summary", "cost"]})
        scs.append({"arch": e, "method": "SN", "mode": mode, "fold": False, "auto": True, "seed": 14, "hist": ["train", "export", "eval"]})
    # the finding topologies, so that every listed finding is reproduced by every run: searchable Linear on a 3-D tensor (F52:
    # forward raises / export raises), BatchNorm without affine parameters (F53); and the same BatchNorm where PIT accepts it
    for out in (4, 3):
        f = {"dim": 1, "c0": 2, "sp": 6, "nodes": [
            {"op": "conv", "ins": [0], "out": 3, "k": 3, "pad": "same"}, {"op": "lin3", "ins": [1], "out": out},
            {"op": "relu", "ins": [2]}, {"op": "flat", "ins": [3]}, {"op": "lin", "ins": [4], "out": 2}]}
        scs.append({"arch": f, "method": "PIT", "mode": "eval", "fold": False, "auto": True, "seed": 21, "hist": ["export"]})
    for dim in (1, 2):
        g = {"dim": dim, "c0": 2, "sp": 4, "nodes": [
            {"op": "conv", "ins": [0], "out": 3, "k": 3, "pad": "int", "bn": True, "aff": False, "pl": True},
            {"op": "relu", "ins": [1]}, {"op": "flat", "ins": [2]},
            {"op": "lin", "ins": [3], "out": 3, "bn": True, "aff": False, "eps": 1, "pl": True}, {"op": "relu", "ins": [4]},
            {"op": "lin", "ins": [5], "out": 2, "bn": True, "aff": False}]}
        for auto in (True, False):
            for fold in (False, True):
                scs.append({"arch": g, "method": "PIT", "mode": "eval", "fold": fold, "auto": auto, "seed": 22 + dim, "hist": []})
    # BatchNorm sharing patterns on a two-stream network: (a) ONE BatchNorm object behind two different layers, (b) one layer
    # followed by different BatchNorm objects at its two call sites (F51), (c) two BatchNorms in a row (F73 when not folded);
    # histories with the rarely used export(add_bn=False) followed by observations and a second export()
    for dim in (1, 2):
        for pat in ("a", "b", "c"):
            nb = {"op": "conv", "ins": [1], "out": 3, "k": 3, "pad": "same" if dim == 1 else "int", "bias": False}
            if pat == "a":
                nb.update({"bnref": 2})
            elif pat == "b":
                nb.update({"reuse": 2, "bnown": True, "bn": True, "eps": 1})
            else:
                nb.update({"bn": True, "bn2": True})
            h = {"dim": dim, "c0": 2, "sp": 6 if dim == 1 else 4, "two": "sep", "nodes": [
                {"op": "in2", "ins": []},
                {"op": "conv", "ins": [0], "out": 2 if pat == "b" else 3, "k": 3, "pad": "same" if dim == 1 else "int", "bn": True,
                 "bias": False},
                dict(nb, out=2) if pat == "b" else nb,
                {"op": "add", "ins": [2, 3]}, {"op": "relu", "ins": [4]}, {"op": "flat", "ins": [5]},
                {"op": "lin", "ins": [6], "out": 3, "bn": True}, {"op": "relu", "ins": [7]},
                {"op": "lin", "ins": [8], "out": 3, "bnref": 7}]}
            for fold in (False, True):
                scs.append({"arch": h, "method": "PIT", "mode": "train", "fold": fold, "auto": True, "seed": 30 + dim,
                            "hist": ["export_nobn", "eval", "forward"], "kw": ["disc", "notrain"] if fold else ["full", "costd"]})
            scs.append({"arch": h, "method": "MPS", "mode": "eval", "fold": False, "auto": True, "seed": 32 + dim,
                        "hist": ["train", "export", "nassum"], "kw": ["pc", "hard"]})
    for s in scs:
        s["arch"] = import_gen.norm_iarch(s["arch"])
        s["src"] = "fixed"
    return scs


# ------------------------------------------------------------------------------------------ bookkeeping
def _key(sc):
    return {k: sc.get(k) for k in ("arch", "method", "mode", "fold", "auto", "hist", "kw")}


def _nontrivial(sc) -> bool:
    """The converter or the history has something to get wrong: a BatchNorm after a conv/linear layer, a user-placed PIT
    layer, a SuperNet block, a reused layer, a two-input forward, a non-default layer configuration (padding mode, dilation,
    stride, groups, un-padded) or a non-empty call history.  (Trivial: single-input plain conv/linear net, no history.)"""
    a = sc["arch"]
    return bool(sc.get("hist")) or a.get("two", "no") != "no" or any(
        n["op"] in import_gen.LAYER_OPS and (n["bn"] or n["bnref"] or n["pl"] or n["sn"] or n["reuse"] or n["pm"] != "zeros" or n["d"] > 1
                                             or n["s"] > 1 or n["grp"] > 1 or n["pad"] == "valid" or n["op"] == "lin3")
        for n in a["nodes"])


def _execute_and_validate(R: Run, scs: List[Dict[str, Any]], label: str) -> None:
    if not scs:
        return
    trs = import_gen.run_scenarios(scs, procs=WORKERS)
    ob = R.extra.setdefault("observations", {
        "scenarios_by_method": {}, "scenarios_by_source": {}, "constructor_rejected_MPS_skipped": 0,
        "constructor_rejected_PIT_documented_skipped": 0, "caller_left_in_eval_mode": 0,
        "caller_found_in_train_mode": 0, "supernet_seed_eval_wrapper_train": 0, "supernet_scenarios": 0,
        "mps_altered_callers_parameters_by_design": 0, "mps_scenarios": 0, "caller_state_dict_gained_keys": 0,
        "caller_modules_gained_attributes": 0, "exports": 0, "exports_with_dead_nodes": 0, "history_steps": 0,
        "layers_with_nonzero_padding_mode": 0, "supernet_blocks_with_nondefault_options": 0})
    for sc, tr in zip(scs, trs):
        m = sc["method"]
        ob["scenarios_by_method"][m] = ob["scenarios_by_method"].get(m, 0) + 1
        ob["scenarios_by_source"][sc.get("src", "?")] = ob["scenarios_by_source"].get(sc.get("src", "?"), 0) + 1
        ob["layers_with_nonzero_padding_mode"] += sum(1 for n in sc["arch"]["nodes"] if n["op"] == "conv" and n["pm"] != "zeros")
        ob["supernet_blocks_with_nondefault_options"] += sum(
            1 for n in sc["arch"]["nodes"] if n["sn"] and (n["sno"]["hard"] or n["sno"]["gum"] or n["sno"]["temp"] != 10 or n["sno"]["fav"]))
        if not tr["conv_ok"]:
            if m == "MPS":
                ob["constructor_rejected_MPS_skipped"] += 1
                if len(R.notes) < 5:
                    R.notes.append(f"MPS rejected: {tr['err'][:100]}")
            elif tr["errk"] in ("trs", "groups"):
                ob["constructor_rejected_PIT_documented_skipped"] += 1
            continue
        ob["history_steps"] += len(tr["H"])
        if tr["u0"]:
            ob["caller_found_in_train_mode"] += 1
            if not tr["u1"]:
                ob["caller_left_in_eval_mode"] += 1
        if m == "SN":
            ob["supernet_scenarios"] += 1
            if tr["w1"] and not tr["s1"]:
                ob["supernet_seed_eval_wrapper_train"] += 1
        if m == "MPS":
            ob["mps_scenarios"] += 1
            if not tr["sd_vals"]:
                ob["mps_altered_callers_parameters_by_design"] += 1
        if m != "MPS" and not tr["sd_keys"]:
            ob["caller_state_dict_gained_keys"] += 1
        if m != "MPS" and tr["attrs_added"]:
            ob["caller_modules_gained_attributes"] += 1
        if tr["exp_ok"]:
            ob["exports"] += 1
            if tr["dead"]:
                ob["exports_with_dead_nodes"] += 1
    verdicts = R.validate("ImportLifeTrace", "ImportLifeTrace", trs, scs, nontrivial=_nontrivial, key=_key, label=label,
                          workers=WORKERS)
    for sc, v in zip(scs, verdicts):
        if v.startswith("drift:harness"):
            raise tlc.MachineryError(f"the harness did not build the scenario the specification describes: {v[:400]} "
                                     f"scenario={json.dumps(_key(sc))[:1500]}")
    for sc, tr, v in zip(scs, trs, verdicts):
        if v == "ok" and _nontrivial(sc) and tr["conv_ok"] and sc.get("hist"):
            R.sample({"scenario": _key(sc), "observed": {k: tr[k] for k in ("u0", "w1", "s1", "u1", "dw", "du", "sd_vals",
                                                                             "sd_keys", "attrs_changed", "dwh", "exp_ok", "de")},
                      "history_flags": [[h["a"], h["w"], h["s"], h["kids"]] for h in tr["H"]],
                      "exported": [r["t"] for r in tr["E"]]}, maxn=4)
            break


SANITY = ("f50", "f51", "f52", "f53", "f73", "droppm", "snreset", "stalemode", "nobnstick", "fusebybn")


def run(tier: str, seed: int, replay=None) -> int:
    R = Run("C07", tier, seed, level="model_checking")
    use_repo()
    quick = tier == "quick"
    rng = random.Random(seed * 7919 + 7)
    hl = 3 if quick else 4
    R.rule = ("scenario = (architecture, method in {PIT, SuperNet, MPS}, mode found, fold_bn, autoconvert, call history). Sources: "
              "(1) structures: the Conv transitions of ImportLifeMC_scen (conv / depthwise / linear, bias, BatchNorm, user-placed PIT "
              "layer, excluded layer, layer reuse, SuperNet blocks, relu, pooling, flatten, residual add, one/two-input forward; <= 2 "
              "nodes), each with a TLC-enumerated history; (2) configurations: ImportLifeMC_scen_cfg (one layer x padding same/int/"
              "valid/causal x padding_mode zeros/reflect/replicate/circular x dilation x stride x groups x BatchNorm default/no affine/"
              "no running stats/other eps+momentum x SuperNet option presets x linear on 3-D input); (3) histories: every call "
              f"history of length <= {hl} over train/eval/export/export(add_bn=False)/summary/cost/forward/get_total_icv/"
              f"nas_parameters_summary of ImportLifeMC_hist{hl} on one-layer networks; (3b) BatchNorm sharing: ImportLifeMC_scen_bn / "
              "_scen_bn2 (one BatchNorm object behind two layers, own BatchNorm at a reuse site, two BatchNorms in a row; chains and "
              "two-stream networks with a second input tensor); every TLC scenario gets a random subset of the rarely used public "
              "constructor keywords (coverage.public_keywords lists every keyword found in the signatures and the ones not exercised); "
              + ("stratified samples of (1)-(3b): 180 / 180 / 260 / 240" if quick else "stratified 5000 of (1), all of (2), stratified 4000 of (3) and 2500 + 2500 of (3b) incl. "
                 "every distinct history per method")
              + "; (4) seeded random architectures of the same grammar with up to ~12 nodes, widths 2..6, kernels 1..5, random "
              "configurations, Dropout, excluded layers followed by BatchNorm, random histories; (5) hand-written shapes of the "
              "repository's test models. Non-trivial = see _nontrivial (something to fuse / fold / adopt / select / copy, or a history).")
    R.assumptions = [
        "float64 models built under torch.set_default_dtype(torch.float64); generic random weights, biases and BatchNorm statistics; "
        "'equal outputs' means max|dy| <= 1e-9*(1+max|y|) on a random batch of 3 inputs, eval mode; the reference output is recorded "
        "BEFORE the conversion on an independent deep copy",
        "the caller's parameters are compared bitwise on every state_dict entry that existed before the call; its user-visible "
        "attributes = every bool/int/float/str/tuple attribute and the sampling method of every module (training flags excepted: "
        "mode clauses); calculator buffers / attributes that PIT adds to a user-placed PIT layer are recorded, not counted as alteration",
        "'original architecture' = same sequence of module calls / functional ops with the same hyper-parameters (incl. padding, "
        "padding_mode, dilation, stride, groups, BatchNorm eps/momentum/affine/track_running_stats) and dataflow; a folded BatchNorm "
        "is absorbed into a bias; a SuperNet block is replaced by one of its branches (which one - the first maximum of the "
        "coefficients the user left - is a prediction); nodes of the exported graph that no path connects to the output are not "
        "part of the architecture (counted under observations)",
        "a forward pass is a history action in eval mode only (in training mode it updates BatchNorm statistics by design); after "
        "a history whose last mode is eval the wrapper is evaluated as it is, without a further eval() call",
        "a user-placed PIT layer is created with the same fold_bn flag that is passed to PIT(...); exclude_names never names a "
        "user-placed layer; SuperNet branches are single conv (+BatchNorm) modules (functional tails are C03's domain)",
        "documented rejections are skipped and counted: BatchNorm(track_running_stats=False) after a searchable layer, grouped "
        "(neither full nor depthwise) convolutions in the search; MPS: only the mode clauses are claimed (MPS folds BatchNorm into "
        "the caller's layers by design), architectures MPS rejects are skipped and counted",
        "all converters leave the CALLER's module object in eval mode and SuperNet leaves its seed in eval mode until the first "
        "train()/eval(): recorded under coverage.observations, not decided",
        "channel / time concatenation inside the network is not generated (not in the property's grammar), except for the "
        "two-input forward cat(xa, xb); the F19 / F24 topologies of the graph pass (C09) are excluded (TLC checks InDomain)",
    ]
    if replay:
        sc = json.load(open(replay))["scenario"]
        _execute_and_validate(R, [sc], "replay")
        return R.finish()

    # ---------------------------------------------------------------- design level (TLC in background threads)
    sfx = "quick" if quick else "thorough"
    dumps = {}
    res = {}
    for name in ("scen", "scen_cfg", "scen_bn", "scen_bn2", f"hist{hl}"):
        dumps[name] = tempfile.mktemp(prefix=f"c07-{name}-", dir=tlc.scratch())
    fg = {name: _Bg(R, "ImportLifeMC", f"ImportLifeMC_{name}", workers=WORKERS if name != "scen_cfg" else 4, timeout=7200,
                    extra=["-dump", dumps[name]]) for name in dumps}
    bg = [
        # vacuity guard: every action of the state machine is taken (small instance, all invariants)
        _Bg(R, "ImportLifeMC", "ImportLifeMC_cov", workers=2, coverage=True,
            require_cov=["ImportLifeMC!Grow", "ImportLifeMC!Conv", "ImportLifeMC!HSet", "ImportLifeMC!HExport", "ImportLifeMC!HExportNoBn",
                         "ImportLifeMC!HObs"]),
    ]
    # sanity (non-vacuity of the invariants): the as-implemented model violates them on the finding topologies, and so do the
    # three defect variants of the model
    for s in SANITY:                 # one chain
        bg.append(_Bg(R, "ImportLifeMC", f"ImportLifeMC_{s}", workers=2, expect_ok=False, after=bg[-1]))
    # as-implemented model on the supported space; reference model on the whole grammar; configuration grammar
    # three chains of design runs
    chains = [[f"ImportLifeMC_ref_{sfx}", "ImportLifeMC_bn_quick"], [f"ImportLifeMC_{sfx}", "ImportLifeMC_refbn_quick"],
              [f"ImportLifeMC_cfg_{sfx}", "ImportLifeMC_refcfg_quick"] + ([] if quick else ["ImportLifeMC_thorough_sn"])]
    for ch in chains:
        prev = None
        for c in ch:
            prev = _Bg(R, "ImportLifeMC", c, workers=WORKERS, timeout=7200, after=prev)
            bg.append(prev)
    for name in dumps:
        res[name] = fg[name].join()

    # ---------------------------------------------------------------- spec -> code: TLC's scenarios on the real library
    raws = {}
    for name in dumps:
        path = dumps[name] + ".dump" if os.path.exists(dumps[name] + ".dump") else dumps[name]
        raws[name] = _dump_scenarios(path, res[name].distinct)
        os.unlink(path)
    hraws = raws[f"hist{hl}"]
    R.extra["tlc_scenarios_enumerated"] = {k: len(v) for k, v in raws.items()}
    # histories by (method, mode found) - structures are paired with a TLC-enumerated history of their own method and mode
    hpool: Dict[Any, List[List[str]]] = {}
    for r in hraws:
        c = tlc.parse_value(r["cfg_txt"])
        hpool.setdefault((c["method"], c["mode"]), []).append(list(tlc.parse_value(r["hist_txt"])))
    scs: List[Dict[str, Any]] = []
    for r in _stratified(raws["scen"], 180 if quick else 5000, rng):
        c = tlc.parse_value(r["cfg_txt"])
        scs.append(_materialize(r, rng, "tlc-structure", hist=rng.choice(hpool[(c["method"], c["mode"])])))
    for r in _stratified(raws["scen_cfg"], 180 if quick else 0, rng):
        scs.append(_materialize(r, rng, "tlc-configuration"))
    # BatchNorm sharing patterns (chains and two-stream networks), each with a TLC-enumerated history
    for r in _stratified(raws["scen_bn"], 100 if quick else 2500, rng) + _stratified(raws["scen_bn2"], 140 if quick else 2500, rng):
        c = tlc.parse_value(r["cfg_txt"])
        scs.append(_materialize(r, rng, "tlc-batchnorm-sharing", hist=rng.choice(hpool[(c["method"], c["mode"])])))
    # every distinct history at least once per method; beyond that stratified by (architecture features, history)
    for r in hraws:
        r["hkey"] = (tlc.parse_value(r["cfg_txt"])["method"], r["hist_txt"])
    scs += [_materialize(r, rng, "tlc-history") for r in _stratified(hraws, 260 if quick else 4000, rng, key="hkey")]
    R.extra["tlc_scenarios_executed"] = len(scs)
    R.extra["distinct_histories_executed"] = len({(s["method"], tuple(s["hist"])) for s in scs})
    # ---------------------------------------------------------------- code -> spec: random scenarios beyond the bounds
    rs = [random_scenario(rng, hl) for _ in range(180 if quick else 2500)]
    R.extra["random_scenarios"] = len(rs)
    _execute_and_validate(R, fixed_scenarios() + scs + rs, "fixed + tlc-enumerated + random")

    for b in bg:
        b.join()
    R.exhaustive = False
    R.extra["public_keywords"] = import_gen.public_keywords()
    R.extra["tlc_scenarios_all_executed"] = len(scs) == sum(len(v) for v in raws.values())
    return R.finish()
