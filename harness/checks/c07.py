"""C07 - importing a model is behaviour-preserving and leaves the user's model intact.

design level : ImportLifeMC (state machine User/Grow -> Convert(method, mode, fold_bn, autoconvert) -> [SetMode] -> Export over
               every architecture of a bounded grammar) with the object-level model of specs/ImportLife.tla:
                 * as-implemented model on the supported space            -> must hold
                 * reference model on the WHOLE grammar                   -> must hold
                 * as-implemented model with user-placed layers + BN (F50) and with reused conv+BN pairs (F51) -> must FAIL (sanity)
spec -> code : the (architecture, configuration) pairs TLC enumerates (Conv transitions of the dump config) are built for
               real (harness/import_gen.py): GrammarNet, hand-placed PITConv1d/PITConv2d/PITLinear, SuperNetModule blocks,
               two-input wrapper; PIT / SuperNet / MPS constructed on them
code -> spec : everything observed (mode flags, masks, float64 output differences, state_dict of the caller's model, layer
               sequence of the original and of the immediately exported network) is logged and TLC (ImportLifeTrace) decides
               every clause, recomputing the expected layer sequences with the operators the design level checks.
"""
from __future__ import annotations

import json
import os
import random
import re
import tempfile
import threading
from typing import Any, Dict, List, Optional

from .. import import_gen, tlc
from ..core import Run, use_repo

WORKERS = 8


# ------------------------------------------------------------------------------------------ design runs (background threads)
class _Bg:
    """run_tlc in a thread; the bookkeeping of Run.design is replayed in the main thread (join)."""

    def __init__(self, R: Run, module: str, cfg: str, *, expect_ok=True, require_cov=(), **kw):
        self.R, self.module, self.cfg, self.expect_ok, self.require_cov, self.kw = R, module, cfg, expect_ok, require_cov, kw
        self.res: Optional[tlc.TLCResult] = None
        self.exc: Optional[BaseException] = None
        self.th = threading.Thread(target=self._go, daemon=True)
        self.th.start()

    def _go(self):
        try:
            self.res = tlc.run_tlc(self.module, self.cfg, **self.kw)
        except BaseException as e:       # re-raised in join()
            self.exc = e

    def join(self) -> tlc.TLCResult:
        self.th.join()
        if self.exc is not None:
            raise self.exc
        res = self.res
        assert res is not None
        # Run.design(), with the TLC result already computed
        orig = tlc.run_tlc
        try:
            tlc.run_tlc = lambda *a, **k: res          # type: ignore
            self.R.design(self.module, self.cfg, expect_ok=self.expect_ok, require_cov=self.require_cov)
        finally:
            tlc.run_tlc = orig                          # type: ignore
        return res


# ------------------------------------------------------------------------------------------ scenarios from TLC's dump
def _conjunct(block: str, var: str) -> str:
    m = re.search(r"(?ms)^/\\ " + var + r" = (.*?)(?=^/\\ |\Z)", block)
    if not m:
        raise tlc.MachineryError(f"dump block without variable {var}: {block[:200]}")
    return m.group(1).strip()


def _dump_scenarios(path: str, expected_states: int) -> List[Dict[str, Any]]:
    """Every `converted` state of the dump = one (architecture, method, configuration) scenario, still as raw text
    (parsed lazily, after sampling) plus cheap stratification features."""
    txt = open(path).read()
    blocks = [b for b in re.split(r"(?m)^State \d+:\s*$", txt) if b.strip()]
    if len(blocks) != expected_states:
        raise tlc.MachineryError(f"dump has {len(blocks)} states, TLC reported {expected_states}")
    out = []
    for b in blocks:
        if 'phase = "converted"' not in b:
            continue
        a = _conjunct(b, "arch")
        c = _conjunct(b, "cfg")
        ops = tuple(re.findall(r'op \|-> "(\w+)"', a))
        feat = (c, ops, "two |-> \"no\"" in a, "bn |-> TRUE" in a, "pl |-> TRUE" in a, "excl |-> TRUE" in a,
                bool(re.search(r"reuse \|-> [1-9]", a)), "dw |-> TRUE" in a, bool(re.search(r"sn \|-> <<\[", a)))
        out.append({"arch_txt": a, "cfg_txt": c, "feat": feat})
    return out


def _materialize(raw: Dict[str, Any], rng: random.Random) -> Dict[str, Any]:
    a = tlc.parse_value(raw["arch_txt"])
    c = tlc.parse_value(raw["cfg_txt"])
    arch = {"dim": a["dim"], "c0": a["c0"], "sp": a["sp"], "two": a["two"], "ca": a["ca"],
            "nodes": [dict(n, ins=list(n["ins"]), sn=[dict(b) for b in n["sn"]]) for n in a["nodes"]]}
    return {"arch": import_gen.norm_iarch(arch), "method": c["method"], "mode": c["mode"], "fold": bool(c["fold"]),
            "auto": bool(c["auto"]), "seed": rng.randrange(10 ** 6), "src": "tlc"}


def _stratified(raws: List[Dict[str, Any]], limit: int, rng: random.Random) -> List[Dict[str, Any]]:
    if not limit or len(raws) <= limit:
        return list(raws)
    buckets: Dict[Any, list] = {}
    for r in raws:
        buckets.setdefault(r["feat"], []).append(r)
    keys = sorted(buckets, key=repr)
    rng.shuffle(keys)
    out = []
    while len(out) < limit and keys:
        for k in list(keys):
            b = buckets[k]
            if not b:
                keys.remove(k)
                continue
            out.append(b.pop(rng.randrange(len(b))))
            if len(out) >= limit:
                break
    return out


# ------------------------------------------------------------------------------------------ random scenarios (same grammar, larger)
def random_scenario(rng: random.Random) -> Dict[str, Any]:
    method = rng.choices(["PIT", "SN", "MPS"], weights=[6, 2, 1.5])[0]
    dim = rng.choice([1, 2]) if method != "MPS" else rng.choice([2, 2, 1])
    c0 = rng.choice([2, 3, 4])
    sp = rng.choice([4, 6, 8]) if dim == 1 else rng.choice([4, 6])
    two = rng.choice(["no", "no", "add", "cat"])
    widths = (2, 3, 4, 6)
    nodes: List[Dict[str, Any]] = []
    cur, ch, s_now, flat = 0, c0, sp, False
    allow_pl = method == "PIT" and rng.random() < 0.5
    allow_excl = method in ("PIT", "MPS") and rng.random() < 0.3
    allow_reuse = rng.random() < 0.35
    p_bn = rng.choice([0.3, 0.6, 0.9])

    def deco(nd):
        nd["bias"] = rng.random() < 0.6
        nd["bn"] = rng.random() < p_bn
        nd["eps"], nd["mom"] = rng.randrange(2), rng.randrange(2)
        if allow_pl and rng.random() < 0.35:
            nd["pl"] = True
        elif allow_excl and rng.random() < 0.25:
            nd["excl"] = True
        return nd

    def conv(src, out, dw=False, same=False):
        k = rng.choice([1, 2, 3, 5]) if dim == 1 else rng.choice([1, 3])
        nd = {"op": "conv", "ins": [src], "out": 0 if dw else out, "dw": dw, "k": k,
              "d": rng.choice([1, 1, 2]) if dim == 1 else 1, "s": 1 if same else rng.choice([1, 1, 1, 2]),
              "causal": dim == 1}
        return deco(nd)

    steps = rng.randint(1, 7)
    n_sn = 0
    lin_seen = False
    for _ in range(steps):
        if len(nodes) > 11:
            break
        T = len(nodes)
        if not flat:
            # (a depthwise layer directly on cat(xa, xb) is the F19 topology of C09: not generated)
            kind = rng.choices(["conv", "dw", "relu", "pool", "res", "reuse", "flat"],
                               weights=[5, 0 if (two == "cat" and cur == 0) else 2, 2, 1 if s_now >= 2 else 0, 2,
                                        1.2 if allow_reuse else 0, 1.5])[0]
            if kind == "conv":
                w = rng.choice(widths)
                nd = conv(cur, w)
                if method == "SN" and n_sn < 2 and rng.random() < 0.6:
                    nd.update({"s": 1, "d": 1, "causal": False, "bn": False, "pl": False, "excl": False,
                               "sn": [{"k": rng.choice([1, 3, 5]) if dim == 1 else rng.choice([1, 3]), "bn": rng.random() < 0.5}
                                      for _ in range(rng.randint(2, 3))]})
                    n_sn += 1
                nodes.append(nd)
                s_now = (s_now - 1) // nd["s"] + 1
                cur, ch = T + 1, w
            elif kind == "dw":
                nd = conv(cur, ch, dw=True)
                nodes.append(nd)
                s_now = (s_now - 1) // nd["s"] + 1
                cur = T + 1
            elif kind == "relu" and cur != 0:
                nodes.append({"op": "relu", "ins": [cur]})
                cur = T + 1
            elif kind == "pool" and cur != 0 and s_now >= 2:
                nodes.append({"op": "pool", "ins": [cur], "kind": rng.choice(["avg", "max"])})
                s_now //= 2
                cur = T + 1
            elif kind == "res":          # residual block: conv (same width) -> relu -> add skip
                nodes.append(conv(cur, ch, same=True))
                nodes.append({"op": "relu", "ins": [T + 1]})
                nodes.append({"op": "add", "ins": [T + 2, cur]})
                cur = T + 3
            elif kind == "reuse":        # weight-shared block invoked twice:  h' = relu(B(h)) + h ; h'' = relu(B(h')) + h'
                blk = conv(cur, ch, same=True)
                blk.pop("excl", None)
                nodes.append(blk)
                nodes.append({"op": "relu", "ins": [T + 1]})
                nodes.append({"op": "add", "ins": [T + 2, cur]})
                b2 = dict(blk)
                b2.update({"ins": [T + 3], "reuse": T + 1})
                nodes.append(b2)
                nodes.append({"op": "relu", "ins": [T + 4]})
                nodes.append({"op": "add", "ins": [T + 5, T + 3]})
                cur = T + 6
            elif kind == "flat" and ch * s_now ** dim <= 96:
                nodes.append({"op": "flat", "ins": [cur]})
                cur, ch, flat = T + 1, ch * s_now ** dim, True
        else:
            # (a residual sum of flatten(conv) and a linear output is the F24 topology of C09: only linear outputs are added)
            kind = rng.choices(["lin", "relu", "res"], weights=[4, 2, 1.5 if lin_seen else 0])[0]
            if kind == "lin":
                w = rng.choice(widths)
                nodes.append(deco({"op": "lin", "ins": [cur], "out": w}))
                cur, ch, lin_seen = T + 1, w, True
            elif kind == "relu":
                nodes.append({"op": "relu", "ins": [cur]})
                cur = T + 1
            else:
                nodes.append(deco({"op": "lin", "ins": [cur], "out": ch}))
                nodes.append({"op": "add", "ins": [T + 1, cur]})
                cur = T + 2
    if not any(n["op"] in ("conv", "lin") for n in nodes) or rng.random() < 0.7:
        T = len(nodes)
        if not flat:
            if ch * s_now ** dim > 96:
                nodes.append(conv(cur, 2, same=True))
                T += 1
                cur, ch = T, 2
            if ch * s_now ** dim <= 96:
                nodes.append({"op": "flat", "ins": [cur]})
                T += 1
                cur, ch, flat = T, ch * s_now ** dim, True
        if flat:
            nodes.append(deco({"op": "lin", "ins": [cur], "out": rng.choice([2, 3, 5])}))
        else:
            nodes.append(conv(cur, 2, same=True))
    arch = {"dim": dim, "c0": c0, "sp": sp, "two": two, "ca": rng.randrange(1, c0) if two == "cat" else 0, "nodes": nodes}
    return {"arch": import_gen.norm_iarch(arch), "method": method, "mode": rng.choice(["train", "eval"]),
            "fold": method == "PIT" and rng.random() < 0.5, "auto": method != "PIT" or rng.random() < 0.7,
            "seed": rng.randrange(10 ** 6), "src": "random"}


def fixed_scenarios() -> List[Dict[str, Any]]:
    """Hand-written regression scenarios (the shapes of the repository's own test models)."""
    scs = []
    # SimplePitNN of the unit tests: user-placed PITConv1d + BatchNorm, plain conv + BatchNorm, linear head
    a = {"dim": 1, "c0": 3, "sp": 8, "nodes": [
        {"op": "conv", "ins": [0], "out": 4, "k": 3, "bn": True, "pl": True, "causal": False},
        {"op": "pool", "ins": [1], "kind": "avg"}, {"op": "relu", "ins": [2]},
        {"op": "conv", "ins": [3], "out": 5, "k": 5, "bn": True, "causal": False},
        {"op": "pool", "ins": [4], "kind": "avg"}, {"op": "relu", "ins": [5]},
        {"op": "flat", "ins": [6]}, {"op": "lin", "ins": [7], "out": 3}]}
    for auto in (True, False):
        for fold in (False, True):
            scs.append({"arch": a, "method": "PIT", "mode": "train", "fold": fold, "auto": auto, "seed": 11})
    # ToyBatchNorm-like: depthwise + BN, pointwise + BN (no bias), linear + BatchNorm1d
    b = {"dim": 2, "c0": 3, "sp": 4, "nodes": [
        {"op": "conv", "ins": [0], "dw": True, "k": 3, "bn": True, "bias": False, "eps": 1},
        {"op": "relu", "ins": [1]},
        {"op": "conv", "ins": [2], "out": 4, "k": 1, "bn": True, "bias": False, "mom": 1},
        {"op": "relu", "ins": [3]}, {"op": "pool", "ins": [4], "kind": "max"}, {"op": "flat", "ins": [5]},
        {"op": "lin", "ins": [6], "out": 5, "bn": True}, {"op": "relu", "ins": [7]},
        {"op": "lin", "ins": [8], "out": 2}]}
    for mode in ("train", "eval"):
        for fold in (False, True):
            scs.append({"arch": b, "method": "PIT", "mode": mode, "fold": fold, "auto": True, "seed": 12})
        scs.append({"arch": b, "method": "MPS", "mode": mode, "fold": False, "auto": True, "seed": 12})
    # conv + BN invoked twice (layer reuse)
    c = {"dim": 2, "c0": 2, "sp": 4, "nodes": [
        {"op": "conv", "ins": [0], "out": 2, "k": 3, "bn": True, "bias": False}, {"op": "relu", "ins": [1]},
        {"op": "conv", "ins": [2], "out": 2, "k": 3, "bn": True, "bias": False, "reuse": 1},
        {"op": "flat", "ins": [3]}, {"op": "lin", "ins": [4], "out": 3, "bn": True}]}
    for fold in (False, True):
        scs.append({"arch": c, "method": "PIT", "mode": "eval", "fold": fold, "auto": True, "seed": 13})
    # SuperNet: two choice blocks, two-input forward, residual
    d = {"dim": 2, "c0": 2, "sp": 4, "two": "add", "nodes": [
        {"op": "conv", "ins": [0], "out": 3, "sn": [{"k": 3, "bn": True}, {"k": 1, "bn": False}]},
        {"op": "relu", "ins": [1]},
        {"op": "conv", "ins": [2], "out": 3, "bias": False, "sn": [{"k": 1, "bn": False}, {"k": 3, "bn": False}, {"k": 3, "bn": True}]},
        {"op": "add", "ins": [3, 1]}, {"op": "flat", "ins": [4]}, {"op": "lin", "ins": [5], "out": 3, "bn": True}]}
    for mode in ("train", "eval"):
        scs.append({"arch": d, "method": "SN", "mode": mode, "fold": False, "auto": True, "seed": 14})
    for s in scs:
        s["arch"] = import_gen.norm_iarch(s["arch"])
        s["src"] = "fixed"
    return scs


# ------------------------------------------------------------------------------------------ bookkeeping
def _key(sc):
    return {k: sc.get(k) for k in ("arch", "method", "mode", "fold", "auto")}


def _nontrivial(sc) -> bool:
    """The converter has something to fuse / fold / adopt / select: a BatchNorm after a conv/linear layer, a user-placed
    PIT layer, a SuperNet block, a reused layer or a two-input forward.  (Trivial: single-input plain conv/linear net.)"""
    a = sc["arch"]
    return a.get("two", "no") != "no" or any(
        n["op"] in ("conv", "lin") and (n["bn"] or n["pl"] or n["sn"] or n["reuse"]) for n in a["nodes"])


def _execute_and_validate(R: Run, scs: List[Dict[str, Any]], label: str) -> None:
    if not scs:
        return
    trs = import_gen.run_scenarios(scs, procs=WORKERS)
    ob = R.extra.setdefault("observations", {
        "scenarios_by_method": {}, "constructor_rejected_MPS_skipped": 0, "caller_left_in_eval_mode": 0,
        "caller_found_in_train_mode": 0, "supernet_seed_eval_wrapper_train": 0, "supernet_scenarios": 0,
        "mps_altered_callers_parameters_by_design": 0, "mps_scenarios": 0, "caller_state_dict_gained_keys": 0,
        "seed_left_in_eval_by_export": 0, "exports": 0})
    for sc, tr in zip(scs, trs):
        m = sc["method"]
        ob["scenarios_by_method"][m] = ob["scenarios_by_method"].get(m, 0) + 1
        if not tr["conv_ok"]:
            if m == "MPS":
                ob["constructor_rejected_MPS_skipped"] += 1
                if len(R.notes) < 5:
                    R.notes.append(f"MPS rejected: {tr['err'][:100]}")
            continue
        if tr["u0"]:
            ob["caller_found_in_train_mode"] += 1
            if not tr["u1"]:
                ob["caller_left_in_eval_mode"] += 1
        if m == "SN":
            ob["supernet_scenarios"] += 1
            if tr["w1"] and not tr["s1"]:
                ob["supernet_seed_eval_wrapper_train"] += 1
        if m == "MPS":
            ob["mps_scenarios"] += 1
            if not tr["sd_vals"]:
                ob["mps_altered_callers_parameters_by_design"] += 1
        if m != "MPS" and not tr["sd_keys"]:
            ob["caller_state_dict_gained_keys"] += 1
        if tr["exp_ok"]:
            ob["exports"] += 1
            if not tr["s2"]:
                ob["seed_left_in_eval_by_export"] += 1
    verdicts = R.validate("ImportLifeTrace", "ImportLifeTrace", trs, scs, nontrivial=_nontrivial, key=_key, label=label,
                          workers=WORKERS)
    for sc, v in zip(scs, verdicts):
        if v.startswith("drift:harness"):
            raise tlc.MachineryError(f"the harness did not build the architecture the specification describes: {v[:400]} "
                                     f"scenario={json.dumps(_key(sc))[:1500]}")
    for sc, tr, v in zip(scs, trs, verdicts):
        if v == "ok" and _nontrivial(sc) and tr["conv_ok"]:
            R.sample({"scenario": _key(sc), "observed": {k: tr[k] for k in ("u0", "w1", "s1", "u1", "dw", "du", "sd_vals",
                                                                             "sd_keys", "exp_ok", "de")},
                      "exported": [r["t"] for r in tr["E"]]}, maxn=4)
            break


def run(tier: str, seed: int, replay=None) -> int:
    R = Run("C07", tier, seed, level="model_checking")
    use_repo()
    quick = tier == "quick"
    rng = random.Random(seed * 7919 + 7)
    R.rule = ("scenario = (architecture, method in {PIT, SuperNet, MPS}, mode found, fold_bn, autoconvert). Sources: (1) the "
              "(architecture, configuration) pairs of the Conv transitions of ImportLifeMC (grammar: conv / depthwise / linear with "
              "bias on/off, BatchNorm on/off, user-placed PIT layer, excluded layer, layer reuse, SuperNet blocks, relu, pooling, "
              "flatten, residual add, one/two-input forward; <= 2 operator nodes; " + ("stratified sample of 600 of them" if quick else "all of them")
              + "); (2) seeded random architectures of the same grammar with up to ~12 nodes, widths 2..6, kernels 1..5, strides, "
              "dilations, BatchNorm eps/momentum variants; (3) hand-written shapes of the repository's test models. "
              "Non-trivial = the converter has something to fuse, fold, adopt or select (BatchNorm after a layer, user-placed "
              "layer, SuperNet block, reused layer, two inputs).")
    R.assumptions = [
        "float64 models built under torch.set_default_dtype(torch.float64); generic random weights, biases and BatchNorm statistics; "
        "'equal outputs' means max|dy| <= 1e-9*(1+max|y|) on a random batch of 3 inputs, eval mode",
        "the caller's parameters are compared bitwise on every state_dict entry that existed before the call; calculator buffers "
        "that PIT registers on a user-placed PIT layer (new keys) are recorded as an observation, not as an alteration",
        "'original architecture' = same sequence of module calls / functional ops with the same hyper-parameters and dataflow "
        "(positions of producers); a folded BatchNorm is absorbed into a bias; a SuperNet block is replaced by one of its branches "
        "(which one - the first maximum of the uniform coefficients - is a prediction)",
        "a user-placed PIT layer is created with the same fold_bn flag that is passed to PIT(...); exclude_names never names a "
        "user-placed layer; SuperNet branches are single conv (+BatchNorm) modules (functional tails are C03's domain)",
        "MPS: only the mode clause is claimed (MPS folds BatchNorm into the caller's layers by design); architectures MPS rejects "
        "are skipped and counted",
        "all converters leave the CALLER's module object in eval mode (tracer.trace(model.eval())) and SuperNet leaves its seed in "
        "eval mode: recorded under coverage.observations, not decided (the property claims the mode for the PIT/MPS wrapper only)",
        "channel / time concatenation inside the network is not generated (not in the property's grammar), except for the "
        "two-input forward cat(xa, xb)",
    ]
    if replay:
        sc = json.load(open(replay))["scenario"]
        sc.setdefault("seed", json.load(open(replay)).get("scenario", {}).get("seed", 0))
        _execute_and_validate(R, [sc], "replay")
        return R.finish()

    # ---------------------------------------------------------------- design level (TLC in background threads)
    sfx = "quick" if quick else "thorough"
    dump = tempfile.mktemp(prefix="c07-dump-", dir=tlc.scratch())
    scen = R.design("ImportLifeMC", "ImportLifeMC_scen", workers=WORKERS, extra=["-dump", dump])
    bg = [
        # vacuity guard: every action of the state machine is taken (small instance, all invariants)
        _Bg(R, "ImportLifeMC", "ImportLifeMC_cov", workers=2, coverage=True,
            require_cov=["ImportLifeMC!Grow", "ImportLifeMC!Conv", "ImportLifeMC!SetMode", "ImportLifeMC!Export"]),
        # sanity (non-vacuity of the invariants): the as-implemented model violates them on the two finding topologies
        _Bg(R, "ImportLifeMC", "ImportLifeMC_f50", workers=2, expect_ok=False),
        _Bg(R, "ImportLifeMC", "ImportLifeMC_f51", workers=2, expect_ok=False),
        # as-implemented model on the supported space; reference model on the whole grammar
        _Bg(R, "ImportLifeMC", f"ImportLifeMC_{sfx}", workers=WORKERS, timeout=7200),
        _Bg(R, "ImportLifeMC", f"ImportLifeMC_ref_{sfx}", workers=WORKERS, timeout=7200),
    ]
    if not quick:
        bg.append(_Bg(R, "ImportLifeMC", "ImportLifeMC_thorough_sn", workers=WORKERS, timeout=7200))

    # ---------------------------------------------------------------- spec -> code: TLC's scenarios on the real library
    path = dump + ".dump" if os.path.exists(dump + ".dump") else dump
    raws = _dump_scenarios(path, scen.distinct)
    os.unlink(path)
    R.extra["tlc_scenarios_enumerated"] = len(raws)
    picked = _stratified(raws, 600 if quick else 0, rng)      # thorough: every enumerated scenario is built for real
    scs = [_materialize(r, rng) for r in picked]
    R.extra["tlc_scenarios_executed"] = len(scs)
    # ---------------------------------------------------------------- code -> spec: random scenarios beyond the bounds
    rs = [random_scenario(rng) for _ in range(350 if quick else 3000)]
    R.extra["random_scenarios"] = len(rs)
    _execute_and_validate(R, fixed_scenarios() + scs + rs, "fixed + tlc-enumerated + random")

    for b in bg:
        b.join()
    R.exhaustive = False
    R.extra["tlc_scenarios_all_executed"] = len(scs) == len(raws)
    return R.finish()
