"""C17 - a checkpointed search resumes to an observationally identical model.

spec -> code : CheckpointMC (classification Impl = "asis") is explored to closure by TLC for the three kinds of model; in
               every reachable abstract state the checkpoint experiment (Save; FreshConstruct; re-apply configuration; Load;
               forward) must give the observations of the original.  The states are dumped together with one shortest
               history each; a seeded sample (quick) / a large sample (thorough) of them is reached on real PIT, MPS
               (per-layer, per-channel, 0-bit) and SuperNet models with real optimizer steps on random data, and the
               experiment is carried out for real on the original object.
code -> spec : the harness re-applies on the fresh wrapper exactly the calls the specification classifies as configuration
               (TLC checks the agreement event by event), loads the state_dict (through torch.save / torch.load) and logs key
               sets, the restored state_dict vs the checkpoint, outputs / every cost / summary of both models after the
               usual forward pass in both modes, and the exported networks; TLC (CheckpointTrace) walks the history with
               Checkpoint!Next and decides every clause.  Seeded long random histories (trainability calls, Gumbel,
               PIT mask switches, integer-typed constructor temperature) with a checkpoint every few calls (on faithful
               copies) and at the end go through the same trace spec.
"""
from __future__ import annotations

import json
import os
import random
import re
import tempfile
from typing import Any, Dict, List

from ..core import Run, use_repo
from .. import tlc
from ..tlc import MachineryError
from .. import ckobs


def _dump_blocks(R: Run, cfg: str, **kw) -> List[str]:
    base = tempfile.mktemp(prefix="c17-dump-", dir=tlc.scratch())
    res = R.design("CheckpointMC", cfg, extra=["-dump", base], **kw)
    path = base + ".dump" if os.path.exists(base + ".dump") else base
    txt = open(path).read()
    os.unlink(path)
    blks = [b.strip() for b in re.split(r"(?m)^State \d+:\s*$", txt) if b.strip()]
    if len(blks) != res.distinct:
        raise MachineryError(f"dump of CheckpointMC/{cfg}: {len(blks)} states, TLC reported {res.distinct}")
    return blks


def _init_of(kind: str, I: Dict[str, Any], rng: random.Random) -> Dict[str, Any]:
    init = {"train": bool(I["train"]), "hard": bool(I["hard"]), "gumbel": bool(I["gumbel"]), "disable": bool(I["disable"]),
            "dc": bool(I["dc"]),
            "cs": rng.choice(["A", "A", "D"]), "fc": rng.random() < 0.4}
    if kind == "mps" and rng.random() < 0.5:
        init["temp"] = 1          # integer-typed constructor temperature (the default is the float 1.)
    return init


def _random_history(kind: str, rng: random.Random, length: int) -> List[Dict[str, Any]]:
    acts: List[Dict[str, Any]] = []
    for _ in range(length):
        u = rng.random()
        if u < 0.32:
            acts.append({"a": "step", "g": rng.choice(["net", "nas", "nas", "all", "all"])})
        elif u < 0.47:
            if kind == "pit":
                o = rng.choice(["dc", "dc", "train_features", "train_rf", "train_dilation"])
                acts.append({"a": "opt", "o": o, "v": rng.randint(0, 1)})
            elif kind == "mps":
                o = rng.choice(["temp", "temp", "hard", "disable", "gumbel"])
                acts.append({"a": "opt", "o": o, "v": rng.choice([1, 2, 3]) if o == "temp" else rng.randint(0, 1)})
            else:
                o = rng.choice(["temp", "hard"])
                acts.append({"a": "opt", "o": o, "v": rng.choice([1, 2, 3]) if o == "temp" else rng.randint(0, 1)})
        elif u < 0.62:
            acts.append({"a": "train", "g": rng.choice(["nas", "net", "both"])})
        elif u < 0.72:
            acts.append({"a": "mode", "v": rng.randint(0, 1)})
        elif u < 0.86:
            acts.append({"a": "forward"})
        else:
            acts.append({"a": "observe"})
    return acts


def _recipe(kind: str, variant: str, k: int, seed: int) -> Dict[str, Any]:
    """the classic three-phase DNAS run through the public helpers: warm-up of the weights (train_net_only), search
    (train_nas_only / train_net_and_nas, with an annealing / option change), fine-tuning with frozen architecture
    (train_net_only), final evaluation; a checkpoint after every phase"""
    st = lambda g: {"a": "step", "g": g}
    anneal = {"pit": {"a": "opt", "o": "dc", "v": 1}, "mps": {"a": "opt", "o": "temp", "v": 2},
              "sn": {"a": "opt", "o": "temp", "v": 2}}[kind]
    phases = [[{"a": "train", "g": "net"}, st("all"), st("all")],
              [{"a": "train", "g": "nas"}, st("all"), st("all"), st("all")],
              [anneal, {"a": "train", "g": "both"}, st("all"), st("all")],
              [{"a": "train", "g": "net"}, st("all"), st("all")],
              [{"a": "observe"}, {"a": "mode", "v": 0}, {"a": "forward"}]]
    acts, cks = [], []
    for i, ph in enumerate(phases):
        acts += ph
        cks.append({"at": len(acts), "cfg_first": (i + k) % 2 == 0, "warm": (i + k) % 3 == 0, "pre": (i + k) % 3,
                    "child": i == len(phases) - 1 and variant in ("cat", "cat2", "std", "tcn")})
    init = {"train": True, "hard": False, "disable": False, "gumbel": False, "dc": False, "cs": "A" if k % 2 == 0 else "D",
            "fc": k % 2 == 1}
    if kind == "mps" and k % 2 == 0:
        init["temp"] = 1
    return {"kind": kind, "variant": variant, "init": init, "wseed": seed + k, "acts": acts, "cks": cks, "src": "recipe"}


def _corruption_sanity(traces: List[Dict[str, Any]], strict: bool = True) -> None:
    """non-vacuity of the trace specification: corrupted copies of a recorded trace must be rejected with the right clause"""
    import copy
    base = next((t for t in traces if any(e["act"]["a"] == "ckpt" and e["ck"]["obs"] and not e["ck"]["obs"][0]["err_o"]
                                           for e in t["ev"])), None)
    if base is None:
        if strict:
            raise MachineryError("C17: no trace with a completed checkpoint experiment")
        return
    k = next(i for i, e in enumerate(base["ev"]) if e["act"]["a"] == "ckpt" and e["ck"]["obs"])
    muts = []
    t = copy.deepcopy(base); t["ev"][k]["ck"]["obs"][0]["r"]["out"] += 1000; muts.append(("C17.output", t))
    t = copy.deepcopy(base); t["ev"][k]["ck"]["obs"][-1]["r"]["cost"] += 1000; muts.append(("C17.cost", t))
    t = copy.deepcopy(base); t["ev"][k]["ck"]["unexpected"] = ["seed.x.lazy"]; muts.append(("C17.keys", t))
    t = copy.deepcopy(base); t["ev"][k]["ck"]["sd_equal"] = False; muts.append(("C17.state", t))
    t = copy.deepcopy(base); t["ev"][k]["ck"]["strict_ok"] = False; muts.append(("C17.keys", t))
    t = copy.deepcopy(base); t["ev"][k]["ck"]["exp"]["r"]["sd"] += 1000; muts.append(("C17.export", t))
    verdicts, _ = tlc.validate_traces("CheckpointTrace", "CheckpointTrace", [base] + [m for _, m in muts], workers=2)
    for (want, _), v in zip(muts, verdicts[1:]):
        if not v.startswith(want):
            raise MachineryError(f"C17 trace specification accepted a corrupted trace: expected {want}, verdict {v[:120]}")


def _stochastic(seed: int) -> List[Dict[str, Any]]:
    """every stochastic configuration (SuperNet blocks with the Gumbel sampler, soft and hard; MPS with the Gumbel
    sampler, soft and hard, per-layer / per-channel) x k = 0..3 TRAINING-mode forward passes / optimizer steps before
    the checkpoint x checkpoint taken in training / in eval mode.  The observations of the experiment are taken in both
    modes with torch.manual_seed(s) immediately before the forward pass of the original and of the restored model, so
    all randomness must come from the global stream."""
    out = []
    confs = [("sn", "std", False), ("sn", "std", True), ("mps", "layer", False), ("mps", "layer", True),
             ("mps", "channel", False), ("mps", "channel0", True), ("mps", "seq", False)]
    for ci, (kind, variant, hard) in enumerate(confs):
        for k in range(4):
            for end_eval in (False, True):
                acts = [{"a": "forward"} if (i + ci) % 2 == 0 else {"a": "step", "g": "all"} for i in range(k)]
                if end_eval:
                    acts.append({"a": "mode", "v": 0})
                j = ci + k + int(end_eval)
                init = {"train": True, "hard": hard, "gumbel": True, "disable": False, "dc": False,
                        "cs": "A" if j % 3 else "D", "fc": j % 2 == 1}
                out.append({"kind": kind, "variant": variant, "init": init, "wseed": seed + j, "acts": acts,
                            "cks": [{"at": len(acts), "cfg_first": j % 2 == 0, "warm": j % 4 == 3, "pre": j % 3}],
                            "src": "stochastic"})
    return out


def _key(sc):
    return {k: sc[k] for k in ("kind", "variant", "init", "wseed", "acts", "cks")}


def run(tier: str, seed: int, replay=None) -> int:
    R = Run("C17", tier, seed, level="model_checking")
    R.rule = ("scenario = (kind of model, model variant, constructor arguments, history of calls over {optimizer step on "
              "net / nas / all parameters with random data, option calls (temperature, hard, disable_sampling, gumbel, "
              "discrete_cost, PIT mask switches), train_nas_only / train_net_only / train_net_and_nas, train(), eval(), forward, "
              "observer calls}, checkpoint positions with {configuration re-applied before | after load, fresh | already used "
              "wrapper} x {resumed in the process of the original after 0..2 wrappers of other architectures were built | in a fresh "
              "python process}).  Histories: one shortest history per abstract state of CheckpointMC for a seeded sample of the states "
              "TLC enumerates to closure (every state is checked at design level), checkpoint at the end on the original "
              "object; plus every stochastic configuration (Gumbel sampler, soft / hard, SuperNet and MPS) x k = 0..3 training-mode "
              "forward passes before the checkpoint; the three-phase recipe (warm-up / search / fine-tuning, checkpoint after every phase) on every variant and "
              "seeded random histories of 14..30 calls with a checkpoint every 3..5 calls.  Non-trivial = "
              "non-empty history.")
    R.assumptions = [
        "'a freshly constructed wrapper of the same seed network' = a NEW object from the same factory, RNG seed and "
        "constructor arguments; configuration (hard / gumbel / disable_sampling flags, discrete_cost, PIT mask switches, "
        "SuperNet temperature, trainability calls, train()/eval()) lives outside the state_dict BY DESIGN of the library and is "
        "re-applied by replaying exactly those calls of the history (classification Checkpoint!ClassOf); the MPS temperature is "
        "classified persisted and is NOT re-applied",
        "the observations are taken after 'the usual forward pass' in train and in eval mode on the same batch with the same RNG "
        "seed (Gumbel noise included); outputs equal to float round-off: |a-b| <= 1e-6*(1+max|a|) in float32 (bit-identical "
        "in every run so far), costs / summaries / exported weights bit-identical",
        "the architectural step is a real torch.optim.SGD step whose learning rate is chosen so that the most sensitive "
        "coefficient moves by 0.5..0.8 (masks and arg-max selections change within one or two steps)",
        "intermediate checkpoints of the random histories use a faithful deep copy of the original as 'the original' so that "
        "the history can continue; the final checkpoint of every scenario uses the original object itself",
        "the known side effect of export() on the mode of the inner model (F16, property C18) is neutralised by re-asserting "
        "the wrapper's mode after every export()",
        "concrete models are a fixed family (see harness/ckobs.py), not all grammar architectures; quick replays a seeded "
        "SAMPLE of the abstract states (thorough: a larger sample), the design-level invariant covers all of them",
    ]
    use_repo()

    if replay:
        sc = json.load(open(replay))["scenario"]
        tr = ckobs.run_c17(sc)
        R.validate("CheckpointTrace", "CheckpointTrace", [tr], [sc], key=_key)
        return R.finish()

    quick = tier == "quick"
    sfx = "quick" if quick else "thorough"
    rng = random.Random(seed)
    n_states = {"pit": 70, "mps": 110, "sn": 50} if quick else {"pit": 500, "mps": 1200, "sn": 500}
    variants = {"pit": ["tcn", "cnn2d", "flat", "cat"], "mps": ["layer", "channel", "channel0", "cat"], "sn": ["std"]} \
        if quick else ckobs.VARIANTS
    scen: List[Dict[str, Any]] = []
    graph_info = {}
    for kind in ("pit", "mps", "sn"):
        blks = _dump_blocks(R, f"CheckpointMC_{kind}_{sfx}", workers=8)
        graph_info[kind] = {"states": len(blks), "replayed": min(n_states[kind], len(blks))}
        pick = sorted(blks)
        random.Random(seed * 31 + len(kind)).shuffle(pick)
        chosen = []
        for b in pick:                      # every initial state first ...
            if "hist = <<>>" in b.replace("<< >>", "<<>>"):
                chosen.append(b)
        for b in pick:                      # ... then the sample
            if len(chosen) >= n_states[kind]:
                break
            if b not in chosen:
                chosen.append(b)
        for j, b in enumerate(chosen):
            st = tlc.parse_state(b)
            acts = [dict(a) for a in st["hist"]]
            r2 = random.Random(seed * 7919 + len(scen))
            scen.append({"kind": kind, "variant": variants[kind][j % len(variants[kind])], "init": _init_of(kind, st["I"], r2),
                         "wseed": seed, "acts": acts,
                         "cks": [{"at": len(acts), "cfg_first": r2.random() < 0.5, "warm": r2.random() < 0.35,
                                  "pre": r2.choice([0, 1, 2]), "child": j % (12 if quick else 25) == 5}],
                         "mc": {k: st["s"][k] for k in ("net", "nas", "bn", "temp")}, "src": "graph"})
    # sanity (non-vacuity): wrong classifications make TLC exhibit a history that does not resume
    R.design("CheckpointMC", "CheckpointMC_mps_bad_temp", expect_ok=False, workers=2)
    R.design("CheckpointMC", "CheckpointMC_mps_bad_theta", expect_ok=False, workers=2)
    R.design("CheckpointMC", "CheckpointMC_pit_bad_keys", expect_ok=False, workers=2)
    # ... and a sampler that keeps a private random stream (hidden state) does not resume after one training forward
    R.design("CheckpointMC", "CheckpointMC_sn_private_stream", expect_ok=False, workers=2)
    R.design("CheckpointMC", "CheckpointMC_mps_private_stream", expect_ok=False, workers=2)
    # ... and state_dict keys numbered by a process-global counter depend on the construction index
    R.design("CheckpointMC", "CheckpointMC_pit_global_counter", expect_ok=False, workers=2)

    # code -> spec: long random histories with many checkpoints
    n_rand = {"pit": 14, "mps": 14, "sn": 8} if quick else {"pit": 120, "mps": 120, "sn": 60}
    for kind in ("pit", "mps", "sn"):
        vs = ckobs.VARIANTS[kind]
        for i in range(n_rand[kind]):
            acts = _random_history(kind, rng, rng.randint(14, 30))
            cks, at = [], rng.randint(1, 4)
            while at < len(acts):
                cks.append({"at": at, "cfg_first": rng.random() < 0.5, "warm": rng.random() < 0.3, "pre": rng.choice([0, 0, 1, 2])})
                at += rng.randint(3, 5)
            cks.append({"at": len(acts), "cfg_first": rng.random() < 0.5, "warm": rng.random() < 0.3, "pre": rng.choice([0, 1, 2])})
            init = {"train": rng.random() < 0.75, "hard": kind != "pit" and rng.random() < 0.25,
                    "disable": False, "gumbel": kind != "pit" and rng.random() < 0.3, "dc": kind == "pit" and rng.random() < 0.4,
                    "cs": rng.choice(["A", "A", "D", "B"]), "fc": rng.random() < 0.4}
            if kind == "mps" and rng.random() < 0.5:
                init["temp"] = 1      # integer-typed constructor temperature
            scen.append({"kind": kind, "variant": vs[i % len(vs)], "init": init, "wseed": rng.randint(0, 999), "acts": acts,
                         "cks": cks, "src": "random"})

    # the three-phase recipe on every variant
    for kind in ("pit", "mps", "sn"):
        for k, v in enumerate(ckobs.VARIANTS[kind]):
            for rep in range(1 if quick else 4):
                scen.append(_recipe(kind, v, k + 10 * rep, seed))

    scen += _stochastic(seed)

    by_kind = {k: [s for s in scen if s["kind"] == k] for k in ("pit", "mps", "sn")}
    scen = [by_kind[k][i] for i in range(max(map(len, by_kind.values()))) for k in ("pit", "mps", "sn")
            if i < len(by_kind[k])]
    traces = ckobs.run_pool("run_c17", scen, procs=8)

    cks_all = [e["ck"] for t in traces for e in t["ev"] if e["act"]["a"] == "ckpt"]
    n_graph = sum(1 for s in scen if s["src"] == "graph")
    R.sample({"scenario": {k: scen[0][k] for k in ("kind", "variant", "init", "acts", "cks")},
              "checkpoint": next((e["ck"] for e in traces[0]["ev"] if e["act"]["a"] == "ckpt"), None)})
    j = next(i for i, s in enumerate(scen) if s["src"] == "random")
    R.sample({"scenario": {k: scen[j][k] for k in ("kind", "variant", "init")} | {"acts": scen[j]["acts"][:8], "cks": scen[j]["cks"][:3]},
              "first_checkpoint": next((e["ck"] for e in traces[j]["ev"] if e["act"]["a"] == "ckpt"), None)})
    R.extra.update({
        "graphs": graph_info, "graph_scenarios": n_graph,
        "random_histories": sum(1 for s in scen if s["src"] == "random"),
        "three_phase_recipes": sum(1 for s in scen if s["src"] == "recipe"),
        "stochastic_configurations_x_k_training_forwards": sum(1 for s in scen if s["src"] == "stochastic"),
        "checkpoints_of_models_with_gumbel_sampler": sum(1 for t in traces if t["init"]["gumbel"]
                                                         for e in t["ev"] if e["act"]["a"] == "ckpt"),
        "history_calls_executed": sum(len(s["acts"]) for s in scen),
        "optimizer_steps_executed": sum(1 for s in scen for a in s["acts"] if a["a"] == "step"),
        "checkpoint_experiments": len(cks_all),
        "checkpoints_where_fresh_wrapper_differs_from_checkpoint": sum(1 for c in cks_all if not all(c["pre"].values())),
        "checkpoints_on_the_original_object": sum(1 for c in cks_all if not c["copy"]),
        "checkpoints_with_used_fresh_wrapper": sum(1 for c in cks_all if c["warm"]),
        "checkpoints_configuration_after_load": sum(1 for c in cks_all if not c["cfg_first"]),
        "checkpoints_resumed_after_other_wrappers_in_same_process": sum(1 for c in cks_all if c["pre_built"] > 0),
        "checkpoints_resumed_in_a_fresh_process": sum(1 for c in cks_all if c["child"]),
        "checkpoints_of_nets_with_channel_concat": sum(1 for t in traces if t["variant"] in ("cat", "cat2")
                                                       for e in t["ev"] if e["act"]["a"] == "ckpt"),
        "history_calls_that_raised": sum(1 for t in traces for e in t["ev"] if e["err"]),
    })
    verdicts = R.validate("CheckpointTrace", "CheckpointTrace", traces, scen, nontrivial=lambda s: len(s["acts"]) > 0,
                          key=_key, label="shortest histories of sampled states + random histories", chunk=300, workers=8)
    # corrupted copies of ACCEPTED traces must be rejected (skipped only if the tree under test has no accepted trace)
    accepted = [t for t, v in zip(traces, verdicts) if v == "ok" or v.startswith(("known:", "drift:"))]
    if accepted:
        _corruption_sanity(accepted, strict=len(accepted) == len(traces))
    R.evaluations = len(cks_all)
    R.exhaustive = False
    return R.finish()
