"""PIPE - the documented PLiNIO optimisation pipeline applied to ONE network, stage after stage:

    seed network -> PIT (masks moved) -> export() -> [second PIT round on the exported network] ->
    MPS (precisions selected, per layer / per channel incl. 0 bit) -> export() -> integerize_arch(MATCH | MAUPITI)

Every stage consumes the OBJECT the previous stage returned (the fx GraphModule of PIT.export() with its re-created
BatchNorms, ConstantPad1d modules, odd channel counts, 1-tap kernels, dilations; the fake-quantised module of
MPS.export()).  One pipeline = one multi-event trace (one event per stage) validated stepwise by specs/PipelineTrace.tla.

scenario = {"arch": <archgen architecture>, "seed": int, "fold": bool,
            "r1": {"alive": {node: [1-based channels]} | "f": {rep: [..]}, "tm": {node: {"b": [..], "g": [..]}}},
            "r2": None | the same for a second PIT round on the exported network,
            "mps": None | {"cfg": {"pin", "pa", "pw", "wt"}, "sel": None | {"a": {group: idx}, "w": {group: idx | [idx]}},
                           "temp": float, "gumbel": bool},
            "int": None | {"backend": "match" | "maupiti", "scale_bit": int, "shift_pos": int}}

Nothing in this file decides a verdict: it executes the real library and reduces what it did to integers, booleans and
abstract architecture records (projection of torch modules back into the record format of specs/FeatGraph.tla); every
comparison is made by TLC.
"""
from __future__ import annotations

import copy
import math
import os
import random
import warnings
from fractions import Fraction as Fr
from typing import Any, Dict, List, Optional, Tuple

from . import tlc
from .archgen import GrammarNet, input_shape, lname, norm_arch, shapes

NA = -9
NODE_FIELDS = ("op", "ins", "out", "k", "d", "s", "bias", "bn", "dw", "excl", "causal", "reuse")
NODE_DEFAULTS = {"ins": [], "out": 0, "k": 1, "d": 1, "s": 1, "bias": True, "bn": False, "dw": False, "excl": False,
                 "causal": False, "reuse": 0}
PIT_METRICS = ("params", "params_no_bias", "ops", "ops_no_bias")


# ------------------------------------------------------------------------------------------------
# abstract records
# ------------------------------------------------------------------------------------------------
def strip_arch(a: Dict[str, Any]) -> Dict[str, Any]:
    """The architecture record as TLC sees it: exactly the 12 node fields of FeatGraph (no pool kind etc.)."""
    a = norm_arch(a)
    return {"dim": a["dim"], "c0": a["c0"], "sp": a["sp"],
            "nodes": [{f: (list(n[f]) if f == "ins" else n[f]) for f in NODE_FIELDS} for n in a["nodes"]]}


def _node(op: str, ins: List[int], **kw) -> Dict[str, Any]:
    n = dict(NODE_DEFAULTS)
    n["op"] = op
    n["ins"] = list(ins)
    n.update(kw)
    return {f: n[f] for f in NODE_FIELDS}


def _msg(e: BaseException) -> str:
    ok = set("abcdefghijklmnopqrstuvwxyzABCDEFGHIJKLMNOPQRSTUVWXYZ0123456789 _.,:()=[]{}'-+*/<>")
    return (type(e).__name__ + ": " + "".join(c if c in ok else " " for c in str(e)))[:160]


# ------------------------------------------------------------------------------------------------
# projection: torch module -> abstract architecture (read off module types and hyper-parameters)
# ------------------------------------------------------------------------------------------------
def _graph_of(mod):
    """The fx graph of a module: the module's own graph if it is a GraphModule, else a trace in which every torch.nn /
    plinio layer is a leaf."""
    import torch.fx as fx
    import torch.nn as nn
    if isinstance(mod, fx.GraphModule):
        return mod, mod.graph

    class T(fx.Tracer):
        def is_leaf_module(self, m, qn):
            return not isinstance(m, (nn.ModuleDict, nn.ModuleList, nn.Sequential)) and m is not mod
    g = T().trace(mod)
    return mod, g


def project(mod, x) -> Dict[str, Any]:
    """Architecture record of what `mod` IS (module types, channels, kernel, dilation, stride, padding, groups, bias,
    BatchNorm placement), its tensors' observed channel counts on input x, and the module name of every node.
    Quantiser modules (MPSIdentity / QuantIdentity / bare quantisers / MPSAdd) are identities of the dataflow and are
    reported separately as quantisation points.  Anything that has no counterpart in the record format makes
    `ok` False (with the reason) - the trace specification then refuses the stage."""
    import operator
    import torch
    import torch.nn as nn
    import torch.fx as fx
    res: Dict[str, Any] = {"ok": True, "err": "", "arch": {"dim": max(1, x.dim() - 2), "c0": int(x.shape[1]), "sp": int(x.shape[2]), "nodes": []},
                           "W": [int(x.shape[1])], "names": [""], "padbad": [], "qpoints": [], "kinds": [""], "avg": [], "bnof": {}}
    try:
        root, graph = _graph_of(mod)
    except Exception as e:
        res.update(ok=False, err="trace: " + _msg(e))
        return res
    dim = res["arch"]["dim"]
    if dim == 2 and x.shape[2] != x.shape[3]:
        res.update(ok=False, err="non-square input")
    nodes = res["arch"]["nodes"]
    t_of: Dict[Any, int] = {}            # fx node -> tensor index
    pad_of: Dict[Any, Tuple[int, int]] = {}
    shape_of: Dict[Any, Any] = {}
    mods = dict(root.named_modules())

    # observed shapes: run the graph node by node
    class Rec(fx.Interpreter):
        def run_node(self, n):
            out = super().run_node(n)
            if isinstance(out, torch.Tensor):
                shape_of[n] = tuple(out.shape)
            return out
    try:
        gm = root if isinstance(root, fx.GraphModule) else fx.GraphModule(root, graph)
        with torch.no_grad():
            Rec(gm).run(x)
    except Exception as e:
        res.update(ok=False, err="run: " + _msg(e))

    def bad(msg):
        if res["ok"]:
            res.update(ok=False, err=msg)

    def new(node, rec, name, kind):
        nodes.append(rec)
        t_of[node] = len(nodes)
        res["names"].append(name)
        res["kinds"].append(kind)
        sh = shape_of.get(node)
        res["W"].append(int(sh[1]) if sh is not None and len(sh) >= 2 else -1)

    def tin(node, i=0):
        a = node.all_input_nodes
        if len(a) <= i or a[i] not in t_of:
            bad(f"node {node.name}: input {i} is no tensor of the dataflow")
            return 0
        return t_of[a[i]]

    last_t = None
    for n in graph.nodes:
        if n.op == "placeholder":
            if t_of:
                bad("more than one network input")
            t_of[n] = 0
            continue
        if n.op == "output":
            a = n.all_input_nodes
            last_t = t_of.get(a[0]) if len(a) == 1 else None
            continue
        if n.op == "call_module":
            m = mods.get(str(n.target))
            name = str(n.target)
            cls = type(m).__name__
            if isinstance(m, (nn.ConstantPad1d, nn.ConstantPad2d)):
                p = tuple(int(v) for v in m.padding)
                if isinstance(m, nn.ConstantPad2d) or float(m.value) != 0.0:
                    bad(f"{name}: padding module outside the grammar")
                t_of[n] = tin(n)
                pad_of[n] = p
                continue
            if isinstance(m, (nn.Conv1d, nn.Conv2d)):
                src = n.all_input_nodes[0]
                is1 = isinstance(m, nn.Conv1d)
                if (1 if is1 else 2) != dim:
                    bad(f"{name}: conv rank differs from the input rank")
                k, d, s = int(m.kernel_size[0]), int(m.dilation[0]), int(m.stride[0])
                if not is1 and (m.kernel_size[0] != m.kernel_size[1] or m.dilation[0] != m.dilation[1] or m.stride[0] != m.stride[1]):
                    bad(f"{name}: non-square conv")
                dw = m.groups == m.in_channels and m.groups == m.out_channels      # plinio's own depthwise test
                if m.groups != 1 and not dw:
                    bad(f"{name}: grouped conv")
                causal = src in pad_of
                if is1:
                    if causal:
                        good = pad_of[src] == ((k - 1) * d, 0) and (m.padding in ((0,), "valid", 0))
                    else:
                        good = (m.padding == "same" and s == 1) or (k == 1 and m.padding in ((0,), "valid", 0))
                else:
                    pd = m.padding if not isinstance(m.padding, str) else None
                    good = (not causal) and pd is not None and tuple(pd) == (k // 2, k // 2) and k % 2 == 1 and d == 1
                if not good:
                    res["padbad"].append(len(nodes) + 1)
                bnflag = getattr(m, "bn", None) is not None and not getattr(m, "fold_bn", False)
                new(n, _node("conv", [tin(n)], out=0 if dw else int(m.out_channels), k=k, d=d, s=s,
                             bias=m.bias is not None, bn=bool(bnflag), dw=bool(dw), causal=bool(causal and is1)), name, cls)
                continue
            if isinstance(m, nn.Linear):
                bnflag = getattr(m, "bn", None) is not None and not getattr(m, "fold_bn", False)
                new(n, _node("lin", [tin(n)], out=int(m.out_features), bias=m.bias is not None, bn=bool(bnflag)), name, cls)
                continue
            if isinstance(m, (nn.BatchNorm1d, nn.BatchNorm2d)):
                src = n.all_input_nodes[0]
                ti = tin(n)
                if ti >= 1 and src.op == "call_module" and nodes[ti - 1]["op"] in ("conv", "lin") and t_of.get(src) == ti \
                        and not nodes[ti - 1]["bn"] and len(src.users) == 1:
                    nodes[ti - 1]["bn"] = True
                    res["bnof"][ti] = name
                    t_of[n] = ti
                else:
                    bad(f"{name}: stand-alone BatchNorm")
                    t_of[n] = ti
                continue
            simple = {nn.ReLU: "relu", nn.Identity: "id", nn.SiLU: "silu", nn.Dropout: "drop", nn.Flatten: "flat",
                      nn.AvgPool1d: "pool", nn.AvgPool2d: "pool", nn.MaxPool1d: "pool", nn.MaxPool2d: "pool"}
            if type(m) in simple:
                if simple[type(m)] == "pool":
                    ks = m.kernel_size if isinstance(m.kernel_size, int) else m.kernel_size[0]
                    if int(ks) != 2:
                        bad(f"{name}: pooling window outside the grammar")
                    if isinstance(m, (nn.AvgPool1d, nn.AvgPool2d)):
                        res["avg"].append(len(nodes) + 1)
                new(n, _node(simple[type(m)], [tin(n)]), name, cls)
                continue
            if cls in ("MPSIdentity", "MPSAdd", "QuantIdentity", "IntegerClip") or _is_quantizer(m):
                t_of[n] = tin(n)
                res["qpoints"].append({"name": name, "t": t_of[n], "cls": cls})
                continue
            bad(f"{name}: module {cls} has no counterpart in the grammar")
            t_of[n] = tin(n)
            continue
        if n.op == "call_function":
            if n.target in (operator.add, torch.add):
                if len(n.all_input_nodes) != 2:
                    bad("add with a constant")
                    t_of[n] = tin(n)
                    continue
                new(n, _node("add", [tin(n, 0), tin(n, 1)]), n.name, "add")
                continue
            if n.target is torch.cat:
                dimarg = n.kwargs.get("dim", n.args[1] if len(n.args) > 1 else 0)
                ins = [t_of.get(a, 0) for a in n.all_input_nodes]
                new(n, _node("cat" if dimarg == 1 else "catt", ins), n.name, "cat")
                if dimarg != 1:
                    bad("concat over a non-channel axis")
                continue
            if n.target is torch.sigmoid:
                new(n, _node("sig", [tin(n)]), n.name, "sig")
                continue
            if n.target is torch.tanh:
                new(n, _node("tanh", [tin(n)]), n.name, "tanh")
                continue
            if n.target in (torch.relu, torch.nn.functional.relu):
                new(n, _node("relu", [tin(n)]), n.name, "relu")
                continue
        bad(f"node {n.name}: {n.op} {n.target} has no counterpart in the grammar")
        if n.all_input_nodes and n.all_input_nodes[0] in t_of:
            t_of[n] = t_of[n.all_input_nodes[0]]
    if last_t is None or last_t != len(nodes):
        bad("the network output is not the last tensor")
    return res


def _is_quantizer(m) -> bool:
    try:
        from plinio.methods.mps.quant.quantizers import Quantizer
        return isinstance(m, Quantizer)
    except Exception:
        return False


# ------------------------------------------------------------------------------------------------
# stage 0: the seed network
# ------------------------------------------------------------------------------------------------
def _randomize64(net, gen) -> None:
    """Generic weights (nothing zero / one by accident) scaled so that activations stay inside the ranges of the
    quantisers the later stages attach (fan-in normalised)."""
    import torch
    import torch.nn as nn
    with torch.no_grad():
        for m in net.modules():
            if isinstance(m, (nn.Conv1d, nn.Conv2d, nn.Linear)):
                fan = m.weight[0].numel()
                w = (torch.rand(m.weight.shape, generator=gen, dtype=torch.float64) * 1.6 + 0.2) * \
                    (torch.randint(0, 2, m.weight.shape, generator=gen) * 2 - 1)
                m.weight.copy_(w * (1.4 / fan ** 0.5))
                if m.bias is not None:
                    m.bias.copy_(torch.rand(m.bias.shape, generator=gen, dtype=torch.float64) * 0.9 - 0.3)
            elif isinstance(m, (nn.BatchNorm1d, nn.BatchNorm2d)):
                m.weight.copy_(torch.rand(m.weight.shape, generator=gen, dtype=torch.float64) + 0.5)
                m.bias.copy_(torch.rand(m.bias.shape, generator=gen, dtype=torch.float64) * 0.8 - 0.2)
                m.running_mean.copy_(torch.rand(m.running_mean.shape, generator=gen, dtype=torch.float64) - 0.5)
                m.running_var.copy_(torch.rand(m.running_var.shape, generator=gen, dtype=torch.float64) + 0.5)


def _e12(diff: float, scale: float) -> int:
    return int(min(diff / scale * 1e12, 2_000_000_000))


def _as_int(v: float) -> Tuple[int, bool]:
    if not math.isfinite(v):
        return -1, False
    r = round(v)
    ok = abs(v - r) <= 1e-6 * max(1.0, abs(v)) and abs(r) < 2 ** 31
    return (int(r) if ok else -1), bool(ok)


def _sd_fingerprint(mod) -> List[Tuple[str, Any]]:
    return [(k, v.detach().clone()) for k, v in mod.state_dict().items()]


def _sd_same(fp, mod) -> bool:
    import torch
    sd = mod.state_dict()
    if [k for k, _ in fp] != list(sd.keys()):
        return False
    return all(v.shape == sd[k].shape and bool(torch.equal(v, sd[k])) for k, v in fp)


# ------------------------------------------------------------------------------------------------
# PIT stage (search = masks written; export)
# ------------------------------------------------------------------------------------------------
def _cost_specs():
    import plinio.cost as pc
    return {m: getattr(pc, m) for m in PIT_METRICS}


def _alive_from(masks: Dict[str, Any], arch) -> Dict[str, List[int]]:
    """Alive channels per searchable layer.  Scenarios from the model checker give them per masker representative
    ("f"); comp_reps (a mirror of FeatGraph!Rep) only decides THROUGH WHICH layer object alpha is written."""
    if "alive" in masks:
        return {str(k): list(v) for k, v in masks["alive"].items()}
    out: Dict[str, List[int]] = {}
    if "f" in masks:
        from .pitgen import comp_reps
        reps = comp_reps(arch)
        for n, r in reps.items():
            if str(r) in masks["f"]:
                out[str(n)] = sorted(int(c) for c in masks["f"][str(r)])
    return out


def pit_stage(model, arch, x, masks: Dict[str, Any], fold: bool, rnd: int, rng: random.Random):
    """PIT(model) ; write masks ; observe ; export().  `arch` is the abstract record of `model` (round 1: the scenario's
    architecture, round 2: the projection of the exported network) and is used only to address layers by node."""
    import torch
    import torch.nn as nn
    from plinio.methods import PIT
    from . import pitdrv
    from .pitscn import ABS2F, scratch_cost
    specs = _cost_specs()
    ev: Dict[str, Any] = {"k": "pit", "round": rnd, "fold": bool(fold), "conv_ok": False, "conv_err": "", "imp_diff": -1, "imp_ok": False,
                          "user_kept": False, "mode_kept": False, "fwd_ok": True, "fwd_err": "", "L": [], "cost": [], "open_cost": []}
    evx: Dict[str, Any] = {"k": "pitx", "round": rnd, "has_expect": "expect" in masks, "expect": masks.get("expect", strip_arch(arch)),
                           "ok": False, "err": "", "run_ok": False, "shape_ok": False, "diff": -1,
                           "proj_ok": False, "proj_err": "", "obs": strip_arch(arch), "W": [], "padbad": [], "E": [], "scratch": [], "numel": -1}
    sh = shapes(arch)
    fp = _sd_fingerprint(model)
    mode0 = bool(model.training)
    with torch.no_grad():
        y_user0 = copy.deepcopy(model).eval()(x)
    try:
        with warnings.catch_warnings():
            warnings.simplefilter("ignore")
            pit = PIT(model, input_shape=tuple(x.shape[1:]), fold_bn=bool(fold), cost=dict(specs), discrete_cost=True)
        ev["conv_ok"] = True
    except Exception as e:
        ev["conv_err"] = _msg(e)
        return ev, None, None, None
    ev["mode_kept"] = bool(pit.training == mode0 and pit.seed.training == mode0)
    pit.eval()
    # C07: the wrapper with all masks open computes the function of the model it was given; the model object that was
    # passed in keeps its parameters and its outputs
    try:
        with torch.no_grad():
            y_w = pit(x)
            y_user1 = copy.deepcopy(model).eval()(x)
        sc_ = 1.0 + float(y_user0.abs().max())
        ev["imp_diff"] = _e12(float((y_w - y_user0).abs().max()), sc_) if y_w.shape == y_user0.shape else -1
        ev["imp_ok"] = bool(y_w.shape == y_user0.shape)
        ev["user_kept"] = bool(_sd_same(fp, model) and torch.equal(y_user0, y_user1))
    except Exception as e:
        ev["fwd_ok"] = False
        ev["fwd_err"] = _msg(e)
        return ev, None, None, None
    # all masks open: discrete = continuous cost (C04, second sentence)
    for m in PIT_METRICS:
        try:
            pit.discrete_cost = True
            dv, dok = _as_int(float(pit.get_cost(m)))
            pit.discrete_cost = False
            cv, cok = _as_int(float(pit.get_cost(m)))
            pit.discrete_cost = True
            ev["open_cost"].append({"m": m, "disc": dv, "cont": cv, "ok": bool(dok and cok)})
        except Exception as e:
            pit.discrete_cost = True
            ev["open_cost"].append({"m": m, "disc": -1, "cont": -1, "ok": False})
    # ---- search result: the masks are written
    tm_abs: Dict[int, Dict[str, List[int]]] = {}
    if "random" in masks:
        masks = dict(masks)
        masks.update(random_masks(rng, arch, p_prune=float(masks["random"])))
        del masks["random"]
    for node, al in _alive_from(masks, arch).items():
        i = int(node)
        try:
            pitdrv.set_alive(pit, i, list(al), sh[i]["ch"])
        except Exception:
            pass
    for node, bg in masks.get("tm", {}).items():
        i = int(node)
        if "cut" in bg:             # (cut, level) pattern of the model checker, expanded for the kernel the layer has NOW
            K = int(arch["nodes"][i - 1]["k"])
            G = max((K - 1).bit_length(), 1)
            bg = {"b": [10 if j >= bg["cut"] else 0 for j in range(K)], "g": [10 if j >= bg["lev"] else 0 for j in range(G)]}
        try:
            pitdrv.set_beta_gamma(pit, i, [ABS2F[v] * rng.choice([1.0, -1.0]) for v in bg["b"]],
                                  [ABS2F[v] * rng.choice([1.0, -1.0]) for v in bg["g"]])
            tm_abs[i] = bg
        except Exception:
            pass
    # ---- observe the searched model
    obs = pitdrv.observe_layers(pit, arch)
    try:
        calls = pitdrv.actual_zero_patterns(pit, arch, x)
    except Exception as e:
        ev["fwd_ok"] = False
        ev["fwd_err"] = _msg(e)
        return ev, None, None, None
    for i in pitdrv.searchable_nodes(arch):
        r = obs[str(i)]
        nd = arch["nodes"][i - 1]
        cl = calls.get("layers." + lname(i), [])
        nz_in = cl[0][0] if cl else []
        rec = {"n": i, "mask": r["mask"], "mask_ok": "mask_err" not in r and len(r["mask"]) > 0,
               "told": r["told"], "told_n": r["told_n"], "told_ok": "told_err" not in r and len(r["told"]) > 0,
               "sum_in": r["sum_in"], "sum_out": r["sum_out"], "nz_in": nz_in, "t": "tmask" in r,
               "K": int(nd["k"]), "d0": int(nd["d"]), "s": int(nd["s"]), "tmask": r.get("tmask", []),
               "sum_k": r.get("sum_k", 1), "sum_dil": r.get("sum_dil", 1)}
        if len(rec["nz_in"]) != len(rec["told"]):
            rec["nz_in"] = [0] * len(rec["told"])
        ev["L"].append(rec)
    for m in PIT_METRICS:
        try:
            pit.discrete_cost = True
            v, ok = _as_int(float(pit.get_cost(m)))
            ev["cost"].append({"m": m, "v": v, "ok": ok})
        except Exception as e:
            ev["cost"].append({"m": m, "v": -1, "ok": False})
    # ---- export
    mm = copy.deepcopy(pit).eval()
    with torch.no_grad():
        y_nas = mm(x)
    try:
        with warnings.catch_warnings():
            warnings.simplefilter("ignore")
            exp = mm.export()
        evx["ok"] = True
    except Exception as e:
        evx["err"] = "export: " + _msg(e)
        return ev, evx, None, None
    try:
        pitdrv.copy_bn_stats(mm, exp, arch)
    except RuntimeError as e:        # a re-created BatchNorm that cannot take the sliced statistics of the one it replaces
        evx["ok"] = False
        evx["err"] = "re-created BatchNorm does not fit the sliced statistics of the BatchNorm it replaces: " + _msg(e)
        return ev, evx, None, None
    exp.eval()
    try:
        with torch.no_grad():
            y_exp = exp(x)
        evx["run_ok"] = True
    except Exception as e:
        evx["err"] = "run: " + _msg(e)
        y_exp = None
    if y_exp is not None:
        evx["shape_ok"] = tuple(y_exp.shape) == tuple(y_nas.shape)
        if evx["shape_ok"]:
            evx["diff"] = _e12(float((y_exp - y_nas).abs().max()), 1.0 + float(y_nas.abs().max()))
    p = project(exp, x)
    evx["proj_ok"], evx["proj_err"] = p["ok"], p["err"]
    evx["obs"], evx["W"], evx["padbad"] = p["arch"], p["W"], p["padbad"]
    # alignment: which original (out, in, tap) every exported weight came from (index-encoded copy)
    try:
        enc = pitdrv.index_encode(pit, arch)
        with warnings.catch_warnings():
            warnings.simplefilter("ignore")
            exp_enc = enc.eval().export()
        dec = pitdrv.decode_export(exp_enc, arch)
        for i in pitdrv.searchable_nodes(arch):
            d = dec[str(i)]
            evx["E"].append({"n": i, "out_idx": d["out_idx"], "in_idx": d["in_idx"], "taps": d["taps"], "rect": bool(d["rect"]),
                             "bias_idx": d["bias_idx"], "in_ch": d["in_ch"], "out_ch": d["out_ch"], "groups": d["groups"],
                             "k": d["k"], "dil": d["dil"], "pad": d["pad"]})
    except Exception as e:
        evx["ok"] = False
        evx["err"] = "export(index-encoded): " + _msg(e)
    # the metrics from scratch on the exported network, and the actual number of weights and biases
    if evx["run_ok"]:
        for m in PIT_METRICS:
            try:
                v, ok = _as_int(scratch_cost(specs[m], exp, x, None))
                evx["scratch"].append({"m": m, "v": v, "ok": ok})
            except Exception as e:
                evx["scratch"].append({"m": m, "v": -1, "ok": False})
        evx["numel"] = int(sum(mod.weight.numel() + (mod.bias.numel() if mod.bias is not None else 0)
                               for mod in exp.modules() if isinstance(mod, (nn.Conv1d, nn.Conv2d, nn.Linear))))
    return ev, evx, (exp if evx["run_ok"] else None), p


# ------------------------------------------------------------------------------------------------
# MPS stage (search = coefficients written; export)
# ------------------------------------------------------------------------------------------------
MPS_METRICS = ("params_bit", "ops_bit")


def mps_stage(exp64, arch, x64, plan: Dict[str, Any], rng: random.Random, seed: int):
    """MPS(exported PIT network) ; write the selection ; forward (eval) ; cost / summary ; export() ; compare.
    `arch` = projection of the network MPS receives (only used to address modules by node)."""
    import torch
    from plinio.methods import MPS
    from plinio.methods.mps import get_default_qinfo, MPSType
    from plinio.methods.mps.nn import MPSModule
    from plinio.methods.mps.quant.nn import QuantConv1d, QuantConv2d, QuantLinear, QuantIdentity, QuantList
    import plinio.cost as pc
    from . import mps_gen
    cfg = plan["cfg"]
    ev: Dict[str, Any] = {"k": "mps", "ok": False, "err": "", "cfg": cfg, "cast_e9": -1, "mode_kept": False, "proj_ok": False, "proj_err": "",
                          "obs": strip_arch(arch), "W": [], "padbad": [], "qp": [], "L": [], "cost": {}, "cost_ok": {}, "conflict": False,
                          "call_err": ""}
    evx: Dict[str, Any] = {"k": "mpsx", "attempted": False, "ok": False, "err": "", "bit_identical": False, "maxdiff_e6": 0,
                           "y_varies": False, "proj_ok": False, "proj_err": "", "obs": strip_arch(arch), "W": [], "qp": [], "X": [],
                           "n_quant": 0}
    torch.set_default_dtype(torch.float32)
    e32 = copy.deepcopy(exp64).float().eval()
    x32 = x64.float()
    with torch.no_grad():
        y64 = exp64(x64)
        y32 = e32(x32)
    ev["cast_e9"] = int(min(float((y32.double() - y64).abs().max()) / (1.0 + float(y64.abs().max())) * 1e9, 2e9))
    # what MPS is handed: the float weights of every layer and the BatchNorm that follows it (float64 copies)
    pre = project(e32, x32)
    handed: Dict[int, Dict[str, Any]] = {}
    if pre["ok"]:
        hm = dict(e32.named_modules())
        for i_, nd_ in enumerate(pre["arch"]["nodes"], start=1):
            if nd_["op"] in ("conv", "lin"):
                lay_ = hm[pre["names"][i_]]
                bn_ = hm.get(pre["bnof"][i_]) if i_ in pre["bnof"] else None
                handed[i_] = {"w": lay_.weight.detach().double().clone(), "b": None if lay_.bias is None else lay_.bias.detach().double().clone(),
                              "bn": None if bn_ is None else {"g": bn_.weight.detach().double().clone(), "be": bn_.bias.detach().double().clone(),
                                                              "m": bn_.running_mean.detach().double().clone(), "v": bn_.running_var.detach().double().clone(),
                                                              "eps": float(bn_.eps)}}
    qinfo = get_default_qinfo(w_precision=tuple(cfg["pw"]), a_precision=tuple(cfg["pa"]))
    qinfo["input_default"]["search_precision"] = tuple(cfg["pin"])
    mode0 = bool(e32.training)
    try:
        with warnings.catch_warnings():
            warnings.simplefilter("ignore")
            m = MPS(e32, cost={k: getattr(pc, k) for k in MPS_METRICS}, input_shape=tuple(x32.shape[1:]),
                    w_search_type=MPSType.PER_CHANNEL if cfg["wt"] == "pc" else MPSType.PER_LAYER, qinfo=qinfo,
                    temperature=float(plan.get("temp", 1.0)), gumbel_softmax=bool(plan.get("gumbel", False)), hard_softmax=False)
        ev["ok"] = True
    except Exception as e:
        ev["err"] = _msg(e)
        return ev, None, None, None
    ev["mode_kept"] = bool(m.training == mode0 and m.seed.training == mode0)
    p = project(m.seed, x32)
    ev["proj_ok"], ev["proj_err"], ev["obs"], ev["W"], ev["padbad"] = p["ok"], p["err"], p["arch"], p["W"], p["padbad"]
    ev["qp"] = sorted(q["t"] for q in p["qpoints"])
    parch = norm_arch(p["arch"]) if p["ok"] else arch
    mods = dict(m.seed.named_modules())
    recs: Dict[int, Dict[str, Any]] = {}
    for i, nd in enumerate(parch["nodes"], start=1):
        if nd["op"] in ("conv", "lin") and isinstance(mods.get(p["names"][i]), MPSModule):
            recs[i] = {"name": p["names"][i], "layer": mods[p["names"][i]], "kind": nd["op"]}
    for q in p["qpoints"]:
        lay = mods.get(q["name"])
        if not isinstance(lay, MPSModule):
            continue
        if q["t"] == 0:
            recs[0] = {"name": q["name"], "layer": lay, "kind": "in"}
        elif parch["nodes"][q["t"] - 1]["op"] == "add" and q["t"] not in recs:
            recs[q["t"]] = {"name": q["name"], "layer": lay, "kind": "add"}
    gen = torch.Generator().manual_seed(1000 + seed)
    with torch.no_grad():                       # generic clipping ranges (trained values are arbitrary positive numbers)
        seen = set()
        for r in recs.values():
            q = r["layer"].out_mps_quantizer
            if id(q) in seen:
                continue
            seen.add(id(q))
            for f in q.qtz_funcs:
                if hasattr(f, "clip_val"):
                    f.clip_val.fill_(float(torch.rand((), generator=gen)) * 2.5 + (0.8 if r["kind"] != "in" else 0.7))
    B = {"m": m, "recs": recs, "arch": parch}
    sel = plan.get("sel")
    sc_like = {"cfg": cfg, "sel": sel}
    if sel is not None and not all(str(n) in sel["rep"] for n in recs if n != 0):
        sc_like["sel"] = None
        ev["conflict"] = True
    try:
        S = mps_gen.apply_selection(sc_like, B, rng)
    except (KeyError, IndexError, TypeError, ValueError) as e:    # the groups of the specification do not fit the objects
        sc_like["sel"] = None
        S = mps_gen.apply_selection(sc_like, B, rng)
        S["conflict"] = True
    ev["conflict"] = bool(ev["conflict"] or S["conflict"])
    want = S["want"]
    if cfg["wt"] == "pc" and sc_like["sel"] is None:
        # a drawn assignment that gives 0 bit to EVERY channel of a layer cuts the network: not a precision assignment of it
        fixed = False
        for n in sorted(recs):
            if recs[n]["kind"] not in ("conv", "lin"):
                continue
            qw = recs[n]["layer"].w_mps_quantizer
            wr = S["written"].get(id(qw))
            prec = [int(v) for v in qw.precision.tolist()]
            if wr is not None and isinstance(wr[1], list) and all(prec[i] == 0 for i in wr[1]):
                nz = [i for i, b in enumerate(prec) if b != 0]
                ww = list(wr[1])
                ww[rng.randrange(len(ww))] = rng.choice(nz)
                S["written"][id(qw)] = ("w", ww)
                mps_gen._write(qw, ww, rng)
                fixed = True
        if fixed:
            mps_gen._fill_want(want, S["written"], recs, shapes(parch))
    xs = [x32, torch.rand(x32.shape, generator=gen) * 1.5 - 0.2, torch.rand((2,) + tuple(x32.shape[1:]), generator=gen) * 6.0 - 2.0]
    sh = shapes(parch)
    exported = None
    try:
        m.eval()
        with torch.no_grad():
            for xx in xs:
                m(xx)
    except Exception as e:
        ev["call_err"] = "forward: " + _msg(e)
        return ev, evx, None, None
    for name in MPS_METRICS:
        try:
            c = float(m.get_cost(name))
            fin = math.isfinite(c)
            ev["cost"][name] = mps_gen._centi(c) if fin else 0
            ev["cost_ok"][name] = bool(fin)
        except (AssertionError, KeyError, ValueError, RuntimeError, TypeError, IndexError):
            ev["cost"][name] = 0
            ev["cost_ok"][name] = False
    try:
        summ = m.summary()
    except Exception as e:
        ev["call_err"] = "summary: " + _msg(e)
        return ev, evx, None, None
    # ---- export
    evx["attempted"] = True
    try:
        with warnings.catch_warnings():
            warnings.simplefilter("ignore")
            exported = m.export()
        exported.eval()
        evx["ok"] = True
    except Exception as e:
        evx["err"] = _msg(e)
        exported = None
    exmods = dict(exported.named_modules()) if exported is not None else {}
    if exported is not None:
        m.eval()
        bit, maxdiff, varies = True, 0.0, False
        try:
            with torch.no_grad():
                yev = [m(xx) for xx in xs]
                yex = [exported(xx) for xx in xs]
            for a_, b_ in zip(yev, yex):
                if a_.shape != b_.shape or not torch.equal(a_, b_):
                    bit = False
                    if a_.shape == b_.shape:
                        maxdiff = max(maxdiff, float((a_ - b_).abs().max()))
            varies = bool(yev[0].std() > 0) and all(bool(torch.isfinite(v).all()) for v in yev)
        except Exception as e:
            bit = False
            evx["err"] = "run: " + _msg(e)
            evx["ok"] = False
        evx["bit_identical"], evx["maxdiff_e6"], evx["y_varies"] = bool(bit), int(min(maxdiff * 1e6, 2e9)), bool(varies)
        px = project(exported, x32)
        evx["proj_ok"], evx["proj_err"], evx["obs"], evx["W"] = px["ok"], px["err"], px["arch"], px["W"]
        evx["qp"] = sorted(q["t"] for q in px["qpoints"])
        evx["n_quant"] = sum(1 for v in exmods.values() if isinstance(v, (QuantConv1d, QuantConv2d, QuantLinear, QuantIdentity, QuantList)))
    qids: Dict[int, int] = {}

    def qid(o):
        return qids.setdefault(id(o), len(qids) + 1)
    for n in sorted(recs):
        r = recs[n]
        lay = r["layer"]
        cout = sh[n]["ch"]
        is_layer = r["kind"] in ("conv", "lin")
        th_o = mps_gen._theta_bits(lay.out_mps_quantizer)
        # hand-over of the parameters: the float weights / bias MPS quantises are the ones it was handed, with the following
        # BatchNorm folded in analytically (float64 reference; deviation relative to the largest reference entry, x1e9)
        wsame, wfold = False, -1
        if is_layer and n in handed:
            h = handed[n]
            wl = lay.weight.detach().double()
            bl = None if lay.bias is None else lay.bias.detach().double()
            wsame = bool(wl.shape == h["w"].shape and torch.equal(wl, h["w"]) and ((bl is None) == (h["b"] is None))
                         and (bl is None or torch.equal(bl, h["b"])))
            if h["bn"] is not None and wl.shape == h["w"].shape and bl is not None:
                sc_ = h["bn"]["g"] / torch.sqrt(h["bn"]["v"] + h["bn"]["eps"])
                wref = h["w"] * sc_.reshape([-1] + [1] * (h["w"].dim() - 1))
                bref = ((h["b"] if h["b"] is not None else torch.zeros_like(h["bn"]["m"])) - h["bn"]["m"]) * sc_ + h["bn"]["be"]
                bmag = ((h["b"] if h["b"] is not None else torch.zeros_like(h["bn"]["m"])) - h["bn"]["m"]).abs() * sc_.abs() + h["bn"]["be"].abs()
                dev = max(float((wl - wref).abs().max()) / (float(wref.abs().max()) + 1e-12),
                          float((bl - bref).abs().max()) / (float(bmag.max()) + 1e-12))
                wfold = int(min(dev * 1e9, 2e9))
        rec = {"n": n, "kind": r["kind"], "wsame": wsame, "wfold_e9": wfold, "want_o": want[n]["o"], "want_w": want[n]["w"],
               "am_o": mps_gen._argmax_bits(lay.out_mps_quantizer)[0], "qid_o": qid(lay.out_mps_quantizer),
               "am_i": NA, "am_w": [], "qid_i": 0, "qid_w": 0,
               "cand_o": [int(v) for v in lay.out_mps_quantizer.precision.tolist()], "cand_i": [], "cand_w": [],
               "su_i": NA, "su_o": NA, "su_w": [], "su_ok": False, "th_o": th_o[0][0], "th_i": NA, "th_w": [], "th_hot": th_o[1]}
        if is_layer:
            rec["am_i"] = mps_gen._argmax_bits(lay.in_mps_quantizer)[0]
            rec["qid_i"] = qid(lay.in_mps_quantizer)
            rec["cand_i"] = [int(v) for v in lay.in_mps_quantizer.precision.tolist()]
            rec["cand_w"] = [int(v) for v in lay.w_mps_quantizer.precision.tolist()]
            aw = mps_gen._argmax_bits(lay.w_mps_quantizer)
            rec["am_w"] = aw * cout if lay.w_mps_quantizer.alpha.dim() == 1 else aw
            rec["qid_w"] = qid(lay.w_mps_quantizer)
            ti, tw = mps_gen._theta_bits(lay.in_mps_quantizer), mps_gen._theta_bits(lay.w_mps_quantizer)
            rec["th_i"] = ti[0][0]
            rec["th_w"] = tw[0] * cout if lay.w_mps_quantizer.alpha.dim() == 1 else tw[0]
            rec["th_hot"] = bool(th_o[1] and ti[1] and tw[1])
        s = summ.get(r["name"])
        if s is not None:
            try:
                rec["su_o"] = int(s["out_precision"])
                if is_layer:
                    rec["su_i"] = int(s["in_precision"])
                    rec["su_w"] = mps_gen._as_list(s["w_precision"], cout)
                rec["su_ok"] = True
            except (KeyError, TypeError, ValueError):
                pass
        ev["L"].append(rec)
        xr = {"n": n, "ex_i": NA, "ex_o": NA, "ex_w": [], "ex_ok": False, "ex_type": ""}
        e = exmods.get(r["name"])
        if e is not None:
            xr["ex_type"] = type(e).__name__
            try:
                if isinstance(e, QuantIdentity):
                    xr["ex_o"] = int(e.out_quantizer.precision)
                    xr["ex_ok"] = not is_layer
                elif isinstance(e, (QuantConv1d, QuantConv2d, QuantLinear)):
                    xr["ex_i"] = int(e.in_quantizer.precision)
                    xr["ex_o"] = int(e.out_quantizer.precision)
                    xr["ex_w"] = [int(e.w_quantizer.precision)] * cout
                    xr["ex_ok"] = bool(is_layer and e.weight.shape == lay.weight.shape and ((e.bias is None) == (lay.bias is None)))
            except (AttributeError, TypeError, ValueError):
                xr["ex_ok"] = False
        evx["X"].append(xr)
    return ev, evx, exported, x32


# ------------------------------------------------------------------------------------------------
# integer stage: integerize_arch(MPS export, backend)
# ------------------------------------------------------------------------------------------------
def int_stage(fake, x32, plan: Dict[str, Any], arch, seed: int):
    """integerize_arch(deepcopy(fake), backend); every integer layer is compared with its fake-quantised counterpart on the
    integer image of the activations the integer network itself produces (per-layer observation as in harness/intnet.py,
    generalised from sequential networks to any dataflow); the final layer against the real-valued logits."""
    import torch
    import torch.nn.functional as F
    from plinio.methods.mps.quant.backends import Backend, integerize_arch
    from plinio.methods.mps.quant.quantizers import DummyQuantizer
    import plinio.methods.mps.quant.nn as qnn
    from .intnet import STAB, _frac, _is_int_tensor, _pact_top, big, cap, ceil_fr
    backend = plan["backend"]
    mau = backend == "maupiti"
    ev: Dict[str, Any] = {"k": "int", "backend": backend, "scale_bit": 16 if mau else int(plan.get("scale_bit", 24)),
                          "shift_pos": 32 if mau else int(plan.get("shift_pos", 24)), "stage": "", "exc": "", "msg": "",
                          "proj_ok": False, "proj_err": "", "obs": strip_arch(arch), "W": [], "qp": [], "avg": [], "layers": [],
                          "final": {"present": False, "n": 0, "conv": False, "finite": False, "ratio1000": 0, "got1e6": 0, "logit1e6": 0,
                                    "int_out": False}, "logit_e6": -1}
    fq = copy.deepcopy(fake)
    if any(isinstance(getattr(m, "in_quantizer", None), DummyQuantizer) for m in fq.modules() if isinstance(m, (qnn.QuantConv2d, qnn.QuantLinear))):
        # a layer consumes a tensor MPS left unquantised (producer in the output-connected component): there is no integer
        # image of its input - outside what the integer stage can be asked for (decided by the trace specification)
        ev.update(stage="floatin", exc="", msg="a fake-quantised layer has no input quantiser")
        return ev
    kwargs = {} if mau else {"scale_bit": ev["scale_bit"], "shift_pos": ev["shift_pos"]}
    bk = Backend.MAUPITI if mau else Backend.MATCH
    try:
        with warnings.catch_warnings():
            warnings.simplefilter("ignore")
            integ = integerize_arch(copy.deepcopy(fake), bk, backend_kwargs=kwargs)
    except Exception as e:
        ev.update(stage="integerize", exc=type(e).__name__, msg=_msg(e))
        return ev
    inq_name = [n for n, _ in fq.named_modules() if n.endswith("_input_quantizer")]
    if len(inq_name) != 1:
        raise tlc.MachineryError("cannot find the input quantiser of the fake-quantised network")
    in_q = fq.get_submodule(inq_name[0]).out_quantizer
    in_bits = int(in_q.precision)
    with torch.no_grad():
        if not mau:
            x_int = x32
        else:
            iq = copy.deepcopy(in_q)
            iq.dequantize = False
            x_int = iq(x32) - 2 ** (in_bits - 1)
        y_fake = fq(x32)
    p = project(integ, x_int)
    ev["proj_ok"], ev["proj_err"], ev["obs"], ev["W"] = p["ok"], p["err"], p["arch"], p["W"]
    # float quantisers left in the integer network (an integer clip - candidate repair of F70 - is not one)
    ev["qp"] = sorted(q["t"] for q in p["qpoints"] if q["cls"] != "IntegerClip")
    ev["avg"] = list(p["avg"])
    node_of = {nm: i for i, nm in enumerate(p["names"]) if nm}
    int_layers = {n: m for n, m in integ.named_modules() if type(m).__name__ in
                  ("MATCHConv2d", "MATCHLinear", "MAUPITIConv2d", "MAUPITILinear")}
    fake_layers = {n: m for n, m in fq.named_modules() if isinstance(m, (qnn.QuantConv2d, qnn.QuantLinear))}
    cap_io: Dict[str, Any] = {}
    hooks = []
    for n, m in int_layers.items():
        def hook(mod, inp, outp, _n=n):
            cap_io[_n] = (inp[0].detach().clone(), outp.detach().clone())
            return None
        hooks.append(m.register_forward_hook(hook))
    try:
        with torch.no_grad():
            y_int = integ(x_int)
    except Exception as e:
        ev.update(stage="forward", exc=type(e).__name__, msg=_msg(e))
        return ev
    finally:
        for h in hooks:
            h.remove()
    if sorted(int_layers) != sorted(fake_layers) or any(nm not in node_of for nm in int_layers):
        ev.update(stage="match", exc="LayerSetMismatch", msg=f"{sorted(int_layers)} vs {sorted(fake_layers)}"[:150])
        return ev
    for nm in sorted(int_layers, key=lambda s: node_of[s]):
        il, fl = int_layers[nm], fake_layers[nm]
        xin, yout = cap_io[nm]
        isconv = isinstance(fl, qnn.QuantConv2d)
        last = isinstance(fl.out_quantizer, DummyQuantizer)
        ib, wb = int(fl.in_quantizer.precision), int(fl.w_quantizer.precision)
        ob = 0 if last else int(fl.out_quantizer.precision)
        lo_in = -(2 ** (ib - 1)) if mau else 0
        lo_out = (-(2 ** (ob - 1)) if mau else 0) if not last else 0
        hi_out = lo_out + 2 ** ob - 1 if not last else 0
        rec: Dict[str, Any] = {"n": node_of[nm], "conv": isconv, "last": last, "ib": ib, "ob": ob, "wb": wb,
                               "hasbias": fl.bias is not None, "lo_in": lo_in, "lo": lo_out, "hi": hi_out}
        with torch.no_grad():
            w = il.weight.detach()
            rec["w_int"] = _is_int_tensor(w)
            rec["w_min"], rec["w_max"] = cap(w.min().item()), cap(w.max().item())
            scale = il.scale.detach().reshape(-1)
            rec["scale_int"] = (not scale.dtype.is_floating_point) or _is_int_tensor(scale)
            S = [int(v) for v in scale.tolist()]
            rec["scale_min"], rec["scale_max"] = big(min(S)), big(max(S))
            shf = int(il.shift.reshape(-1)[0].item())
            rec["shift"] = shf
            rec["shift_int"] = (not il.shift.dtype.is_floating_point) or _is_int_tensor(il.shift)
            C = len(S)
            if fl.bias is not None:
                flq = copy.deepcopy(fl)
                flq.w_quantizer.dequantize = True
                flq.w_quantizer(flq.weight)
                flq.b_quantizer.dequantize = False
                b_int_t = flq.b_quantizer(flq.bias, flq.in_quantizer.scale, flq.w_quantizer.scale).detach()
                rec["b_int"] = _is_int_tensor(b_int_t)
                Bv = [int(v) for v in b_int_t.tolist()] if rec["b_int"] else [0] * C
            else:
                rec["b_int"] = True
                Bv = [0] * C
            ab = getattr(il, "add_bias", None)
            if ab is None and getattr(il, "bias", None) is not None:
                ab = il.bias.detach()
            if ab is not None:
                abv = ab.detach().reshape(-1)
                rec["ab_int"] = _is_int_tensor(abv)
                rec["ab_absmax"] = big(int(abv.abs().max().item()))
                AB = [int(v) for v in abv.tolist()] if rec["ab_int"] else [0] * C
            else:
                rec["ab_int"] = True
                rec["ab_absmax"] = big(0)
                AB = [0] * C
            prods = [Bv[c] * S[c] for c in range(C)]
            rec["bs_min"], rec["bs_max"] = big(min(prods)), big(max(prods))
            zp_t = getattr(il, "_zero_point", None)
            ZP = [int(v) for v in zp_t.detach().reshape(-1).tolist()] if zp_t is not None else None
            rec["in_int"] = _is_int_tensor(xin)
            rec["in_min"], rec["in_max"] = cap(math.floor(xin.min().item())), cap(math.ceil(xin.max().item()))
            rec["out_int"] = _is_int_tensor(yout) if not (last and mau) else True
            rec["out_min"], rec["out_max"] = cap(math.floor(yout.min().item())), cap(math.ceil(yout.max().item()))
            sf_in = (2 ** ib - 1) / (fl.in_quantizer.clip_val.data[0] + STAB)
            x_lev = xin - lo_in
            x_fake = x_lev / sf_in
            flc = copy.deepcopy(fl)
            if not last:
                flc.out_quantizer.dequantize = False
            flc.w_quantizer.dequantize = True
            if fl.bias is not None:
                flc.b_quantizer.dequantize = True
            y_f = flc(x_fake)
            rec["shape_ok"] = tuple(y_f.shape) == tuple(yout.shape)
            rec.update(maxdiff=-1, bound1024=0, gap=0, nelem=0)
            if not rec["shape_ok"]:
                ev["layers"].append(rec)
                continue
            w64 = w.double()
            if isconv:
                padv = il.padding if not isinstance(il.padding, str) else 0
                acc_u = F.conv2d(x_lev.double(), w64, None, il.stride, padv, il.dilation, il.groups)
                absacc = F.conv2d(x_lev.double().abs(), w64.abs(), None, il.stride, padv, il.dilation, il.groups)
                if mau and not last:
                    acc_r = F.conv2d(il.pad(xin).double(), w64, None, il.stride, 0, il.dilation, il.groups)
                elif mau:
                    acc_r = F.conv2d(xin.double(), w64, None, il.stride, il.padding, il.dilation, il.groups)
                else:
                    acc_r = acc_u
            else:
                acc_u = F.linear(x_lev.double(), w64)
                absacc = F.linear(x_lev.double().abs(), w64.abs())
                acc_r = F.linear(xin.double(), w64) if mau else acc_u
            nterms = int(w[0].numel())
            tgt = (il.s_w * il.s_x / il.s_y).detach().reshape(-1)
            if tgt.numel() == 1 and C > 1:
                tgt = tgt.expand(C)
            T = [Fr(float(v)) for v in tgt.tolist()]
            clip_in = _frac(fl.in_quantizer.clip_val.data[0])
            e_in = Fr(STAB) / clip_in if clip_in != 0 else Fr(0)
            if not last:
                clip_out = _frac(fl.out_quantizer.clip_val.data[0])
                e_out = Fr(STAB) / clip_out
                c1 = abs((1 + e_in) / (1 + e_out) - 1)
                c2 = e_out / (1 + e_out)
                rec["gap"] = (2 ** ob - 1) - _pact_top(fl.out_quantizer)
            else:
                c1, c2 = e_in, Fr(0)
            yi = (yout - lo_out).double() if not last else yout.double()
            yf = y_f.double()
            flat_acc_u = acc_u.reshape(-1).tolist()
            flat_abs = absacc.reshape(-1).tolist()
            flat_acc_r = acc_r.reshape(-1).tolist()
            flat_yi = yi.reshape(-1).tolist()
            flat_yf = yf.reshape(-1).tolist()
            flat_raw = yout.double().reshape(-1).tolist()
            per_c = int(yout[0, 0].numel()) if yout.dim() > 2 else 1
            n_el = len(flat_yi)
            rec["nelem"] = n_el
            two_sh = 1 << shf
            ADD = ZP if ZP is not None else AB
            approx_c = [abs(Fr(S[c], two_sh) - T[c]) for c in range(C)]
            f32u = Fr(nterms + 8, 2 ** 23)
            if not all(math.isfinite(v) for v in flat_raw) or (not rec["in_int"] and not last):
                # the layer was fed something that is no integer image at all (non-integer / non-finite activations): the
                # range clause of the trace specification reports it; no level comparison is possible
                if last:
                    ev["final"] = {"present": True, "n": node_of[nm], "conv": isconv, "finite": False, "ratio1000": 0, "got1e6": 0,
                                   "logit1e6": 0, "int_out": False}
                ev["layers"].append(rec)
                continue
            if not last:
                maxdiff, maxB = 0, Fr(0)
                for idx in range(n_el):
                    c = (idx // per_c) % C
                    au = int(flat_acc_u[idx])
                    d = abs(flat_yi[idx] - flat_yf[idx])
                    d = int(d) if d == int(d) else -1
                    b_apx = abs(au + Bv[c]) * approx_c[c]
                    b_stab = T[c] * (abs(au) * c1 + abs(Bv[c]) * c2)
                    b_f32 = f32u * T[c] * (int(flat_abs[idx]) + abs(Bv[c])) + Fr(1, 2 ** 10) + \
                        Fr(abs(int(flat_acc_r[idx]) * S[c]) + abs(ADD[c]), two_sh) / 2 ** 22
                    if d < 0:
                        maxdiff = -1
                    elif maxdiff >= 0:
                        maxdiff = max(maxdiff, d)
                    maxB = max(maxB, b_apx + b_stab + b_f32)
                rec["maxdiff"] = cap(maxdiff)
                rec["bound1024"] = cap(ceil_fr(maxB * 1024))
            else:
                worst, worst_s = Fr(0), None
                sxsw = (il.s_x * il.s_w).detach().reshape(-1)
                if sxsw.numel() == 1 and C > 1:
                    sxsw = sxsw.expand(C)
                SX = [Fr(float(v)) for v in sxsw.tolist()]
                fin_ok = True
                for idx in range(n_el):
                    c = (idx // per_c) % C
                    au = Fr(flat_acc_u[idx])          # (exact; an integer unless the layer is fed fractional levels)
                    logit = Fr(flat_yf[idx])
                    if not mau:
                        got, unit = Fr(flat_raw[idx]) * SX[c], SX[c]
                        tol = unit * abs(au) * e_in
                    else:
                        got, unit = Fr(flat_raw[idx]), T[c]
                        tol = unit * abs(au) * e_in + abs(au + Bv[c]) * approx_c[c]
                    tol += f32u * unit * (Fr(flat_abs[idx]) + abs(Bv[c])) * 2 + Fr(1, 10 ** 9)
                    if mau:
                        tol += (abs(Fr(flat_acc_r[idx]) * S[c]) + abs(ADD[c])) / two_sh / 2 ** 22
                    r = abs(got - logit) / tol
                    if r > worst or worst_s is None:
                        worst = r
                        worst_s = {"got1e6": cap(round(float(got) * 1e6)), "logit1e6": cap(round(float(logit) * 1e6))}
                rec["maxdiff"] = 0
                ws = worst_s or {"got1e6": 0, "logit1e6": 0}
                ev["final"] = {"present": True, "n": node_of[nm], "conv": isconv, "finite": fin_ok, "ratio1000": cap(ceil_fr(worst * 1000)),
                               "got1e6": ws["got1e6"], "logit1e6": ws["logit1e6"], "int_out": _is_int_tensor(yout)}
        ev["layers"].append(rec)
    # end to end: the logits of the integer network against the logits of the fake-quantised network it was made from
    with torch.no_grad():
        lastl = [int_layers[nm] for nm in sorted(int_layers, key=lambda s: node_of[s])][-1]
        if y_int.shape == y_fake.shape and bool(torch.isfinite(y_int).all()):
            if not mau:
                sx = (lastl.s_x * lastl.s_w).detach().reshape(-1)
                if sx.numel() > 1 and y_int.shape[1] != sx.numel():      # e.g. a flatten after the last layer: no per-channel view
                    sx = None
                y_real = None if sx is None else \
                    (y_int * sx.reshape(1, -1, *([1] * (y_int.dim() - 2))) if sx.numel() > 1 else y_int * sx)
            else:
                y_real = y_int
            if y_real is not None:
                ev["logit_e6"] = int(min(float((y_real - y_fake).abs().max()) / (1e-3 + float(y_fake.abs().max())) * 1e6, 2e9))
    ev["stage"] = "done"
    return ev


# ------------------------------------------------------------------------------------------------
# one pipeline
# ------------------------------------------------------------------------------------------------
def run(sc: Dict[str, Any]) -> Dict[str, Any]:
    import torch
    arch = norm_arch(sc["arch"])
    seed = int(sc.get("seed", 0))
    rng = random.Random(seed * 7919 + 5)
    tr: Dict[str, Any] = {"plan": {"fold": bool(sc.get("fold", False)), "rounds": 2 if sc.get("r2") else 1,
                                   "mps": sc.get("mps") is not None, "wt": (sc.get("mps") or {}).get("cfg", {}).get("wt", "none"),
                                   "backend": (sc.get("int") or {}).get("backend", "none")},
                          "ev": []}
    # ---- seed network (float64: the PIT stages are compared to round-off)
    torch.set_default_dtype(torch.float64)
    try:
        gen = torch.Generator().manual_seed(seed)
        net = GrammarNet(arch)
        _randomize64(net, gen)
        net.eval()
        x = torch.rand((3,) + input_shape(arch), generator=gen) * 1.2 - 0.1
        p0 = project(net, x)
        tr["ev"].append({"k": "seed", "arch": strip_arch(arch), "proj_ok": p0["ok"], "proj_err": p0["err"], "obs": p0["arch"],
                         "W": p0["W"], "padbad": p0["padbad"]})
        model, cur = net, arch
        # ---- PIT round(s)
        for rnd, key in ((1, "r1"), (2, "r2")):
            masks = sc.get(key)
            if masks is None:
                continue
            ev, evx, exp, p = pit_stage(model, cur, x, masks, bool(sc.get("fold", False)) if rnd == 1 else bool(masks.get("fold", False)),
                                        rnd, rng)
            tr["ev"].append(ev)
            if evx is not None:
                tr["ev"].append(evx)
            if exp is None or not p["ok"]:
                return tr
            model, cur = exp, norm_arch(p["arch"])
        # ---- MPS
        if sc.get("mps") is None:
            return tr
        ev, evx, fake, x32 = mps_stage(model, cur, x, sc["mps"], rng, seed)
        tr["ev"].append(ev)
        if evx is not None:
            tr["ev"].append(evx)
        if fake is None or sc.get("int") is None or not evx["proj_ok"]:
            return tr
        tr["ev"].append(int_stage(fake, x32, sc["int"], norm_arch(evx["obs"]), seed))
        return tr
    finally:
        torch.set_default_dtype(torch.float32)


def _init_worker():
    import torch
    torch.set_num_threads(1)


def _run_one(sc):
    import contextlib
    import io
    from .core import use_repo
    use_repo()
    try:
        with contextlib.redirect_stderr(io.StringIO()):      # torch.fx prints a traceback for every failing GraphModule call
            return run(sc)
    except tlc.MachineryError:
        raise
    except Exception:       # a crash of the harness itself: never a verdict, always a machinery failure
        import json
        import traceback
        raise tlc.MachineryError("harness crashed on scenario " + json.dumps(sc, default=str)[:3000] + "\n"
                                 + traceback.format_exc(limit=8)) from None


def run_scenarios(scs: List[Dict[str, Any]], procs: int = 0) -> List[Dict[str, Any]]:
    from concurrent.futures import ProcessPoolExecutor
    if not scs:
        return []
    procs = procs or min(8, max(1, (os.cpu_count() or 4) - 4))
    if len(scs) < 6 or procs == 1:
        _init_worker()
        return [_run_one(s) for s in scs]
    import multiprocessing as mp
    ctx = mp.get_context("fork")
    with ProcessPoolExecutor(max_workers=procs, mp_context=ctx, initializer=_init_worker) as ex:
        return list(ex.map(_run_one, scs, chunksize=max(1, min(16, len(scs) // (procs * 6)))))


# ------------------------------------------------------------------------------------------------
# scenario sources
# ------------------------------------------------------------------------------------------------
def dump_done_states(module: str, cfg: str, run, keep: int = 0, rng: Optional[random.Random] = None, **kw):
    """Model-check a design configuration (R.design) and return (parsed states with phase = "done" - the completed
    pipelines - of TLC's dump, number of ALL completed pipelines, TLC result).  keep > 0: a uniform reservoir sample of
    that many completed pipelines is parsed (the dumps of the thorough configurations hold 10^5 of them); the count of ALL
    dumped states is checked against TLC's own statistics."""
    import re
    import tempfile
    base = tempfile.mktemp(prefix="pipe-dump-", dir=tlc.scratch())
    res = run.design(module, cfg, extra=["-dump", base], **kw)
    path = base + ".dump" if os.path.exists(base + ".dump") else base
    head = re.compile(r"^State \d+:\s*$")
    rng = rng or random.Random(0)
    kept: List[str] = []
    n_states = 0
    n_done = 0
    cur: List[str] = []

    def flush():
        nonlocal n_states, n_done
        if any(l.strip() for l in cur):
            n_states += 1
            if any(l.startswith('/\\ phase = "done"') for l in cur):
                n_done += 1
                if not keep or len(kept) < keep:
                    kept.append("".join(cur))
                else:
                    j = rng.randrange(n_done)
                    if j < keep:
                        kept[j] = "".join(cur)
    with open(path) as fh:               # streamed: the dumps of the thorough configurations are several hundred MB
        for line in fh:
            if head.match(line):
                flush()
                cur = []
            else:
                cur.append(line)
    flush()
    os.unlink(path)
    if n_states != res.distinct:
        raise tlc.MachineryError(f"dump of {module}/{cfg}: {n_states} states, TLC reported {res.distinct}")
    return [tlc.parse_state(b.strip()) for b in kept], n_done, res


def _fun_items(f):
    if isinstance(f, dict):
        return [(int(k), v) for k, v in f.items()]
    return [(i + 1, v) for i, v in enumerate(f)]


def scenario_from_state(st: Dict[str, Any], seed: int) -> Dict[str, Any]:
    """A completed pipeline of PipelineMC (state with phase "done") -> executable scenario."""
    from .pitgen import arch_from_tla
    plan = st["plan"]
    arch = arch_from_tla(plan["a0"])
    for i, nd in enumerate(arch["nodes"]):
        if nd["op"] == "pool":
            nd["kind"] = "max" if (seed + i) % 2 else "avg"
    rounds = []
    for r in plan["r"]:
        f = {str(k): sorted(int(c) for c in v) for k, v in _fun_items(r["f"])}
        tm = {str(k): {"cut": int(v["cut"]), "lev": int(v["lev"])} for k, v in _fun_items(r["tm"])}
        rounds.append({"f": f, "tm": tm})
    for j, xa in enumerate(plan.get("x", [])):
        if j < len(rounds):
            rounds[j]["expect"] = strip_arch(arch_from_tla(xa))
    sc: Dict[str, Any] = {"arch": arch, "seed": seed, "fold": bool(plan["fold"]), "r1": rounds[0] if rounds else None,
                          "r2": rounds[1] if len(rounds) > 1 else None, "mps": None, "int": None, "src": "mc"}
    if plan["mps"]:
        n = len(arch["nodes"])
        rep = {str(k): int(v) for k, v in _fun_items(st["gs"]["rep"])} if isinstance(st["gs"]["rep"], dict) else \
            {str(k - 1): int(v) for k, v in _fun_items(st["gs"]["rep"])}
        sel_a = {str(k): int(v) for k, v in _fun_items(st["sel"]["a"])}
        sel_w = {}
        for k, v in _fun_items(st["sel"]["w"]):
            sel_w[str(k)] = [int(x) for _, x in sorted(_fun_items(v))] if isinstance(v, (list, dict)) else int(v)
        c = st["cfg"]
        sc["mps"] = {"cfg": {"pin": list(c["pin"]), "pa": list(c["pa"]), "pw": list(c["pw"]), "wt": c["wt"]},
                     "sel": {"rep": rep, "inq": n + 2, "a": sel_a, "w": sel_w}, "temp": 1.0, "gumbel": False}
    if plan["int"]:
        sc["int"] = {"backend": st["be"], "scale_bit": 24, "shift_pos": 24}
    return sc


def arch_sig(a) -> str:
    a = norm_arch(a)
    return ",".join(n["op"] + ("d" if n["dw"] else "") + ("b" if n["bn"] else "") + ("" if n["bias"] or n["op"] not in ("conv", "lin") else "n")
                    + (str(n["k"]) if n["op"] == "conv" else "") for n in a["nodes"])


def stratum(sc) -> str:
    m = sc.get("mps") or {}
    return "|".join([arch_sig(sc["arch"]), "f" if sc.get("fold") else "-", "2" if sc.get("r2") else "1",
                     (m.get("cfg") or {}).get("wt", "-"), (sc.get("int") or {}).get("backend", "-")])


def stratified(scs: List[Dict[str, Any]], limit: int, rng: random.Random) -> List[Dict[str, Any]]:
    """At most `limit` scenarios, round-robin over the strata (architecture shape x options x stages reached)."""
    if not limit or len(scs) <= limit:
        return list(scs)
    buckets: Dict[str, List[Dict[str, Any]]] = {}
    for sc in scs:
        buckets.setdefault(stratum(sc), []).append(sc)
    for b in buckets.values():
        rng.shuffle(b)
    order = sorted(buckets)
    rng.shuffle(order)
    out: List[Dict[str, Any]] = []
    while len(out) < limit and order:
        for k in list(order):
            if not buckets[k]:
                order.remove(k)
                continue
            out.append(buckets[k].pop())
            if len(out) >= limit:
                break
    return out


ALL15 = [[2], [4], [8], [2, 4], [4, 2], [2, 8], [8, 2], [4, 8], [8, 4],
         [2, 4, 8], [2, 8, 4], [4, 2, 8], [4, 8, 2], [8, 2, 4], [8, 4, 2]]


V_ABS = [0, 3, 6, 10, 100000000]        # abstract magnitudes of mask parameters (units of 0.1; the last one = 1e30)


def random_masks(rng: random.Random, arch, *, p_prune: float = 0.4) -> Dict[str, Any]:
    """Random alive sets per searchable layer and random abstract time masks per causal stride-1 Conv1d."""
    sh = shapes(arch)
    alive, tm = {}, {}
    for i, nd in enumerate(arch["nodes"], start=1):
        if nd["op"] not in ("conv", "lin") or nd["excl"] or nd["reuse"]:
            continue
        w = sh[i]["ch"]
        alive[str(i)] = sorted({c for c in range(1, w + 1) if rng.random() > p_prune} | {w})
        if arch["dim"] == 1 and nd["op"] == "conv" and nd["s"] == 1 and nd["causal"]:
            K = nd["k"]
            G = max((K - 1).bit_length(), 1)
            mode = rng.random()
            if mode < 0.5:      # suffix x comb pattern
                cut, lev = rng.randrange(K), rng.randrange(G)
                tm[str(i)] = {"b": [10 if j >= cut else 0 for j in range(K)], "g": [10 if j >= lev else 0 for j in range(G)]}
            elif mode < 0.8:    # arbitrary abstract values
                tm[str(i)] = {"b": [rng.choice(V_ABS) for _ in range(K)], "g": [rng.choice(V_ABS) for _ in range(G)]}
    return {"alive": alive, "tm": tm}


def random_pipe_arch(rng: random.Random, dim: int, max_nodes: int, extras: bool) -> Dict[str, Any]:
    """Seeded random architecture of the PIPELINE grammar (own generator: the stage checks keep extending theirs):
    padded convolutions (1-D: causal left padding, any stride, dilation 1..3, kernels 1..5, or 'same' zero padding with
    stride 1; 2-D: odd kernels, padding k//2, dilation 1), depthwise convolutions, BatchNorm after conv / linear, bias
    on/off, linear layers, relu, 2-pooling (avg / max), flatten, residual add; with `extras` also channel concatenation and
    the other element-wise ops of plinio's propagating list (tanh, silu, dropout, identity, sigmoid)."""
    c0 = rng.choice([1, 2, 3])
    sp = rng.choice([4, 6]) if dim == 2 else rng.choice([6, 8, 12])
    nodes: List[Dict[str, Any]] = []
    target = rng.randint(3, max_nodes)
    for _ in range(120):
        if len(nodes) >= target:
            break
        a = norm_arch({"dim": dim, "c0": c0, "sp": sp, "nodes": nodes})
        sh = shapes(a)
        T = list(range(len(sh)))
        nf = [t for t in T if not sh[t]["flat"]]
        fl = [t for t in T if sh[t]["flat"]]
        used = {p for nd in nodes for p in nd["ins"]}
        fresh = [t for t in T if t not in used]
        pick = lambda cand: rng.choice([t for t in cand if t in fresh] or cand)
        kind = rng.choices(["conv", "dw", "lin", "relu", "pool", "flat", "add", "cat"],
                           weights=[6, 2, 4 if fl else 0, 3, 1, 1.2 if len(nf) > 1 else 0, 3, 1.5 if extras else 0])[0]
        if kind == "conv" and nf:
            causal = dim == 1 and rng.random() < 0.7
            nodes.append({"op": "conv", "ins": [pick(nf)], "out": rng.choice([2, 3, 4, 5]),
                          "k": rng.choice([1, 3]) if dim == 2 else rng.choice([1, 2, 3, 5]),
                          "d": 1 if dim == 2 else rng.choice([1, 1, 2, 3]), "causal": causal,
                          "s": rng.choice([1, 1, 1, 2]) if (dim == 2 or causal) else 1, "bias": rng.random() < 0.7,
                          "bn": rng.random() < 0.35})
        elif kind == "dw" and nf:
            causal = dim == 1 and rng.random() < 0.7
            nodes.append({"op": "conv", "ins": [pick([t for t in nf if t != 0] or nf)], "dw": True,
                          "k": 3 if dim == 2 else rng.choice([2, 3, 5]), "bias": rng.random() < 0.7, "causal": causal,
                          "bn": rng.random() < 0.3})
        elif kind == "lin" and fl:
            nodes.append({"op": "lin", "ins": [pick(fl)], "out": rng.choice([2, 3, 4, 6]), "bias": rng.random() < 0.7, "bn": rng.random() < 0.3})
        elif kind == "relu" and len(T) > 1:
            op = rng.choices(["relu", "tanh", "silu", "drop", "id", "sig"], weights=[8, 1, 1, 1, 1, 1])[0] if extras else "relu"
            nodes.append({"op": op, "ins": [pick(T[1:])]})
        elif kind == "pool":
            c = [t for t in nf if t != 0 and sh[t]["sp"] >= 2]
            if c:
                nodes.append({"op": "pool", "ins": [pick(c)], "kind": rng.choice(["avg", "max"])})
        elif kind == "flat":
            c = [t for t in nf if t != 0 and sh[t]["ch"] * sh[t]["sp"] * sh[t]["spw"] <= 80]
            if c:
                nodes.append({"op": "flat", "ins": [pick(c)]})
        elif kind == "add":
            have = {tuple(sorted(nd["ins"])) for nd in nodes if nd["op"] == "add"}
            pairs = [(p, q) for p in T for q in T if p != q and sh[p] == sh[q] and tuple(sorted((p, q))) not in have
                     and (rng.random() < 0.15 or not sh[p]["flat"])]      # (flat addends: mostly finding F24)
            if pairs:
                nodes.append({"op": "add", "ins": list(rng.choice(pairs))})
        elif kind == "cat":
            pairs = [(p, q) for p in nf for q in nf if p != q and sh[p]["sp"] == sh[q]["sp"] and sh[p]["spw"] == sh[q]["spw"]
                     and sh[p]["ch"] + sh[q]["ch"] <= 10]
            if pairs:
                nodes.append({"op": "cat", "ins": list(rng.choice(pairs))})
    # close: every tensor but the last must be consumed
    a = norm_arch({"dim": dim, "c0": c0, "sp": sp, "nodes": nodes})
    for _ in range(12):
        sh = shapes(a)
        used = {p for nd in a["nodes"] for p in nd["ins"]}
        dangling = [t for t in range(len(sh) - 1) if t not in used]
        if not dangling:
            break
        t_ = dangling[0]
        last = len(sh) - 1
        have = {tuple(sorted(nd["ins"])) for nd in a["nodes"] if nd["op"] == "add"}
        if sh[t_] == sh[last] and tuple(sorted((t_, last))) not in have and not sh[t_]["flat"]:
            a["nodes"].append({"op": "add", "ins": [t_, last] if rng.random() < 0.5 else [last, t_]})
        elif not sh[t_]["flat"] and not sh[last]["flat"] and sh[t_]["sp"] == sh[last]["sp"] and sh[t_]["spw"] == sh[last]["spw"]:
            a["nodes"].append({"op": "conv", "ins": [t_], "out": sh[last]["ch"], "k": 1, "causal": dim == 1})
        elif not sh[t_]["flat"]:
            a["nodes"].append({"op": "flat", "ins": [t_]})
        elif sh[t_]["flat"] and sh[last]["flat"]:
            a["nodes"].append({"op": "lin", "ins": [t_], "out": sh[last]["ch"]})
        else:
            a["nodes"].append({"op": "flat", "ins": [last]})
        a = norm_arch(a)
    sh = shapes(a)
    if rng.random() < 0.8 or not any(n["op"] in ("conv", "lin") for n in a["nodes"]):
        if not sh[-1]["flat"]:
            if sh[-1]["ch"] * sh[-1]["sp"] * sh[-1]["spw"] > 96 and sh[-1]["sp"] >= 2:
                a["nodes"].append({"op": "pool", "ins": [len(sh) - 1], "kind": rng.choice(["avg", "max"])})
                a = norm_arch(a)
            a["nodes"].append({"op": "flat", "ins": [len(a["nodes"])]})
            a = norm_arch(a)
        a["nodes"].append({"op": "lin", "ins": [len(a["nodes"])], "out": rng.choice([2, 3, 5]), "bias": True})
    a = norm_arch(a)
    used = {p for nd in a["nodes"] for p in nd["ins"]}
    if any(t_ not in used for t_ in range(len(a["nodes"]))) or not any(n["op"] in ("conv", "lin") for n in a["nodes"]):
        return random_pipe_arch(rng, dim, max_nodes, extras)
    return a


def _pc_aim(arch) -> bool:
    """Aim of the generator only (the domain of the per-channel claims is decided by the trace specification): no searchable
    layer / add tied to the network input, one width per sharing component, the network ends in a layer."""
    arch = norm_arch(arch)
    nodes = arch["nodes"]
    n = len(nodes)
    sh = shapes(arch)
    par = list(range(n + 2))

    def find(x):
        while par[x] != x:
            par[x] = par[par[x]]
            x = par[x]
        return x
    for i, nd in enumerate(nodes, start=1):
        if not (nd["op"] in ("conv", "lin") and not nd["dw"]) and nd["op"] != "cat":
            for p_ in nd["ins"]:
                par[find(p_)] = find(i)
    par[find(n)] = find(n + 1)
    if nodes[-1]["op"] not in ("conv", "lin"):
        return False
    width: Dict[int, int] = {}
    for i, nd in enumerate(nodes, start=1):
        if nd["op"] in ("conv", "lin", "add") and find(i) == find(0):
            return False
        if nd["op"] in ("conv", "lin") and width.setdefault(find(i), sh[i]["ch"]) != sh[i]["ch"]:
            return False
    return True


def random_scenario(rng: random.Random, seed: int, max_nodes: int = 8) -> Dict[str, Any]:
    """A seeded random pipeline beyond the exhaustive bounds: wider / deeper networks (1-D with kernels 1..5, dilation,
    stride; 2-D with depthwise / residual blocks / BatchNorm), random masks in one or two PIT rounds, any precision
    tuples, per-layer or per-channel (incl. 0 bit) search, both backends with MATCH options."""
    dim = 2 if rng.random() < 0.6 else 1
    arch = random_pipe_arch(rng, dim, max_nodes, extras=rng.random() < 0.2)
    to_int = dim == 2 and rng.random() < 0.75
    if to_int and rng.random() < 0.75:
        for n in arch["nodes"]:             # the integer backends crash on bias-free layers (F12): most pipelines avoid them
            if n["op"] in ("conv", "lin"):
                n["bias"] = True
    sc: Dict[str, Any] = {"arch": arch, "seed": seed, "fold": rng.random() < 0.3, "r1": {"random": rng.choice([0.25, 0.4, 0.6])},
                          "r2": {"random": rng.choice([0.2, 0.4])} if rng.random() < 0.3 else None, "mps": None, "int": None, "src": "random"}
    if rng.random() < 0.9:
        pc = rng.random() < 0.25 and _pc_aim(arch)
        if pc:
            cfg = {"pin": rng.choice(ALL15), "pa": rng.choice(ALL15), "pw": rng.choice([[0, 2, 8], [4, 0], [0, 8, 4, 2], [2, 0, 4]]), "wt": "pc"}
        else:
            pa = rng.choice(ALL15)
            cfg = {"pin": pa if rng.random() < 0.5 else rng.choice(ALL15), "pa": pa, "pw": rng.choice(ALL15), "wt": "pl"}
        if to_int and rng.random() < 0.5:
            b = rng.choice([[8], [4], [8], [2]])
            cfg["pin"], cfg["pa"] = b, b     # uniform activation precision (MAUPITI with mixed precisions is finding F14)
        sc["mps"] = {"cfg": cfg, "sel": None, "temp": round(0.05 * (400.0 ** rng.random()), 3), "gumbel": rng.random() < 0.4}
        if to_int and not pc:
            sc["int"] = {"backend": rng.choice(["match", "maupiti"]), "scale_bit": rng.choice([16, 24, 32]), "shift_pos": rng.choice([16, 24, 31])}
    return sc


def nontrivial(tr) -> bool:
    """Something was pruned by PIT AND (if the MPS stage ran) some winner differs from the initial arg-max."""
    pruned = False
    moved = None
    for e in tr["ev"]:
        if e["k"] == "pit":
            pruned = pruned or any(0 in r["mask"] or 0 in r.get("tmask", []) for r in e["L"])
        if e["k"] == "mps" and e["ok"]:
            moved = any((len(r["cand_o"]) > 1 and r["am_o"] != max(r["cand_o"])) or
                        (len(r["cand_w"]) > 1 and any(b != max(r["cand_w"]) for b in r["am_w"])) for r in e["L"])
    return pruned and (moved is None or moved)


def stages_reached(tr) -> str:
    return ">".join(e["k"] + (str(e["round"]) if e["k"] in ("pit", "pitx") else "") for e in tr["ev"])


def corrupt(tr, rng: random.Random):
    """A copy of an accepted trace with ONE observed field changed; PipelineTrace must reject it."""
    c = copy.deepcopy(tr)
    by = {}
    for e in c["ev"]:
        by.setdefault(e["k"], []).append(e)
    choices = []
    if "pitx" in by:
        choices += ["width", "archout", "diff", "scratch", "numel", "align"]
    if "pit" in by:
        choices += ["nascost", "sum_in"]
    if "mps" in by and by["mps"][0]["ok"]:
        choices += ["mpscost", "su_i"]
    if "mpsx" in by and by["mpsx"][0]["ok"] and tr["plan"]["wt"] == "pl":     # (per-channel export: nothing is claimed)
        choices += ["bit", "ex_w"]
    if "int" in by and by["int"][0]["stage"] == "done":
        choices += ["intbits", "level", "final"]
    kind = rng.choice(choices)
    if kind == "width":
        e = by["pitx"][-1]
        e["W"][rng.randrange(1, len(e["W"]))] += 1
    elif kind == "archout":
        e = by["pitx"][-1]
        ls = [n for n in e["obs"]["nodes"] if n["op"] in ("conv", "lin") and not n["dw"]]
        rng.choice(ls)["out"] += 1
    elif kind == "diff":
        by["pitx"][-1]["diff"] = 5_000_000
    elif kind == "scratch":
        rng.choice(by["pitx"][-1]["scratch"])["v"] += 1
    elif kind == "numel":
        by["pitx"][-1]["numel"] += 1
    elif kind == "align":
        e = rng.choice([x for x in by["pitx"][-1]["E"]])
        e["out_idx"] = [v + 1 for v in e["out_idx"]]
    elif kind == "nascost":
        rng.choice(by["pit"][-1]["cost"])["v"] += 1
    elif kind == "sum_in":
        rng.choice(by["pit"][-1]["L"])["sum_in"] += 1
    elif kind == "mpscost":
        e = by["mps"][0]
        m = rng.choice(sorted(e["cost"]))
        e["cost"][m] += max(200, abs(e["cost"][m]) // 50)
    elif kind == "su_i":
        r = rng.choice([x for x in by["mps"][0]["L"] if x["kind"] in ("conv", "lin")])
        r["su_i"] = 2 if r["su_i"] != 2 else 4
    elif kind == "bit":
        by["mpsx"][0]["bit_identical"] = False
    elif kind == "ex_w":
        r = rng.choice([x for x in by["mpsx"][0]["X"] if x["ex_w"]])
        r["ex_w"] = [2 if b != 2 else 4 for b in r["ex_w"]]
    elif kind == "intbits":
        r = rng.choice(by["int"][0]["layers"])
        r["wb"] = 2 if r["wb"] != 2 else 4
    elif kind == "level":
        ls = [x for x in by["int"][0]["layers"] if not x["last"]]
        if ls:
            rng.choice(ls)["maxdiff"] = 40
        else:
            by["int"][0]["final"]["ratio1000"] = 50_000
    elif kind == "final":
        by["int"][0]["final"]["ratio1000"] = 50_000
    return c, kind
