"""C14 helper: abstract sequential / depthwise-separable 2-D network  ->  torch module  ->  MPS.export()
->  integerize_arch(deepcopy(...), backend)  ->  per-layer observations (one trace per scenario).

scenario = {"kind": "net", "backend": "match"|"maupiti", "scale_bit": int, "shift_pos": int,   (MATCH options;
            MAUPITI has the constants 16 / 32 in its code)
            "c0": int, "h": int, "w": int, "in_bits": 2|4|8, "batch": int, "wseed": int, "xseed": int,
            "layers": [layer, ...]}
layer    = {"op": "conv", "out": int, "k": [kh, kw], "s": int, "p": [ph, pw], "d": [dh, dw], "dws": bool,
            "bias": bool, "bn": bool, "relu": bool, "wb": 2|4|8, "ab": 2|4|8, "clip": milli-units}
         | {"op": "lin", "out": int, "bias": bool, "bn": bool, "relu": bool, "wb": .., "ab": .., "clip": ..}
         | {"op": "pool"} | {"op": "flat"}
A depthwise conv ("dws": true) keeps the channel count and - by construction of MPS (shared quantisers of one
sharing component) - the weight/activation precision of its producer; the precisions that are LOGGED are always the
ones read from the exported fake-quantised layers, never the requested ones.

Nothing in this file decides a verdict: it produces integers and booleans (exact `fractions.Fraction` arithmetic
for everything TLC cannot compute) that specs/IntegerizeTrace.tla judges.
"""
from __future__ import annotations

import copy
import math
import random
from fractions import Fraction as Fr
from typing import Any, Dict, List, Optional, Tuple

LIMB_BITS = 14
LIMB = 1 << LIMB_BITS
CAP = 2 ** 30
STAB = 1e-3            # PACT's stabiliser (pact_act.py: scale_factor = (2^p - 1) / (clip + 1e-3))


# ------------------------------------------------------------------------------------------------
# encoding helpers
# ------------------------------------------------------------------------------------------------
def big(n: int) -> Dict[str, Any]:
    """sign / little-endian base-2^14 limbs (IntegerArith!Big*)"""
    n = int(n)
    s = -1 if n < 0 else 1
    n = abs(n)
    m = []
    while n:
        m.append(n & (LIMB - 1))
        n >>= LIMB_BITS
    return {"s": s, "m": m}


def cap(n: int) -> int:
    return max(-CAP, min(CAP, int(n)))


def f32_parts(x: float) -> Tuple[int, int]:
    """x (a float32 value held in a python float, x > 0) = mant * 2^exp exactly, mant odd or < 2^24"""
    fr = Fr(x)
    num, den = fr.numerator, fr.denominator
    e = -(den.bit_length() - 1)
    while num % 2 == 0 and num > 0:
        num //= 2
        e += 1
    return num, e


def ceil_fr(x: Fr) -> int:
    return -((-x.numerator) // x.denominator)


# ------------------------------------------------------------------------------------------------
# network construction
# ------------------------------------------------------------------------------------------------
def lname(i: int) -> str:
    return f"l{i}"


def build_net(sc: Dict[str, Any]):
    import torch
    import torch.nn as nn

    class SeqNet(nn.Module):
        def __init__(self, sc):
            super().__init__()
            c, h, w = sc["c0"], sc["h"], sc["w"]
            self.order: List[str] = []
            flat = False
            for i, L in enumerate(sc["layers"]):
                op = L["op"]
                if op == "conv":
                    cout = c if L["dws"] else L["out"]
                    conv = nn.Conv2d(c, cout, tuple(L["k"]), stride=L["s"], padding=tuple(L["p"]),
                                     dilation=tuple(L["d"]), groups=c if L["dws"] else 1, bias=L["bias"])
                    setattr(self, lname(i), conv)
                    self.order.append(lname(i))
                    h = (h + 2 * L["p"][0] - L["d"][0] * (L["k"][0] - 1) - 1) // L["s"] + 1
                    w = (w + 2 * L["p"][1] - L["d"][1] * (L["k"][1] - 1) - 1) // L["s"] + 1
                    if h < 1 or w < 1:
                        raise ValueError("spatial size vanished")
                    c = cout
                    if L["bn"]:
                        setattr(self, lname(i) + "_bn", nn.BatchNorm2d(cout))
                        self.order.append(lname(i) + "_bn")
                    if L["relu"]:
                        setattr(self, lname(i) + "_relu", nn.ReLU())
                        self.order.append(lname(i) + "_relu")
                elif op == "lin":
                    if not flat:
                        raise ValueError("lin before flat")
                    setattr(self, lname(i), nn.Linear(c, L["out"], bias=L["bias"]))
                    self.order.append(lname(i))
                    c = L["out"]
                    if L["bn"]:
                        setattr(self, lname(i) + "_bn", nn.BatchNorm1d(c))
                        self.order.append(lname(i) + "_bn")
                    if L["relu"]:
                        setattr(self, lname(i) + "_relu", nn.ReLU())
                        self.order.append(lname(i) + "_relu")
                elif op == "pool":
                    if h < 2 or w < 2:
                        raise ValueError("pool on size 1")
                    setattr(self, lname(i), nn.MaxPool2d(2))
                    self.order.append(lname(i))
                    h, w = h // 2, w // 2
                elif op == "flat":
                    setattr(self, lname(i), nn.Flatten(1))
                    self.order.append(lname(i))
                    c, h, w, flat = c * h * w, 1, 1, True
                else:
                    raise ValueError(op)

        def forward(self, x):
            for nm in self.order:
                x = getattr(self, nm)(x)
            return x

    net = SeqNet(sc)
    init_generic(net, sc["wseed"], float(sc.get("gain", 1.0)), float(sc.get("bias_gain", 1.0)))
    net.eval()
    return net


def init_generic(net, wseed: int, gain: float = 1.0, bias_gain: float = 1.0) -> None:
    """generic (random, non-degenerate) weights, biases and BN statistics; every channel with its own magnitude"""
    import torch
    import torch.nn as nn
    g = torch.Generator().manual_seed(wseed)
    with torch.no_grad():
        for nm, m in net.named_modules():
            if isinstance(m, (nn.Conv2d, nn.Linear)):
                fan = m.weight[0].numel()
                mag = (0.3 + torch.rand(m.weight.shape[0], generator=g)) / math.sqrt(fan)
                wgt = (torch.rand(m.weight.shape, generator=g) * 2 - 1)
                m.weight.copy_(wgt * mag.view(-1, *([1] * (wgt.dim() - 1))) * 2.0 * gain)
                if m.bias is not None:
                    m.bias.copy_((torch.rand(m.bias.shape, generator=g) * 2 - 1) * 0.5 * bias_gain)
            elif isinstance(m, (nn.BatchNorm2d, nn.BatchNorm1d)):
                m.weight.copy_(0.5 + torch.rand(m.weight.shape, generator=g))
                m.bias.copy_((torch.rand(m.bias.shape, generator=g) * 2 - 1) * 0.3)
                m.running_mean.copy_((torch.rand(m.bias.shape, generator=g) * 2 - 1) * 0.2)
                m.running_var.copy_(0.5 + torch.rand(m.bias.shape, generator=g))


# ------------------------------------------------------------------------------------------------
# nested containers (module paths that differ from the fx node names)
# ------------------------------------------------------------------------------------------------
NESTS = ("flat", "seq", "blocks", "dict", "alias")


def build_nested(model: Dict[str, Any]):
    """model = {"nest": "seq"|"blocks"|"dict"|"alias", "c0", "h", "w", "wb", "ab", "wseed", "gain"}.
       seq    : the ROOT is an nn.Sequential (module paths '0', '2', ...; fx node names '_0', '_2', ...)
       blocks : blocks inside an nn.Sequential inside the model, inner nn.Sequential bodies, depthwise-separable convs,
                a Sequential head with two Linear layers ('features.0.body.0', 'features.2.dw', 'head.1', ...)
       dict   : nn.ModuleDict with a word key and a numeric key, nn.ModuleList of Linear layers ('layers.3', 'fcs.0')
       alias  : every layer is reachable through two attribute paths of the model"""
    import torch
    import torch.nn as nn
    c0, h, w = model["c0"], model["h"], model["w"]
    kind = model["nest"]

    class Block(nn.Module):
        def __init__(self, cin, cout):
            super().__init__()
            self.body = nn.Sequential(nn.Conv2d(cin, cout, 3, padding=1), nn.BatchNorm2d(cout), nn.ReLU())
            self.dw = nn.Conv2d(cout, cout, 3, padding=1, groups=cout)
            self.act = nn.ReLU()
            self.pw = nn.Conv2d(cout, cout, 1)

        def forward(self, x):
            return torch.relu(self.pw(self.act(self.dw(self.body(x)))))

    class Blocks(nn.Module):
        def __init__(self):
            super().__init__()
            self.features = nn.Sequential(Block(c0, 3), nn.MaxPool2d(2), Block(3, 4))
            self.head = nn.Sequential(nn.Flatten(1), nn.Linear(4 * (h // 2) * (w // 2), 5), nn.ReLU(), nn.Linear(5, 3))

        def forward(self, x):
            return self.head(self.features(x))

    class DictNet(nn.Module):
        def __init__(self):
            super().__init__()
            self.layers = nn.ModuleDict({"stem": nn.Conv2d(c0, 3, 3, padding=1), "3": nn.Conv2d(3, 4, 3, padding=1)})
            self.fcs = nn.ModuleList([nn.Linear(4 * h * w, 5), nn.Linear(5, 3)])

        def forward(self, x):
            x = torch.relu(self.layers["stem"](x))
            x = torch.relu(self.layers["3"](x))
            x = torch.flatten(x, 1)
            return self.fcs[1](torch.relu(self.fcs[0](x)))

    class Alias(nn.Module):
        def __init__(self):
            super().__init__()
            self.conv_a = nn.Conv2d(c0, 3, 3, padding=1)
            self.conv_b = self.conv_a
            self.fc_first = nn.Linear(3 * h * w, 4)
            self.zz_fc = self.fc_first
            self.out = nn.Linear(4, 3)
            self.aa_out = self.out

        def forward(self, x):
            x = torch.flatten(torch.relu(self.conv_b(x)), 1)
            return self.aa_out(torch.relu(self.zz_fc(x)))

    if kind == "seq":
        net = nn.Sequential(nn.Conv2d(c0, 3, 3, padding=1), nn.ReLU(), nn.Conv2d(3, 4, 1), nn.ReLU(), nn.Flatten(1),
                            nn.Linear(4 * h * w, 4), nn.ReLU(), nn.Linear(4, 3))
    elif kind == "blocks":
        net = Blocks()
    elif kind == "dict":
        net = DictNet()
    elif kind == "alias":
        net = Alias()
    else:
        raise ValueError(kind)
    init_generic(net, model["wseed"], float(model.get("gain", 1.0)))
    net.eval()
    return net


def nested_qinfo(model: Dict[str, Any]):
    from plinio.methods.mps.quant.quantizers import PACTAct, MinMaxWeight, QuantizerBias
    return {
        "layer_default": {
            "output": {"quantizer": PACTAct, "search_precision": (model["ab"],), "kwargs": {"init_clip_val": 2.5}},
            "weight": {"quantizer": MinMaxWeight, "search_precision": (model["wb"],), "kwargs": {}},
            "bias": {"quantizer": QuantizerBias, "kwargs": {"precision": 32}},
        },
        "input_default": {"quantizer": PACTAct, "search_precision": (model["ab"],), "kwargs": {"init_clip_val": 1}},
    }


def spec_of_module(net) -> List[Dict[str, Any]]:
    """conv / linear layers of a plain torch model in the format of tr["spec"] (names = module paths)"""
    import torch.nn as nn
    out = []
    for nm, m in net.named_modules():
        if isinstance(m, nn.Conv2d):
            out.append({"op": "conv", "name": nm, "hasbias": True if m.bias is not None else False, "k": list(m.kernel_size),
                        "p": list(m.padding), "d": list(m.dilation), "s": int(m.stride[0]), "dws": m.groups > 1})
        elif isinstance(m, nn.Linear):
            out.append({"op": "lin", "name": nm, "hasbias": m.bias is not None, "k": [1, 1], "p": [0, 0], "d": [1, 1],
                        "s": 1, "dws": False})
    return out


def make_qinfo(sc: Dict[str, Any]):
    from plinio.methods.mps.quant.quantizers import PACTAct, MinMaxWeight, QuantizerBias
    q: Dict[str, Any] = {
        "layer_default": {
            "output": {"quantizer": PACTAct, "search_precision": (8,), "kwargs": {}},
            "weight": {"quantizer": MinMaxWeight, "search_precision": (8,), "kwargs": {}},
            "bias": {"quantizer": QuantizerBias, "kwargs": {"precision": 32}},
        },
        "input_default": {"quantizer": PACTAct, "search_precision": (sc["in_bits"],),
                          "kwargs": {"init_clip_val": 1}},
    }
    for i, L in enumerate(sc["layers"]):
        if L["op"] in ("conv", "lin"):
            q[lname(i)] = {
                "output": {"quantizer": PACTAct, "search_precision": (L["ab"],),
                           "kwargs": {"init_clip_val": L.get("clip", 6000) / 1000.0}},
                "weight": {"quantizer": MinMaxWeight, "search_precision": (L["wb"],), "kwargs": {}},
                "bias": {"quantizer": QuantizerBias, "kwargs": {"precision": 32}},
            }
    return q


# ------------------------------------------------------------------------------------------------
# observation of one network scenario
# ------------------------------------------------------------------------------------------------
def _frac(t) -> Fr:
    """exact value of a 0-d float tensor / python float"""
    return Fr(float(t))


def _is_int_tensor(t) -> bool:
    import torch
    return bool(torch.isfinite(t).all()) and bool((t == torch.floor(t)).all())


def _exc_name(e: BaseException) -> str:
    return type(e).__name__


def _msg(e: BaseException) -> str:
    """exception text reduced to characters that survive JSON -> TLC -> TLC's printed state unchanged"""
    ok = set("abcdefghijklmnopqrstuvwxyzABCDEFGHIJKLMNOPQRSTUVWXYZ0123456789 _.,:()=[]{}'-+*/<>")
    return "".join(c if c in ok else " " for c in str(e))[:120]


def _pact_top(q) -> int:
    """top level a PACT quantiser can emit (observed on the real object: level of an input far above the clip)"""
    import torch
    qq = copy.deepcopy(q)
    qq.dequantize = False
    with torch.no_grad():
        return int(qq(torch.tensor([float(qq.clip_val.data[0]) * 4.0 + 1.0])).item())


BACKEND_LAYERS = ("MATCHConv2d", "MATCHLinear", "MAUPITIConv2d", "MAUPITILinear")


def _new_trace(backend: str, scale_bit: int, shift_pos: int, spec: List[Dict[str, Any]]) -> Dict[str, Any]:
    return {"kind": "net", "backend": backend, "scale_bit": scale_bit, "shift_pos": shift_pos,
            "stage": "", "exc": "", "msg": "", "spec": spec, "layers": [], "final": {},
            "census": {"quant_in": 0, "backend_called": 0, "quant_called": 0, "quant_modules": 0}, "kw_same": True}


def flat_spec(sc: Dict[str, Any]) -> List[Dict[str, Any]]:
    """static description of the requested conv/linear layers (signatures of F12/F13/F14 are scenario predicates)"""
    spec = []
    for i, L in enumerate(sc["layers"]):
        if L["op"] == "conv":
            spec.append({"op": "conv", "name": lname(i), "hasbias": bool(L["bias"] or L["bn"]),
                         "k": list(L["k"]), "p": list(L["p"]), "d": list(L["d"]), "s": L["s"], "dws": bool(L["dws"])})
        elif L["op"] == "lin":
            spec.append({"op": "lin", "name": lname(i), "hasbias": bool(L["bias"] or L["bn"]),
                         "k": [1, 1], "p": [0, 0], "d": [1, 1], "s": 1, "dws": False})
    return spec


def snapshot(model) -> Dict[str, Any]:
    return {k: v.detach().clone() for k, v in model.state_dict().items()}


def observe_net(sc: Dict[str, Any]) -> Dict[str, Any]:
    import torch
    from plinio.methods.mps import MPS, MPSType
    from plinio.methods.mps.quant.backends import Backend, integerize_arch

    backend = sc["backend"]
    tr = _new_trace(backend, 16 if backend == "maupiti" else sc["scale_bit"], 32 if backend == "maupiti" else sc["shift_pos"],
                    flat_spec(sc))
    torch.manual_seed(sc["xseed"])
    net = build_net(sc)
    shape = (sc["c0"], sc["h"], sc["w"])
    try:
        mps = MPS(net, input_shape=shape, qinfo=make_qinfo(sc), w_search_type=MPSType.PER_LAYER)
        mps.eval()
        fake = mps.export()
        fake.eval()
    except Exception as e:                                   # not the object of C14 (the driver treats it as machinery)
        tr.update(stage="mps", exc=_exc_name(e), msg=_msg(e))
        return tr
    # F22 (observation only): export() shares quantiser objects with the NAS model, integerize_arch flips their flags;
    # everything below works on deep copies
    kwargs = {} if backend == "maupiti" else {"scale_bit": sc["scale_bit"], "shift_pos": sc["shift_pos"]}
    kw0 = dict(kwargs)
    bk = Backend.MATCH if backend == "match" else Backend.MAUPITI
    try:
        integ = integerize_arch(copy.deepcopy(fake), bk, backend_kwargs=kwargs)
    except Exception as e:
        tr.update(stage="integerize", exc=_exc_name(e), msg=_msg(e))
        return tr
    tr["kw_same"] = kwargs == kw0
    g = torch.Generator().manual_seed(sc["xseed"])
    x = torch.rand((sc["batch"],) + shape, generator=g) * 1.3 - 0.15          # exercises both clamps of the input
    return observe_integer(tr, copy.deepcopy(fake), integ, x, random.Random(sc["xseed"] * 7919 + 13),
                           int(sc.get("nsamp", 6)), [snapshot(fake)])


def observe_integer(tr: Dict[str, Any], fq, integ, x, rng: random.Random, nsamp: int,
                    versions: List[Dict[str, Any]]) -> Dict[str, Any]:
    """Compare the integer network `integ` with the fake-quantised model `fq` (a private copy) it was made from.
    `versions` = state_dict snapshots of the weight versions of the model's history, the last one being current."""
    import torch
    import torch.nn.functional as F
    from plinio.methods.mps.quant.quantizers import DummyQuantizer
    import plinio.methods.mps.quant.nn as qnn

    backend = tr["backend"]
    quant_types = (qnn.QuantConv2d, qnn.QuantLinear) + ((qnn.QuantConv1d,) if hasattr(qnn, "QuantConv1d") else ())
    # ---- structural census: which module types the result still CALLS / contains -------------------------
    fmods = dict(fq.named_modules())
    names = [str(n.target) for n in fq.graph.nodes if n.op == "call_module" and isinstance(fmods.get(str(n.target)), quant_types)]
    called = [integ.get_submodule(str(n.target)) for n in integ.graph.nodes if n.op == "call_module"]
    int_layers = {str(n.target): integ.get_submodule(str(n.target)) for n in integ.graph.nodes
                  if n.op == "call_module" and type(integ.get_submodule(str(n.target))).__name__ in BACKEND_LAYERS}
    tr["census"] = {"quant_in": len(names),
                    "backend_called": sum(1 for m in called if type(m).__name__ in BACKEND_LAYERS),
                    "quant_called": sum(1 for m in called if isinstance(m, quant_types)),
                    "quant_modules": sum(1 for _, m in integ.named_modules() if isinstance(m, quant_types))}
    fake_layers = {nm: fmods[nm] for nm in names}
    if sorted(names) != sorted(int_layers) or sorted(names) != sorted(s["name"] for s in tr["spec"]):
        tr.update(stage="census", msg=_msg(ValueError(f"integer layers {sorted(int_layers)} for quant layers {sorted(names)}")))
        return tr
    names = [s["name"] for s in tr["spec"]]

    in_qs = [m for m in fq.modules() if isinstance(m, qnn.QuantIdentity)]
    if len(in_qs) != 1:
        raise ValueError("expected exactly one input quantiser")
    in_q = in_qs[0].out_quantizer
    in_bits = int(in_q.precision)
    with torch.no_grad():
        if backend == "match":
            x_int = x
        else:
            iq = copy.deepcopy(in_q)
            iq.dequantize = False
            x_int = iq(x) - 2 ** (in_bits - 1)
    cap_io: Dict[str, Any] = {}
    hooks = []
    for n, m in int_layers.items():
        def hook(mod, inp, outp, _n=n):
            cap_io[_n] = (inp[0].detach().clone(), outp.detach().clone())
            return None
        hooks.append(m.register_forward_hook(hook))
    try:
        with torch.no_grad():
            integ(x_int)
    except Exception as e:
        tr.update(stage="forward", exc=_exc_name(e), msg=_msg(e))
        return tr
    finally:
        for h in hooks:
            h.remove()

    for nm in names:
        il, fl = int_layers[nm], fake_layers[nm]
        xin, yout = cap_io[nm]
        isconv = isinstance(fl, qnn.QuantConv2d)
        last = isinstance(fl.out_quantizer, DummyQuantizer)
        ib = int(fl.in_quantizer.precision)
        wb = int(fl.w_quantizer.precision)
        ob = 0 if last else int(fl.out_quantizer.precision)
        lo_in = -(2 ** (ib - 1)) if backend == "maupiti" else 0
        lo_out = (-(2 ** (ob - 1)) if backend == "maupiti" else 0) if not last else 0
        hi_out = lo_out + 2 ** ob - 1 if not last else 0
        rec: Dict[str, Any] = {"name": nm, "conv": isconv, "last": last, "ib": ib, "ob": ob, "wb": wb,
                               "hasbias": fl.bias is not None, "lo_in": lo_in, "lo": lo_out, "hi": hi_out,
                               "used_sb": int(getattr(il, "scale_bit", 16)), "used_sp": int(getattr(il, "shift_pos", 32))}
        # which weights version do the stored weight scale s_w and the integer weights belong to?  (reference values:
        # the layer's own weight quantiser run on the snapshot of every version)
        cur = len(versions) - 1
        sw_ver, wint_ver = -1, -1
        with torch.no_grad():
            for v in [cur] + list(range(cur)):
                wv_ = versions[v].get(nm + ".weight")
                if wv_ is None:
                    continue
                q = copy.deepcopy(fl.w_quantizer)
                q.dequantize = False
                wi = q(wv_)
                sref = q.scale
                if sw_ver < 0 and tuple(il.s_w.shape) == tuple(sref.shape) and torch.equal(il.s_w, sref):
                    sw_ver = v
                if wint_ver < 0 and (tuple(il.weight.shape) != tuple(wi.shape) or torch.equal(il.weight.detach(), wi)):
                    wint_ver = v            # (a MATCH kernel padded for dilation has another shape: not compared)
        rec["sw_ver"], rec["wint_ver"] = sw_ver, wint_ver
        with torch.no_grad():
            # ---- stored tensors: integer-ness and ranges -------------------------------------------
            w = il.weight.detach()
            rec["w_int"] = _is_int_tensor(w)
            rec["w_min"], rec["w_max"] = cap(w.min().item()), cap(w.max().item())
            scale = il.scale.detach().reshape(-1)
            rec["scale_int"] = (not scale.dtype.is_floating_point) or _is_int_tensor(scale)
            S = [int(v) for v in scale.tolist()]
            rec["scale_min"], rec["scale_max"] = big(min(S)), big(max(S))
            sh = int(il.shift.reshape(-1)[0].item())
            rec["shift"] = sh
            rec["shift_int"] = (not il.shift.dtype.is_floating_point) or _is_int_tensor(il.shift)
            C = len(S)
            # integer bias b_int (recomputed through the real bias quantiser of the fake layer, dequantize False)
            if fl.bias is not None:
                flq = copy.deepcopy(fl)
                flq.w_quantizer.dequantize = True
                flq.w_quantizer(flq.weight)                      # refreshes the min/max state the scale depends on
                flq.b_quantizer.dequantize = False
                b_int_t = flq.b_quantizer(flq.bias, flq.in_quantizer.scale, flq.w_quantizer.scale).detach()
                rec["b_int"] = _is_int_tensor(b_int_t)
                B = [int(v) for v in b_int_t.tolist()] if rec["b_int"] else [0] * C
            else:
                rec["b_int"] = True
                B = [0] * C
            rec["b_absmax"] = big(max(abs(v) for v in B))
            # scaled bias as stored (add_bias; for skip_requant conv layers the integer bias lives in .bias)
            ab = getattr(il, "add_bias", None)
            if ab is None and getattr(il, "bias", None) is not None:
                ab = il.bias.detach()
            if ab is not None:
                abv = ab.detach().reshape(-1)
                rec["ab_int"] = _is_int_tensor(abv)
                rec["ab_absmax"] = big(int(abv.abs().max().item()))
                AB = [int(v) for v in abv.tolist()] if rec["ab_int"] else [0] * C
            else:
                rec["ab_int"] = True
                rec["ab_absmax"] = big(0)
                AB = [0] * C
            # exact products b_int*scale (what must fit 32 bits)
            prods = [B[c] * S[c] for c in range(C)]
            rec["bs_min"], rec["bs_max"] = big(min(prods)), big(max(prods))
            zp_t = getattr(il, "_zero_point", None)
            ZP = [int(v) for v in zp_t.detach().reshape(-1).tolist()] if zp_t is not None else None
            # ---- activations -----------------------------------------------------------------------
            rec["in_int"] = _is_int_tensor(xin)
            rec["in_min"], rec["in_max"] = cap(xin.min().item()), cap(xin.max().item())
            rec["out_int"] = _is_int_tensor(yout) if not (last and backend == "maupiti") else True
            rec["out_min"], rec["out_max"] = cap(math.floor(yout.min().item())), cap(math.ceil(yout.max().item()))
            # ---- the fake-quantised counterpart on the image of the same input -----------------------
            sf_in = (2 ** ib - 1) / (fl.in_quantizer.clip_val.data[0] + STAB)       # as PACTActSTE computes it
            x_lev = xin - lo_in
            x_fake = x_lev / sf_in
            flc = copy.deepcopy(fl)
            if not last:
                flc.out_quantizer.dequantize = False
            flc.w_quantizer.dequantize = True
            if fl.bias is not None:
                flc.b_quantizer.dequantize = True
            y_f = flc(x_fake)
            rec["shape_ok"] = tuple(y_f.shape) == tuple(yout.shape)
            if not rec["shape_ok"]:
                rec.update(maxdiff=-1, bound1024=0, gap=0, samples=[], nelem=0)
                tr["layers"].append(rec)
                continue
            # integer accumulators in float64 (exact below 2^53): unsigned-level domain and as fed to the requantiser
            w64 = w.double()
            if isconv:
                acc_u = F.conv2d(x_lev.double(), w64, None, il.stride, il.padding if not isinstance(il.padding, str) else 0,
                                 il.dilation, il.groups)
                absacc = F.conv2d(x_lev.double().abs(), w64.abs(), None, il.stride,
                                  il.padding if not isinstance(il.padding, str) else 0, il.dilation, il.groups)
                if backend == "maupiti" and not last:
                    acc_r = F.conv2d(il.pad(xin).double(), w64, None, il.stride, 0, il.dilation, il.groups)
                elif backend == "maupiti":
                    acc_r = F.conv2d(xin.double(), w64, None, il.stride, il.padding, il.dilation, il.groups)
                else:
                    acc_r = acc_u
                wsum = [int(v) for v in w64.sum(dim=(1, 2, 3)).tolist()]
            else:
                acc_u = F.linear(x_lev.double(), w64)
                absacc = F.linear(x_lev.double().abs(), w64.abs())
                acc_r = F.linear(xin.double(), w64) if backend == "maupiti" else acc_u
                wsum = [int(v) for v in w64.sum(dim=1).tolist()]
            nterms = int(w[0].numel())
            # target of the integer approximation exactly as the layer computes it (float32), per channel
            tgt = (il.s_w * il.s_x / il.s_y).detach().reshape(-1)
            if tgt.numel() == 1 and C > 1:
                tgt = tgt.expand(C)
            T = [Fr(float(v)) for v in tgt.tolist()]
            clip_in = _frac(fl.in_quantizer.clip_val.data[0])
            e_in = Fr(STAB) / clip_in if clip_in != 0 else Fr(0)
            if not last:
                clip_out = _frac(fl.out_quantizer.clip_val.data[0])
                e_out = Fr(STAB) / clip_out
                c1 = abs((1 + e_in) / (1 + e_out) - 1)
                c2 = e_out / (1 + e_out)
                rec["gap"] = (2 ** ob - 1) - _pact_top(fl.out_quantizer)
            else:
                c1, c2 = e_in, Fr(0)
                rec["gap"] = 0
            yi = (yout - lo_out).double() if not last else yout.double()
            yf = y_f.double()
            # per-element quantities (python ints / Fractions; tensors are tiny)
            flat_acc_u = acc_u.reshape(-1).tolist()
            flat_abs = absacc.reshape(-1).tolist()
            flat_acc_r = acc_r.reshape(-1).tolist()
            flat_yi = yi.reshape(-1).tolist()
            flat_yf = yf.reshape(-1).tolist()
            flat_raw = yout.double().reshape(-1).tolist()
            per_c = int(yout[0, 0].numel()) if yout.dim() > 2 else 1
            n_el = len(flat_yi)
            rec["nelem"] = n_el

            def chan(idx: int) -> int:
                return (idx // per_c) % C

            two_sh = 1 << sh
            ADD = ZP if ZP is not None else AB
            elems = []
            maxdiff = 0
            maxB = Fr(0)
            approx_c = [abs(Fr(S[c], two_sh) - T[c]) for c in range(C)]
            f32u = Fr(nterms + 8, 2 ** 23)
            for idx in range(n_el):
                c = chan(idx)
                au = int(flat_acc_u[idx])
                X = au + B[c]
                if not last:
                    d = abs(flat_yi[idx] - flat_yf[idx])
                    d = int(d) if d == int(d) else -1
                    b_apx = abs(X) * approx_c[c]
                    b_stab = T[c] * (abs(au) * c1 + abs(B[c]) * c2)
                    # float32 evaluation of the fake layer (worst-case summation bound) and of the integer layer's
                    # own (acc*scale + addend)/2^shift
                    b_f32 = f32u * T[c] * (int(flat_abs[idx]) + abs(B[c])) + Fr(1, 2 ** 10) + \
                        Fr(abs(int(flat_acc_r[idx]) * S[c]) + abs(ADD[c]), two_sh) / 2 ** 22
                    Bt = b_apx + b_stab + b_f32
                    elems.append((idx, c, d, b_apx, b_stab, b_f32, Bt))
                    if d < 0:
                        maxdiff = -1 if maxdiff >= 0 else maxdiff
                    elif maxdiff >= 0:
                        maxdiff = max(maxdiff, d)
                    maxB = max(maxB, Bt)
            if not last:
                rec["maxdiff"] = cap(maxdiff)
                rec["bound1024"] = cap(ceil_fr(maxB * 1024))
                # samples: the worst elements (largest diff - bound) plus random ones
                order = sorted(elems, key=lambda e: (-(e[2] - float(e[6])) if e[2] >= 0 else -1e9, e[0]))
                pick = [e[0] for e in order[:2]] + [rng.randrange(n_el) for _ in range(max(0, nsamp - 2))]
                by_idx = {e[0]: e for e in elems}
                samples = []
                for idx in dict.fromkeys(pick):
                    _, c, d, b_apx, b_stab, b_f32, Bt = by_idx[idx]
                    ar = int(flat_acc_r[idx])
                    addend = (ZP[c] if ZP is not None else AB[c])
                    exact = Fr(ar * S[c] + addend, two_sh)
                    fl_ex = exact.numerator // exact.denominator
                    dist = min(exact - fl_ex, fl_ex + 1 - exact)
                    # float32 evaluation of (acc*scale + addend)/2^shift: safe to recompute when the exact value is
                    # further from an integer than the accumulated round-off
                    noise = Fr(abs(ar * S[c]) + abs(addend), two_sh) / 2 ** 21
                    m, e = f32_parts(float(T[c]))
                    samples.append({"c": c + 1, "acc": big(ar), "accu": big(int(flat_acc_u[idx])), "scale": big(S[c]),
                                    "b": big(B[c]), "addend": big(addend), "wsum": big(wsum[c]),
                                    "out": cap(flat_raw[idx]), "lev": cap(flat_yi[idx]), "fake": cap(flat_yf[idx]),
                                    "diff": cap(d), "offb": bool(dist > noise + Fr(1, 2 ** 12) or
                                                                 (exact == fl_ex and noise < Fr(1, 2))),
                                    "tm": big(m), "te": e,
                                    "stab1024": cap(ceil_fr(b_stab * 1024)), "f321024": cap(ceil_fr(b_f32 * 1024)),
                                    "apx1024": cap(ceil_fr(b_apx * 1024))})
                rec["samples"] = samples
            else:
                # final layer: real-valued logits.  MATCH: out * (s_x*s_w);  MAUPITI: out itself.
                worst = Fr(0)
                worst_s: Optional[Dict[str, Any]] = None
                sxsw = (il.s_x * il.s_w).detach().reshape(-1)
                if sxsw.numel() == 1 and C > 1:
                    sxsw = sxsw.expand(C)
                SX = [Fr(float(v)) for v in sxsw.tolist()]
                fin_ok = True
                for idx in range(n_el):
                    c = chan(idx)
                    au = int(flat_acc_u[idx])
                    logit = Fr(flat_yf[idx])
                    if backend == "match":
                        got = Fr(flat_raw[idx]) * SX[c]
                        unit = SX[c]
                        tol = unit * abs(au) * e_in
                    else:
                        got = Fr(flat_raw[idx])
                        unit = T[c]
                        tol = unit * abs(au) * e_in + abs(au + B[c]) * approx_c[c]
                    tol += f32u * unit * (int(flat_abs[idx]) + abs(B[c])) * 2 + Fr(1, 10 ** 9)
                    if backend == "maupiti":
                        # float32 evaluation of (acc'*scale + zero_point)/2^shift: two large terms that cancel
                        tol += Fr(abs(int(flat_acc_r[idx]) * S[c]) + abs(ADD[c]), two_sh) / 2 ** 22
                    if not math.isfinite(flat_raw[idx]):
                        fin_ok = False
                        continue
                    r = abs(got - logit) / tol
                    if r > worst or worst_s is None:
                        worst = r
                        worst_s = {"c": c + 1, "ratio1000": cap(ceil_fr(r * 1000)),
                                   "got1e6": cap(round(float(got) * 1e6)), "logit1e6": cap(round(float(logit) * 1e6))}
                rec["maxdiff"] = 0
                rec["bound1024"] = 0
                rec["samples"] = []
                ws = worst_s or {"c": 0, "got1e6": 0, "logit1e6": 0}
                tr["final"] = {"name": nm, "conv": isconv, "finite": fin_ok, "ratio1000": cap(ceil_fr(worst * 1000)),
                               "c": ws["c"], "got1e6": ws["got1e6"], "logit1e6": ws["logit1e6"],
                               "int_out": _is_int_tensor(yout)}
        tr["layers"].append(rec)
    tr["stage"] = "done"
    return tr


# ------------------------------------------------------------------------------------------------
# replay of IntegerizeMC states on the real backend classes (spec -> code)
# ------------------------------------------------------------------------------------------------
class _StubQ:
    """Stands in for a plinio Quantizer when a backend layer class is driven directly: supplies an exactly
    dyadic scale and passes already-integer tensors through.  Only the attributes the backend classes read."""

    def __init__(self, scale, precision):
        self._scale = scale
        self.precision = precision
        self.dequantize = True

    @property
    def scale(self):
        return self._scale


class _StubW(_StubQ):
    def __call__(self, w):
        return w


class _StubB(_StubQ):
    def __call__(self, b, s_x, s_w):
        return b


def _classes():
    from plinio.methods.mps.quant.backends.match.nn import MATCHConv2d, MATCHLinear
    from plinio.methods.mps.quant.backends.maupiti.nn import MAUPITIConv2d, MAUPITILinear
    return {("match", "lin"): MATCHLinear, ("match", "conv"): MATCHConv2d, ("match", "convpad"): MATCHConv2d,
            ("maupiti", "lin"): MAUPITILinear, ("maupiti", "conv"): MAUPITIConv2d, ("maupiti", "convpad"): MAUPITIConv2d}


def _int_of(v: float) -> Tuple[bool, int]:
    if not math.isfinite(v) or v != math.floor(v):
        return False, 0
    return True, int(v)


def run_tiny(sc: Dict[str, Any]) -> Dict[str, Any]:
    """One "done" state of IntegerizeMC mode "layer" on a real backend layer object."""
    import torch
    import torch.nn as nn
    import torch.nn.functional as F
    backend, cls = sc["backend"], sc["cls"]
    mau = backend == "maupiti"
    tr = dict(sc)
    tr.update(kind="tiny", sbit=16 if mau else sc["sbit"], spos=32 if mau else sc["spos"],
              exc="", scale=big(0), shift=0, addend=big(0), out=0, outint=False, offb=False)
    w1, w2 = sc["w"]
    x1, x2 = sc["x"]
    T = sc["tm"] / float(2 ** sc["te"])
    with torch.no_grad():
        if cls == "lin":
            base = nn.Linear(2, 1, bias=True)
            base.weight.copy_(torch.tensor([[float(w1), float(w2)]]))
            xin = torch.tensor([[float(x1), float(x2)]])
        elif cls == "conv":
            base = nn.Conv2d(2, 1, 1, bias=True)
            base.weight.copy_(torch.tensor([float(w1), float(w2)]).view(1, 2, 1, 1))
            xin = torch.tensor([float(x1), float(x2)]).view(1, 2, 1, 1)
        else:                                   # convpad: 3x3 kernel, padding 1, 1x1 image; x2 is the padded tap
            if x2 != 0:
                raise ValueError("convpad replays only states with x2 = 0")
            base = nn.Conv2d(1, 1, 3, padding=1, bias=True)
            wt = torch.zeros(1, 1, 3, 3)
            wt[0, 0, 1, 1] = float(w1)
            wt[0, 0, 0, 0] = float(w2)
            base.weight.copy_(wt)
            xin = torch.tensor([float(x1)]).view(1, 1, 1, 1)
        base.bias.copy_(torch.tensor([float(sc["b"])]))
    in_q = _StubQ(torch.tensor(1.0), sc["ib"])
    out_q = _StubQ(torch.tensor(1.0), sc["ob"])
    w_q = _StubW(torch.tensor([T], dtype=torch.float32), 8)
    b_q = _StubB(torch.tensor([T], dtype=torch.float32), 32)
    if float(w_q.scale[0]) != T:
        raise ValueError("target not representable in float32")
    C = _classes()[(backend, cls)]
    try:
        il = C(base, in_q, out_q, w_q, b_q) if mau else C(base, in_q, out_q, w_q, b_q,
                                                          scale_bit=sc["sbit"], shift_pos=sc["spos"])
        il.eval()
        lo_in = -(2 ** (sc["ib"] - 1)) if mau else 0
        with torch.no_grad():
            y = il(xin + lo_in)
    except Exception as e:
        tr["exc"] = _exc_name(e)
        return tr
    S = int(il.scale.reshape(-1)[0].item())
    sh = int(il.shift.reshape(-1)[0].item())
    add_t = il._zero_point if mau else il.add_bias
    ok_a, addend = _int_of(float(add_t.reshape(-1)[0].item()))
    ok_o, out = _int_of(float(y.reshape(-1)[0].item()))
    # accumulator as the real layer's requantiser saw it (only to decide whether float32 evaluated it exactly)
    with torch.no_grad():
        xi = (xin + lo_in).double()
        if cls == "lin":
            acc = F.linear(xi, il.weight.double())
        elif mau:
            acc = F.conv2d(il.pad(xi), il.weight.double(), None, il.stride, 0, il.dilation, il.groups)
        else:
            acc = F.conv2d(xi, il.weight.double(), None, il.stride, il.padding, il.dilation, il.groups)
    ar = int(acc.reshape(-1)[0].item())
    exact = Fr(ar * S + addend, 1 << sh)
    fl_ex = exact.numerator // exact.denominator
    mag = abs(ar * S) + abs(addend)
    if mag < 2 ** 24:
        offb = True
    else:
        dist = min(exact - fl_ex, fl_ex + 1 - exact)
        offb = dist > Fr(mag, 1 << sh) / 2 ** 21
    tr.update(scale=big(S), shift=sh, addend=big(addend if ok_a else 0), out=cap(out), outint=bool(ok_o and ok_a),
              offb=bool(offb))
    return tr


def run_approx(sc: Dict[str, Any]) -> Dict[str, Any]:
    """One "sel" state of IntegerizeMC mode "approx" on the real _integer_approximation of one class."""
    import types
    import torch
    mau = sc["backend"] == "maupiti"
    tr = dict(sc)
    tr.update(kind="approx", cls=sc["backend"] + "/" + sc["cls"], sbit=16 if mau else sc["sbit"],
              spos=32 if mau else sc["spos"], exc="", scales=[], shift=0)
    C = _classes()[(sc["backend"], sc["cls"])]
    me = types.SimpleNamespace(scale_bit=sc["sbit"], shift_pos=sc["spos"])
    s_w = torch.tensor([t / float(2 ** sc["te"]) for t in sc["tms"]], dtype=torch.float32)
    bias = torch.tensor([float(b) for b in sc["bs"]], dtype=torch.float32)
    if [int(v) for v in bias.tolist()] != list(sc["bs"]):
        raise ValueError("bias not representable in float32")
    try:
        scale_t, shift_t = C._integer_approximation(me, s_w, torch.tensor(1.0), torch.tensor(1.0), bias)
    except Exception as e:
        tr["exc"] = _exc_name(e)
        return tr
    tr["scales"] = [big(int(v)) for v in scale_t.reshape(-1).tolist()]
    tr["shift"] = int(shift_t.reshape(-1)[0].item())
    return tr


# ------------------------------------------------------------------------------------------------
# histories between export() and integerize_arch (IntegerizeLife)
# ------------------------------------------------------------------------------------------------
_FAKE_CACHE: Dict[str, Any] = {}


def _canon(x: Any) -> str:
    import json
    return json.dumps(x, sort_keys=True, default=str)


def get_fake(model: Dict[str, Any]):
    """(deep copy of the exported fake-quantised model, spec, input shape) of a model description; built once per process
    (the driver pre-builds in the parent, the per-scenario child processes inherit the cache)."""
    from plinio.methods.mps import MPS, MPSType
    k = _canon(model)
    if k not in _FAKE_CACHE:
        shape = (model["c0"], model["h"], model["w"])
        if model.get("nest", "flat") == "flat":
            net, spec, qinfo = build_net(model), flat_spec(model), make_qinfo(model)
        else:
            net = build_nested(model)
            spec, qinfo = spec_of_module(net), nested_qinfo(model)
        mps = MPS(net, input_shape=shape, qinfo=qinfo, w_search_type=MPSType.PER_LAYER)
        mps.eval()
        fake = mps.export()               # ends with a forward of the exported model: statistics version = weights version
        fake.eval()
        _FAKE_CACHE[k] = (fake, spec, shape)
    fake, spec, shape = _FAKE_CACHE[k]
    return copy.deepcopy(fake), copy.deepcopy(spec), shape


def apply_update(kind: str, fake, version: int) -> None:
    """Make weights version `version` out of the current one, through a public route that does NOT run the model."""
    import torch
    import plinio.methods.mps.quant.nn as qnn
    g = torch.Generator().manual_seed(7000 + version)
    factor = 1.6 if version % 2 == 1 else 0.55
    mods = dict(fake.named_modules())
    names = [n for n, _ in fake.named_parameters()
             if n.rsplit(".", 1)[-1] in ("weight", "bias") and isinstance(mods.get(n.rsplit(".", 1)[0]), (qnn.QuantConv2d, qnn.QuantLinear))]
    params = dict(fake.named_parameters())

    def noise(t):
        return (torch.rand(t.shape, generator=g) * 2 - 1) * 0.1 * float(t.abs().max())
    if kind == "load":                       # checkpoint -> load_state_dict
        sd = {k: v.detach().clone() for k, v in fake.state_dict().items()}
        for n in names:
            sd[n] = sd[n] * factor + noise(sd[n])
        fake.load_state_dict(sd)
    elif kind == "step":                     # one optimizer step on given gradients
        opt = torch.optim.SGD([params[n] for n in names], lr=1.0)
        for n in names:
            p = params[n]
            p.grad = (p.detach() * (1.0 - factor) - noise(p.detach()))
        opt.step()
    elif kind == "inplace":                  # in-place edit of the parameters
        with torch.no_grad():
            for n in names:
                p = params[n]
                p.mul_(factor)
                p.add_(noise(p))
    else:
        raise ValueError(kind)


def run_life(sc: Dict[str, Any]) -> Dict[str, Any]:
    """One history of IntegerizeLife on the real library.
    sc = {"kind": "life", "model": {...}, "xseed": int, "nsamp": int,
          "ev": [{"a": "fwd"} | {"a": "upd", "k": "load"|"step"|"inplace"} | {"a": "int", "backend": .., "sb": int, "sp": int}]}
    (sb / sp = 0: the option is not passed; no option at all: integerize_arch is called without backend_kwargs)."""
    import torch
    from plinio.methods.mps.quant.backends import Backend, integerize_arch
    model = sc["model"]
    fake, spec, shape = get_fake(model)
    g = torch.Generator().manual_seed(sc["xseed"])
    x = torch.rand((2,) + shape, generator=g) * 1.3 - 0.15
    versions = [snapshot(fake)]
    out = {"kind": "life", "nest": model.get("nest", "flat"), "ev": []}
    for i, e in enumerate(sc["ev"]):
        if e["a"] == "fwd":
            with torch.no_grad():
                fake(x)
            out["ev"].append({"a": "fwd"})
        elif e["a"] == "upd":
            apply_update(e["k"], fake, len(versions))
            versions.append(snapshot(fake))
            out["ev"].append({"a": "upd", "k": e["k"]})
        elif e["a"] == "int":
            backend = e["backend"]
            kwargs = {}
            if e["sb"]:
                kwargs["scale_bit"] = e["sb"]
            if e["sp"]:
                kwargs["shift_pos"] = e["sp"]
            kw0 = dict(kwargs)
            tr = _new_trace(backend, 0, 0, copy.deepcopy(spec))       # TLC fills in the options this call must use
            bk = Backend.MATCH if backend == "match" else Backend.MAUPITI
            try:
                if kwargs:
                    integ = integerize_arch(copy.deepcopy(fake), bk, backend_kwargs=kwargs)
                else:
                    integ = integerize_arch(copy.deepcopy(fake), bk)
            except Exception as ex:
                tr.update(stage="integerize", exc=_exc_name(ex), msg=_msg(ex))
            else:
                observe_integer(tr, copy.deepcopy(fake), integ, x, random.Random(sc["xseed"] * 31 + i), int(sc.get("nsamp", 3)),
                                versions)
            tr["kw_same"] = kwargs == kw0
            out["ev"].append({"a": "int", "backend": backend, "sb": e["sb"], "sp": e["sp"], "obs": tr})
        else:
            raise ValueError(e["a"])
    return out


# ------------------------------------------------------------------------------------------------
# parallel execution
# ------------------------------------------------------------------------------------------------
def _init_worker():
    import torch
    torch.set_num_threads(1)


def _run_one(sc):
    from .core import use_repo
    from . import tlc
    use_repo()
    try:
        if sc["kind"] == "net":
            return observe_net(sc)
        if sc["kind"] == "tiny":
            return run_tiny(sc)
        if sc["kind"] == "approx":
            return run_approx(sc)
        if sc["kind"] == "life":
            return run_life(sc)
        raise ValueError(sc["kind"])
    except Exception:       # a crash of the harness itself: never a verdict, always a machinery failure
        import json
        import traceback
        raise tlc.MachineryError("harness crashed on scenario " + json.dumps(sc, default=str)[:3000] + "\n"
                                 + traceback.format_exc(limit=8)) from None


def run_scenarios(scs: List[Dict[str, Any]], procs: int = 0) -> List[Dict[str, Any]]:
    import os
    from concurrent.futures import ProcessPoolExecutor
    if not scs:
        return []
    procs = procs or min(10, max(1, (os.cpu_count() or 4) - 4))
    if len(scs) < 8 or procs == 1:
        _init_worker()
        return [_run_one(s) for s in scs]
    import multiprocessing as mp
    ctx = mp.get_context("fork")
    with ProcessPoolExecutor(max_workers=procs, mp_context=ctx, initializer=_init_worker) as ex:
        return list(ex.map(_run_one, scs, chunksize=max(1, min(64, len(scs) // (procs * 8)))))


def run_isolated(scs: List[Dict[str, Any]], procs: int = 0) -> List[Dict[str, Any]]:
    """Like run_scenarios, but EVERY scenario runs in a process of its own, forked from this one: what a scenario does to
    process-level state of the library (module globals, default tables) cannot reach another scenario, and a scenario
    replayed alone behaves as it did in the batch.  The caller should not have converted anything itself before."""
    import os
    import multiprocessing as mp
    if not scs:
        return []
    procs = procs or min(10, max(1, (os.cpu_count() or 4) - 4))
    ctx = mp.get_context("fork")
    with ctx.Pool(processes=min(procs, len(scs)), initializer=_init_worker, maxtasksperchild=1) as pool:
        return pool.map(_run_one, scs, chunksize=1)
